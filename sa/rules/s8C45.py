"""C45, eighth round (session K3, seed C45l): C45-CLOSEGATE joined with the emission paths of the compiler.

`rule_closegate` is a copy of sa/rules/dD3.rule_closegate (delivery predicates of the start and closing macros of Profile.c per configuration block, three-valued
reachability of the delivering calls over the complete domain GIL flag x CYTHON_TRACE_NOGIL) with the one case it gave up on decided:

  a closing macro (return / unwind) that contains NO delivering call in a configuration whose start macro delivers the start event

is a no-op there.  Whether that loses an event is a question about the compiler: the macro may be emitted only under an emitted `#if` that excludes this
configuration (FuncDefNode reports the error exit of the legacy implementation with __Pyx_TraceReturnValue(NULL) under `#else` and never expands
__Pyx_TraceExceptionUnwind there), or it may be the ONLY closing event of some path (GeneratorBodyDefNode and the module init function emit put_trace_unwind
unconditionally).  The rule therefore evaluates, for every function that emits the start event, every emission path (the event sequences of C45-PAIR: pC45.scope_paths,
split by the emitted #if / #else lines for sys.monitoring and for the legacy implementation) and records which kind of closing event (ret / unwind) survives in which
of the two implementations; put_trace_return / put_trace_unwind calls of statement nodes (ReturnStatNode) count for both.  A no-op closing macro is

  * reported when an emission path of that implementation closes its activation with this kind of event (the start event is delivered, the closing one is not:
    the profiler sees a call that never returns), naming the sites;
  * passed over (r.info) when no path of that implementation expands it.

Closing definitions in a nested preprocessor block that has no start macro of its own (`#if PY_VERSION_HEX < ...` inside the legacy branch) are evaluated against the
start macros of the enclosing configuration blocks they are compatible with (dD3 skipped them).

Nothing here imports or runs repository code; C text is only parsed."""
import ast, itertools, re

from ..core import Rule, AnalysisError, node_src
from ..engine.cutil import strip_c_comments
from ..engine.pyindex import walk_no_nested
from .pC37 import local_assigns
from .pC45 import trace_sites, EVENT_METHODS, scope_paths, split_config
from . import sC45, dD3
from .dD3 import _macro_defs, _pname, gil_flag_params, delivers, flag_param_indices, _emitted_macros, _flag_kind, _conds_hold, REL_PROFILE

CLOSING = ('ret', 'unwind')


def closing_kinds(events, mon):
    """kinds of closing events (ret / unwind) that one emission path expands in one implementation (events of one receiver; [] when the path has no start event)"""
    ev = split_config(events, mon, 'C45-CLOSEGATE')
    if not any(e[1] == 'start' for e in ev):
        return []
    return [e[1] for e in ev if e[1] in CLOSING]


def closing_usage(ctx):
    """{(kind, sys.monitoring?): sorted sites} - where the compiler closes an activation with a put_trace_return / put_trace_unwind event that is expanded in the
    given implementation (the emitted `#if CYTHON_USE_SYS_MONITORING` / `#else` lines around the call decide)"""
    def build():
        used = {}
        n_owner = 0
        for m, qn, owner, fn in trace_sites(ctx):
            calls = [c for c in walk_no_nested(fn) if isinstance(c, ast.Call) and isinstance(c.func, ast.Attribute)]
            site = '%s.%s' % (m.short, qn)
            if any(c.func.attr == 'put_trace_start' for c in calls):
                n_owner += 1
                states = scope_paths(ctx, m, owner, fn)
                for recv in sorted({ast.unparse(c.func.value) for c in calls if c.func.attr == 'put_trace_start'}):
                    for st in states:
                        evs = [e for f in st if isinstance(f, tuple) and f[0] == 'EV' for e in f[1] if e[0] == recv]
                        for mon in (True, False):
                            for k in closing_kinds(evs, mon):
                                used.setdefault((k, mon), set()).add(site)
            else:
                for c in calls:
                    k = EVENT_METHODS.get(c.func.attr)
                    if k in CLOSING:
                        # a statement node: expanded wherever the statement is compiled (an emitted #if around it is not looked for: both implementations)
                        used.setdefault((k, True), set()).add(site)
                        used.setdefault((k, False), set()).add(site)
        if n_owner < 3:
            raise AnalysisError('C45-CLOSEGATE: only %d functions that emit put_trace_start found' % n_owner)
        return {k: sorted(v) for k, v in used.items()}
    return ctx.memo('s8C45.closing_usage', build)


def _implementations(conds):
    """which of the two implementations (sys.monitoring: True, legacy: False) a preprocessor condition chain can belong to"""
    return [bool(v) for v in (1, 0) if _conds_hold(conds, {'CYTHON_USE_SYS_MONITORING': v})]


def rule_closegate(ctx):
    r = Rule('C45-CLOSEGATE', 'whenever the start macro of a configuration delivers the start event (function entered with / without the GIL, CYTHON_TRACE_NOGIL on / off), '
             'every closing macro (return, unwind) delivers its event for each GIL state a call site can hand to it: a return inside `with nogil:` of a function that '
             'was entered with the GIL closes the activation that was opened; a closing macro that is a no-op in a configuration is not the closing event of any emission '
             'path of that implementation', floor=4)
    kinds, ems = _emitted_macros(ctx)
    starts, closes = kinds.get('start', set()), kinds.get('ret', set()) | kinds.get('unwind', set())
    if not starts or not closes:
        raise AnalysisError('C45-CLOSEGATE: the start / closing trace macros emitted by CCodeWriter.put_trace_* were not found')
    macro_kinds = {}
    for k in CLOSING:
        for m in kinds.get(k, ()):
            macro_kinds.setdefault(m, []).append(k)
    flag_idx = flag_param_indices(ctx, ems)

    # ---- compiler side: which (function entered without GIL, GIL released at the statement) pairs reach each closing method
    method_of = {v: k for k, v in EVENT_METHODS.items()}
    pairs = {'ret': set(), 'unwind': set()}
    where = {'ret': {}, 'unwind': {}}
    n_sites = 0
    ccw_methods = ctx.index.cls('Code', 'CCodeWriter').methods
    for m, qn, owner, fn in trace_sites(ctx):
        calls = [c for c in walk_no_nested(fn) if isinstance(c, ast.Call) and isinstance(c.func, ast.Attribute)]
        owns_scope = any(c.func.attr == method_of['start'] for c in calls)
        env = local_assigns(fn)
        for c in calls:
            k = EVENT_METHODS.get(c.func.attr)
            if k not in pairs:
                continue
            n_sites += 1
            if owns_scope:
                # the function epilogue: the flag is the state the function was entered with, or "held" after it took the GIL itself
                ps = {(0, 0), (1, 1), (1, 0)}
            else:
                fk = _flag_kind(c, fn, env, ccw_methods.get(c.func.attr))
                if fk is None:
                    r.info('%s.%s: the nogil flag of %s (%s) is not derived from a gil_owned value; site not modelled' % (
                        m.short, qn, c.func.attr, node_src(c, 80)))
                    continue
                # a statement node can sit in a `with nogil:` / `with gil:` block of either kind of function
                ps = {(0, 0), (1, 1), (1, 0), (0, 1)} if fk == 'current' else {(0, 0), (1, 0)}
            for p in ps:
                pairs[k].add(p)
                where[k].setdefault(p, '%s.%s' % (m.short, qn))
    if n_sites < 3:
        raise AnalysisError('C45-CLOSEGATE: only %d call sites of put_trace_return / put_trace_unwind found' % n_sites)
    used = closing_usage(ctx)
    for (k, mon), sites in sorted(used.items()):
        r.inst('usage:%s:%s' % (k, 'sys.monitoring' if mon else 'legacy'), sample='%s events of the %s implementation close the activations of %s' % (
            k, 'sys.monitoring' if mon else 'legacy', ', '.join(sites)))

    # ---- C side: delivery predicates per configuration
    by_cfg = {}
    for name in sorted(starts | closes):
        for cfg, d in _macro_defs(ctx, name):
            by_cfg.setdefault(cfg, {}).setdefault(name, []).append(d)

    def table(d, name):
        body = strip_c_comments(d.body or '')
        params = [_pname(p) for p in d.params]
        flags = gil_flag_params(params, body)
        for j in flag_idx.get(name, ()):
            if -len(params) <= j < len(params) and params[j] not in flags:
                flags.append(params[j])
        t = {}
        for f, c in itertools.product((0, 1), repeat=2):
            env = {'CYTHON_TRACE_NOGIL': c, '__Pyx_use_tracing': 1}
            for p in flags:
                env[p] = f
            t[(f, c)] = delivers(body, env, ctx)
        return t, [p for p in flags if re.search(r'\b%s\b' % re.escape(p), body)]

    own_starts = {}
    for cfg, defs in by_cfg.items():
        tabs = []
        for name in sorted(starts):
            for d in defs.get(name, []):
                t, flags = table(d, name)
                if any(v for v in t.values()):
                    tabs.append((name, t, flags))
        own_starts[cfg] = tabs
    n_cfg = 0
    for cfg, defs in sorted(by_cfg.items()):
        start_tabs = own_starts[cfg]
        if not start_tabs:
            if any(defs.get(name) for name in starts):
                continue            # no-op configuration: nothing is opened
            # a nested block that only redefines closing macros: the start macros of the configuration blocks it can be active together with
            start_tabs = [x for cfg2, tabs in sorted(own_starts.items()) if tabs and sC45._compatible(cfg, cfg2) for x in tabs]
            if not start_tabs:
                continue
        else:
            n_cfg += 1
        cfg_text = (cfg[-1].split(';')[0].replace('if ', '') + (' (else)' if 'else' in cfg[-1] else '')) if cfg else 'default'

        def start_delivers(f, c):
            # a start macro that never looks at the GIL flag is only used by functions that hold the GIL
            return any(t[(f, c)] for _, t, flags in start_tabs if flags or f == 0)
        for name in sorted(closes):
            for d in defs.get(name, []):
                t, flags = table(d, name)
                key = 'Profile.%s:%s:close-gate' % (name, ''.join(cfg_text.split()))       # construct keys carry no blanks (known_findings.txt format)
                if all(v is None for v in t.values()):
                    # a no-op in a configuration that opens activations: is it the closing event of an emission path of this implementation?
                    impls = _implementations(d.conds)
                    sites = sorted({s for k in macro_kinds[name] for mon in impls for s in used.get((k, mon), ())})
                    nkey = 'Profile.%s:%s:no-delivery' % (name, ''.join(cfg_text.split()))
                    r.inst(nkey, sample='%s [%s]: no delivering call; expanded by %s' % (name, cfg_text, sites or 'no emission path of this implementation'))
                    if not sites:
                        r.info('%s (`%s`) delivers nothing, and no emission path of the %s implementation closes an activation with it' % (
                            name, cfg_text, ' / '.join('sys.monitoring' if x else 'legacy' for x in impls) or '?'))
                        continue
                    r.violate(nkey, REL_PROFILE, d.line,
                              '%s (`%s`) is defined without any delivering call (a no-op) although the start macro of this configuration delivers the start event and %s '
                              'close%s the activation with exactly this event in the %s implementation (no emitted `#if CYTHON_USE_SYS_MONITORING` line takes it out): '
                              'a function / generator body that is left this way reports a call that is never closed, and the events of its callers are no longer nested'
                              % (name, cfg_text, ', '.join(sites), 's' if len(sites) == 1 else '', ' / '.join('sys.monitoring' if x else 'legacy' for x in impls)))
                    continue
                for kind in macro_kinds[name]:
                    r.inst(key, sample='%s [%s]: delivered for (flag, CYTHON_TRACE_NOGIL) in %s; call sites produce (entered without GIL, flag) pairs %s' % (
                        name, cfg_text, sorted(k for k, v in t.items() if v), sorted(pairs[kind])))
                    bad = []
                    for (f, g) in sorted(pairs[kind]):
                        for c in (0, 1):
                            if start_delivers(f, c) and not t[(g, c)]:
                                bad.append((f, g, c))
                    if bad:
                        f, g, c = bad[0]
                        r.violate(key, REL_PROFILE, d.line,
                                  '%s (`%s`) does not deliver its event when its GIL flag is %d and CYTHON_TRACE_NOGIL is %d, although the start macro delivers the start event of a '
                                  'function that was entered %s the GIL under that setting and %s hands over the GIL state of the statement: a %s inside `with %s:` reports a call '
                                  'event that is never closed (all failing cases (entered without GIL, flag, CYTHON_TRACE_NOGIL): %s)' % (
                                      name, cfg_text, g, c, 'without' if f else 'with', where[kind].get((f, g), '?'),
                                      'return' if kind == 'ret' else 'raise', 'nogil' if g else 'gil', bad))
                        break
    if n_cfg < 2:
        raise AnalysisError('C45-CLOSEGATE: only %d configuration blocks with a delivering start macro found in Profile.c' % n_cfg)
    pcb = ('if (likely(!__Pyx_use_tracing)); else { if (nogil) { if (CYTHON_TRACE_NOGIL) { PyGILState_STATE s = PyGILState_Ensure(); '
           '__Pyx_call_return_trace_func(t, f, r); PyGILState_Release(s); } } else { __Pyx_call_return_trace_func(t, f, r); } }')
    r.positive_control(gil_flag_params(['result', 'nogil'], pcb) == ['nogil'] and
                       delivers(pcb, {'nogil': 1, 'CYTHON_TRACE_NOGIL': 0, '__Pyx_use_tracing': 1}) is False and
                       delivers(pcb, {'nogil': 1, 'CYTHON_TRACE_NOGIL': 1, '__Pyx_use_tracing': 1}) is True and
                       delivers(pcb, {'nogil': 0, 'CYTHON_TRACE_NOGIL': 0, '__Pyx_use_tracing': 1}) is True,
                       'closing macro that drops the event of a nogil section unless CYTHON_TRACE_NOGIL is set')
    # an error exit that emits put_trace_unwind unconditionally expands it in the legacy implementation; one that emits it under `#if CYTHON_USE_SYS_MONITORING`
    # and the return event under `#else` does not - and an empty macro body has no delivering call
    pc1 = [('code', 'start', 1), ('code', 'errlabel', 2), ('code', 'unwind', 3), ('code', 'exit', 4)]
    pc2 = [('code', 'start', 1), ('code', 'errlabel', 2), ('code', 'cpp', 3, 'if', 'CYTHON_USE_SYS_MONITORING'), ('code', 'unwind', 4),
           ('code', 'cpp', 5, 'else', ''), ('code', 'ret', 6), ('code', 'cpp', 7, 'endif', ''), ('code', 'exit', 8)]
    r.positive_control(closing_kinds(pc1, False) == ['unwind'] and closing_kinds(pc2, False) == ['ret'] and closing_kinds(pc2, True) == ['unwind'] and
                       delivers(' {} ', {'CYTHON_TRACE_NOGIL': 1, '__Pyx_use_tracing': 1}) is None,
                       'an unconditionally emitted unwind event whose legacy macro is empty closes nothing')
    return r
