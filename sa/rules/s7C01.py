"""C01 — seventh round: the argument-unpacking code of a Python function binds every call like CPython does.

C01-ARGBIND  (seed C01i: the keyword-name table was collected in declaration order while the slots of values[] keep the
              "required keyword-only first" order, so `def f(a, *, scale=1, offset)` received its keyword arguments swapped)

DefNodeWrapper.generate_tuple_and_keyword_parsing_code and the emitters it calls (generate_posargs_unpacking_code,
generate_keyword_unpacking_code, generate_argument_defaults_assignment_code, generate_arg_assignment, generate_stararg_init_code,
generate_argument_values_setup_code) communicate through several parallel tables: the slot order of the C array values[], the table of
interned names handed to __Pyx_ParseKeywords together with a base pointer `values + K` and a count of names already taken positionally,
the case numbers of the switch over nargs, the index ranges of the two "required argument missing" loops, the per-slot defaults and the
final slot -> parameter assignment.  Each of them is plain index arithmetic in the generator; what a call binds is a property of all of
them TOGETHER.

The rule does not look at any of these tables by name.  It
 1. runs the generator with the checker's own interpreter (pC01.TB, never the repository code) on EVERY signature of a finite family
    (0..1 positional-only, 0..2 positional-or-keyword parameters with every legal placement of defaults, every sequence of up to three
    required / optional keyword-only parameters in every order, with / without *args, with / without **kwargs, with / without a self
    argument; at most four parameters) and records the emitted C text;
 2. parses that text (statement parser of pC17, expression parser of engine/cexpr) and executes it on a small machine model for EVERY call
    shape of the signature: every number of positional arguments from 0 to one more than can be bound, combined with every subset of the
    keyword names {each parameter name, one unknown name}.  The C helpers are modelled by their contracts (__Pyx_ArgRef_<v>(args, i) is the
    i-th positional argument and must exist; __Pyx_ParseKeywords stores the value of a keyword found at index j >= num_pos_args of the name
    table into base[j], reports a name found below num_pos_args as a duplicate, and hands unknown names to the ** dict or rejects them -
    the C side of that contract is decided by C24-IDX / C24-KW2 / C24-UNKNOWN);
 3. compares the outcome - which value (positional #i, keyword value of name n, default of parameter p) lands in which parameter, the
    start of the *args slice, the names collected in **kwargs, or TypeError - with the binding algorithm of the language reference
    (function calls, 6.3.4) evaluated on the same call shape.
Memory safety of the emitted index arithmetic is checked on the way (values[] / name table / argument vector accessed out of bounds).

Anything the interpreter or the machine cannot model (an unknown attribute of the argument objects, a C statement of an unknown form that
mentions the modelled variables) is an ANALYSIS-ERROR, never a guess.
"""
import itertools, re

from ..core import Rule, AnalysisError
from ..engine import cexpr
from . import pC17
from .pC01 import TB, SNode, Opaque, ModRef, BoundMethod, CodeRec, Closure, Env, Label, TBGiveUp, _Fork, _Raise

NODES = 'Cython/Compiler/Nodes.py'
WRAPPER = 'DefNodeWrapper'
ENTRY = 'generate_tuple_and_keyword_parsing_code'
MODEL_CLS = ('<arg>', '<type>', '<entry>', '<sig>', '<name>', '<target>', '<default>')
ERRLABEL = '__ERR__'


# =============================================================================================== 1. running the generator
class ArgTB(TB):
    """pC01.TB with C text kept exact: format specs, str * int, Naming constants as symbolic identifiers, strict model objects."""

    def getattr(self, v, attr, text=''):
        if isinstance(v, ModRef) and v.name == 'Naming':
            return 'NAMING_' + attr
        if isinstance(v, SNode) and v.cls in MODEL_CLS:
            if attr in v.facts:
                return v.facts[attr]
            if attr in v.facts.get('_methods', ()):
                return BoundMethod(v, attr)
            if attr == 'pos':
                return Opaque('pos')
            raise TBGiveUp('the generator reads %s.%s, which the signature model does not define' % (v.cls, attr))
        return TB.getattr(self, v, attr, text)

    def call_method(self, recv, name, args, kw, n, text):
        if isinstance(recv, SNode) and recv.cls in MODEL_CLS:
            if name == 'calculate_default_value_code':
                return 'DEFAULT_%s' % recv.facts['name']
            if name == 'as_pyobject' and len(args) == 1:
                return args[0]
            if name == 'nullcheck_string' and len(args) == 1:
                return args[0]
            if name == 'as_c_string_literal':
                return 'FNAME'
            if name == 'convert_to_basetype':
                return None
            raise TBGiveUp('the generator calls %s.%s(), which the signature model does not define' % (recv.cls, name))
        return TB.call_method(self, recv, name, args, kw, n, text)

    def code_method(self, code, name, args, kw):
        if name == 'intern_identifier' and len(args) == 1 and isinstance(args[0], str):
            return 'PYNAME_' + args[0]
        if name in ('error_goto',):
            return '{goto %s;}' % ERRLABEL
        if name in ('put_error_if_neg', 'put_error_if_null') and len(args) == 2:
            t = args[1] if isinstance(args[1], str) else '<?>'
            code.items.append(('text', ('if ((%s) < 0) {goto %s;}' if name == 'put_error_if_neg' else 'if (!(%s)) {goto %s;}') % (t, ERRLABEL)))
            return None
        if name == 'unlikely' and len(args) == 1 and isinstance(args[0], str):
            return 'unlikely(%s)' % args[0]
        return TB.code_method(self, code, name, args, kw)

    def e_JoinedStr(self, n, env):
        import ast
        parts = []
        for v in n.values:
            if isinstance(v, ast.Constant):
                parts.append(str(v.value))
                continue
            x = self.ev(v.value, env)
            spec = ''
            if v.format_spec is not None:
                spec = self.ev(v.format_spec, env)
                if not isinstance(spec, str):
                    raise TBGiveUp('computed format spec')
            if v.conversion not in (-1, 115):
                raise TBGiveUp('f-string conversion')
            if isinstance(x, (str, int)):
                try:
                    parts.append(format(x, spec))
                except (ValueError, TypeError):
                    raise TBGiveUp('format(%r, %r)' % (x, spec))
            else:
                parts.append('<?>')
        return ''.join(parts)

    def e_BinOp(self, n, env):
        import ast
        if isinstance(n.op, ast.Mult):
            a, b = self.ev(n.left, env), self.ev(n.right, env)
            if isinstance(a, str) and isinstance(b, int):
                return a * b
            if isinstance(a, int) and isinstance(b, int):
                return a * b
            raise TBGiveUp('multiplication of %r, %r' % (a, b))
        if isinstance(n.op, ast.Mod):
            a, b = self.ev(n.left, env), self.ev(n.right, env)
            if isinstance(a, str):
                vals = b if isinstance(b, tuple) else (b,)
                vals = tuple(x if isinstance(x, (str, int)) else '<?>' for x in vals)
                try:
                    return a % vals
                except (TypeError, ValueError):
                    raise TBGiveUp('%% formatting of %r' % (a,))
            if isinstance(a, int) and isinstance(b, int) and b:
                return a % b
            raise TBGiveUp('operator %% on %r, %r' % (a, b))
        return TB.e_BinOp(self, n, env)


class Param:
    __slots__ = ('name', 'kind', 'default')

    def __init__(self, name, kind, default):
        self.name, self.kind, self.default = name, kind, default         # kind: 'po' | 'pk' | 'ko'


class Sig:
    def __init__(self, params, star, starstar, with_self):
        self.params, self.star, self.starstar, self.with_self = params, star, starstar, with_self

    def show(self):
        out, seen_po, seen_ko = [], False, False
        if self.with_self:
            out.append('self')
        for i, p in enumerate(self.params):
            if p.kind != 'po' and seen_po:
                out.append('/')
                seen_po = False
            if p.kind == 'po':
                seen_po = True
            if p.kind == 'ko' and not seen_ko:
                seen_ko = True
                out.append('*args' if self.star else '*')
            out.append(p.name + ('=d' if p.default else ''))
        if seen_po:
            out.append('/')
        if self.star and not seen_ko:
            out.append('*args')
        if self.starstar:
            out.append('**kw')
        return 'def f(%s)' % ', '.join(out)

    def key(self):
        return '%s%s%s%s' % ('self,' if self.with_self else '', ','.join('%s%s' % (p.kind, '=' if p.default else '') for p in self.params),
                             ',*' if self.star else '', ',**' if self.starstar else '')


def signatures(max_params=4):
    names = 'abcdefgh'
    out = []
    for npo, npk, nko in itertools.product(range(2), range(3), range(4)):
        n = npo + npk + nko
        if n == 0 or n > max_params:
            continue
        for nreq in range(npo + npk + 1):
            for kos in itertools.product((False, True), repeat=nko):
                for star, starstar in itertools.product((False, True), repeat=2):
                    for with_self in ((False, True) if not (star or starstar) and nko <= 1 else (False,)):
                        ps = []
                        for i in range(npo + npk):
                            ps.append(Param(names[len(ps)], 'po' if i < npo else 'pk', i >= nreq))
                        for d in kos:
                            ps.append(Param(names[len(ps)], 'ko', d))
                        out.append(Sig(ps, star, starstar, with_self))
    return out


def _pytype():
    return SNode('pytype', {'is_pyobject': True, 'is_pyint_type': False, 'is_pyfloat_type': False, 'is_memoryviewslice': False, 'from_py_function': None,
                            'needs_refcounting': True, '_methods': ('as_pyobject', 'nullcheck_string', 'convert_to_basetype')}, cls='<type>')


def _arg(name, kw_only=False, pos_only=False, default=False, is_self=False, generic=True):
    ty = _pytype()
    entry = SNode('entry_' + name, {'name': name, 'cname': 'VAR_' + name, 'type': ty, 'cf_used': True, 'xdecref_cleanup': 0, 'in_closure': False}, cls='<entry>')
    return SNode('arg_' + name, {
        'name': name, 'entry': entry, 'type': ty, 'kw_only': 1 if kw_only else 0, 'pos_only': 1 if pos_only else 0, 'is_generic': 1 if generic else 0,
        'is_self_arg': 1 if is_self else 0, 'is_type_arg': 0, 'accept_none': True, 'name_cstring': '"%s"' % name, 'needs_conversion': False,
        'default': SNode('default_' + name, {'name': name}, cls='<default>') if default else None,
        '_methods': ('calculate_default_value_code',)}, cls='<arg>')


def _self_for(sig):
    args = []
    if sig.with_self:
        args.append(_arg('self', is_self=True, generic=False))
    for p in sig.params:
        args.append(_arg(p.name, kw_only=p.kind == 'ko', pos_only=p.kind == 'po', default=p.default))
    facts = {
        'args': args,
        'star_arg': _arg('STAR') if sig.star else None,
        'starstar_arg': _arg('KW') if sig.starstar else None,
        'num_required_args': sum(1 for a in args if a.facts['default'] is None),
        'num_required_kw_args': sum(1 for a in args if a.facts['kw_only'] and a.facts['default'] is None),
        'num_kwonly_args': sum(1 for a in args if a.facts['kw_only']),
        'num_posonly_args': sum(1 for a in args if a.facts['pos_only']),
        'name': SNode('fname', {'_methods': ('as_c_string_literal',)}, cls='<name>'),
        'signature': SNode('signature', {'fastvar': 'FASTCALL', 'use_fastcall': True}, cls='<sig>'),
        'target': SNode('target', {'defaults_struct': None}, cls='<target>'),
        'pos': Opaque('pos'), 'needs_values_cleanup': False,
    }
    return SNode('self', facts, cls=WRAPPER), args


def emit_signature(ix, sig, found, limit=16):
    """-> [C text] (one per path of the generator; forks only when the generator asks something the model leaves open)"""
    out, todo, n = [], [dict()], 0
    stubs = {'typecast': lambda tb, a, k: a[2] if len(a) == 3 else Opaque('typecast'),
             'error_value': lambda tb, a, k: '0'}
    while todo:
        d = todo.pop()
        n += 1
        if n > limit:
            raise TBGiveUp('more than %d generator paths for %s' % (limit, sig.show()))
        tb = ArgTB(ix, found[0].module, d, None, stubs)
        tb.inline = {WRAPPER}
        code, decl = CodeRec(), CodeRec()
        me, args = _self_for(sig)
        try:
            tb.invoke(Closure(found[1], Env(), None), [me, args, code, decl], {})
        except _Fork as f:
            for b in (True, False):
                d2 = dict(d)
                d2[f.key] = b
                todo.append(d2)
            continue
        except _Raise as r:
            raise TBGiveUp('%s raises %s for %s' % (ENTRY, r.name, sig.show()))
        out.append(c_text(decl.items) + '\n' + c_text(code.items))
    return out


def c_text(items):
    parts = []
    for it in items:
        if it[0] == 'text':
            parts.append(it[1])
        elif it[0] == 'goto':
            parts.append('goto %s;' % _lab(it[1]))
        elif it[0] == 'label':
            parts.append('%s:;' % _lab(it[1]))
        else:
            raise TBGiveUp('emitted item %r' % (it,))
    return '\n'.join(parts)


def _lab(l):
    return 'LBL%d' % l.id if isinstance(l, Label) else str(l)


# =============================================================================================== 2. executing the emitted C
class Unmodelled(Exception):
    pass


class Defect(Exception):
    """the emitted code misbehaves at the C level for this call (out-of-bounds access, ...)"""


class _Goto(Exception):
    def __init__(self, label):
        self.label = label


class _Break(Exception):
    pass


class _Done(Exception):
    def __init__(self, what):
        self.what = what


_PARSE = {}
_LOOPS = {}
TYPEWORDS = re.compile(r'^(?:(?:const|CYTHON_UNUSED|static|unsigned|struct)\s+)*(?:Py_ssize_t|int|long|size_t|PyObject\s*\*+(?:\s*const)?|PyObject)\s*(?:const\s+)?')
ASSIGN = re.compile(r'^(?P<lhs>[A-Za-z_]\w*(?:\s*\[[^=]*\])?)\s*=(?!=)\s*(?P<rhs>.*)$', re.S)
ARRDECL = re.compile(r'^(?P<name>[A-Za-z_]\w*)\s*\[\s*(?P<n>\d*)\s*\]\s*=\s*\{(?P<init>.*)\}$', re.S)

POS, KWV, DEF, SLICE = 100, 200, 300, 1000          # token bases of the values the machine moves around


def _expr(text):
    e = _PARSE.get(text)
    if e is None:
        try:
            e = cexpr.parse(text)
        except cexpr.ParseError as x:
            raise Unmodelled('C expression %r: %s' % (text, x))
        _PARSE[text] = e
    return e


class Machine:
    def __init__(self, stmts, sig, npos, kwnames):
        self.stmts, self.sig, self.npos, self.kwnames = stmts, sig, npos, kwnames
        self.env = {'NAMING_nargs_cname': npos, 'NAMING_kwds_cname': 1 if kwnames else 0, 'NAMING_kwvalues_cname': 1, 'NAMING_args_cname': SLICE,
                    'CYTHON_ASSUME_SAFE_MACROS': 1, 'FNAME': 1, 'NAMING_self_cname': 1}
        self.index = {p.name: i for i, p in enumerate(sig.params)}
        for p in sig.params:
            self.env['DEFAULT_' + p.name] = DEF + self.index[p.name]
            self.env['PYNAME_' + p.name] = ('name', p.name)
        self.arrays = {}
        self.kwargs = None
        self.error = None
        self.steps = 0

    # ---------------------------------------------------------------------------------------------------- expressions
    def ev(self, e):
        k = e[0]
        if k in ('num', 'char'):
            return e[1]
        if k == 'id':
            n = e[1]
            if n in self.arrays:
                return ('ptr', n, 0)
            if n in self.env:
                return self.env[n]
            raise Unmodelled('C identifier %s' % n)
        if k == 'cast':
            return self.ev(e[2])
        if k == 'un':
            op = e[1]
            if op == '&':
                if e[2][0] == 'id' and e[2][1].startswith('PYNAME_'):
                    return ('name', e[2][1][7:])
                raise Unmodelled('address of %r' % (e[2],))
            v = self.ev(e[2])
            if op == '*':
                if isinstance(v, tuple) and v[0] == 'name':
                    return v
                if isinstance(v, tuple) and v[0] == 'ptr':
                    return self.load(v[1], v[2])
                if v == 0:
                    raise Defect('dereferences a NULL entry (the terminator of the keyword-name table)')
                raise Unmodelled('dereference of %r' % (v,))
            if op == '!':
                return int(not self.truth(v))
            if op == '-' and isinstance(v, int):
                return -v
            raise Unmodelled('unary %s' % op)
        if k == 'tern':
            return self.ev(e[2]) if self.truth(self.ev(e[1])) else self.ev(e[3])
        if k == 'call':
            return self.call(e[1], e[2])
        if k == 'bin':
            op = e[1]
            if op == '&&':
                return int(self.truth(self.ev(e[2])) and self.truth(self.ev(e[3])))
            if op == '||':
                return int(self.truth(self.ev(e[2])) or self.truth(self.ev(e[3])))
            a, b = self.ev(e[2]), self.ev(e[3])
            if op == '[]':
                if isinstance(a, tuple) and a[0] == 'ptr' and isinstance(b, int):
                    return self.load(a[1], a[2] + b)
                raise Unmodelled('subscript of %r' % (a,))
            if isinstance(a, tuple) and a[0] == 'ptr' and isinstance(b, int) and op in ('+', '-'):
                return ('ptr', a[1], a[2] + (b if op == '+' else -b))
            if isinstance(a, int) and isinstance(b, int):
                f = {'+': a + b, '-': a - b, '*': a * b, '<': int(a < b), '>': int(a > b), '<=': int(a <= b), '>=': int(a >= b), '==': int(a == b), '!=': int(a != b)}
                if op in f:
                    return f[op]
            raise Unmodelled('C operator %s on %r, %r' % (op, a, b))
        raise Unmodelled('C expression node %s' % k)

    def truth(self, v):
        if isinstance(v, int):
            return v != 0
        if isinstance(v, tuple):
            return True
        raise Unmodelled('truth of %r' % (v,))

    def load(self, arr, i):
        a = self.arrays[arr]
        if not 0 <= i < len(a):
            raise Defect('reads %s[%d], the array has %d elements' % (arr, i, len(a)))
        return a[i]

    def store(self, arr, i, v):
        a = self.arrays[arr]
        if not 0 <= i < len(a):
            raise Defect('writes %s[%d], the array has %d elements' % (arr, i, len(a)))
        a[i] = v

    # ---------------------------------------------------------------------------------------------------- helper contracts
    def call(self, name, args):
        if name in ('likely', 'unlikely') and len(args) == 1:
            return self.ev(args[0])
        if name.startswith('__Pyx_ArgRef_') and len(args) == 2:
            i = self.ev(args[1])
            if not isinstance(i, int) or not 0 <= i < self.npos:
                raise Defect('fetches positional argument #%r of a call that passed %d' % (i, self.npos))
            return POS + i
        if name.startswith('__Pyx_NumKwargs_'):
            return len(self.kwnames)
        if name.startswith('__Pyx_ArgsSlice_') and len(args) == 3:
            lo, hi = self.ev(args[1]), self.ev(args[2])
            if hi != self.npos:
                raise Defect('*args slice ends at %r, %d positional arguments were passed' % (hi, self.npos))
            return SLICE + lo
        if name == '__Pyx_NewRef' and len(args) == 1:
            return self.ev(args[0])
        if name == 'PyDict_New':
            self.kwargs = set()
            return 1
        if name in ('__Pyx_RaiseArgtupleInvalid', '__Pyx_RejectKeywords'):
            for a in args:
                self.ev(a)
            self.error = ('TypeError', name)
            return 0
        if name == '__Pyx_RaiseKeywordRequired' and len(args) == 2:
            n = self.ev(args[1])
            if not (isinstance(n, tuple) and n[0] == 'name'):
                raise Defect('passes %r as the name of the missing keyword-only argument' % (n,))
            p = next((q for q in self.sig.params if q.name == n[1]), None)
            if p is None or p.kind != 'ko' or p.default or p.name in self.kwnames:
                raise Defect('reports %s as the missing required keyword-only argument, which it is not' % n[1])
            self.error = ('TypeError', name, n[1])
            return 0
        if name == '__Pyx_ParseKeywords':
            return self.parse_keywords([self.ev(a) for a in args])
        raise Unmodelled('C helper %s/%d' % (name, len(args)))

    def parse_keywords(self, a):
        if len(a) != 9:
            raise Unmodelled('__Pyx_ParseKeywords with %d arguments' % len(a))
        kwds, kwvalues, argnames, kwds2, values, num_pos_args, num_kwargs, fname, ignore_unknown = a
        if not (isinstance(argnames, tuple) and argnames[0] == 'ptr' and isinstance(values, tuple) and values[0] == 'ptr'):
            raise Unmodelled('__Pyx_ParseKeywords table arguments %r, %r' % (argnames, values))
        table = self.arrays[argnames[1]][argnames[2]:]
        names = []
        for t in table:
            if t == 0:
                break
            names.append(t[1])
        else:
            raise Defect('the keyword-name table has no terminating 0')
        if not isinstance(num_pos_args, int) or not 0 <= num_pos_args <= len(names):
            raise Defect('__Pyx_ParseKeywords is told that %r names were taken positionally, the name table has %d names' % (num_pos_args, len(names)))
        if num_kwargs != len(self.kwnames):
            raise Defect('__Pyx_ParseKeywords is told %r keywords were passed, %d were' % (num_kwargs, len(self.kwnames)))
        for kwname in self.kwnames:
            if kwname in names[num_pos_args:]:
                j = names.index(kwname, num_pos_args)
                self.store(values[1], values[2] + j, KWV + self.index[kwname])
            elif kwname in names[:num_pos_args]:
                self.error = ('TypeError', 'multiple values for ' + kwname)
                return -1
            elif kwds2:
                if self.kwargs is None:
                    raise Defect('a ** dict that was never created is passed to __Pyx_ParseKeywords')
                self.kwargs.add(kwname)
            elif ignore_unknown:
                pass
            else:
                self.error = ('TypeError', 'unexpected keyword ' + kwname)
                return -1
        return 0

    # ---------------------------------------------------------------------------------------------------- statements
    def run(self):
        """-> ('ok', {parameter: token}, star token | None, kwargs names | None) | ('TypeError', detail)"""
        top = self.stmts
        i = 0
        try:
            while i < len(top):
                try:
                    self.stmt(top[i])
                    i += 1
                except _Goto as g:
                    if g.label == ERRLABEL:
                        if self.error is None:
                            raise Defect('reaches the error exit without an exception set')
                        return self.error
                    at = [k for k, s in enumerate(top) if s.kind == 'label' and s.text == g.label]
                    if len(at) != 1:
                        raise Unmodelled('goto %s: label not at the top level of the emitted block' % g.label)
                    i = at[0] + 1
        except _Done as d:
            if self.error is None:
                raise Defect('returns the error value without an exception set')
            return self.error
        if self.error is not None:
            raise Defect('an exception is set (%s) but argument unpacking completes normally' % (self.error[1],))
        bound = {}
        for p in self.sig.params:
            bound[p.name] = self.env.get('VAR_' + p.name)
        return ('ok', bound, self.env.get('VAR_STAR'), frozenset(self.kwargs) if self.kwargs is not None else None)

    def block(self, stmts):
        for s in stmts:
            self.stmt(s)

    def stmt(self, s):
        self.steps += 1
        if self.steps > 5000:
            raise Unmodelled('step limit')
        k = s.kind
        if k == 'block':
            self.block(s.body)
        elif k == 'simple':
            self.simple(s.text)
        elif k == 'if':
            if self.truth(self.ev(_expr(s.text))):
                self.stmt(s.body)
            elif s.orelse is not None:
                self.stmt(s.orelse)
        elif k == 'switch':
            self.switch(s)
        elif k == 'for':
            self.loop(s)
        elif k in ('label', 'pp'):
            return
        elif k in ('case', 'default'):
            raise Unmodelled('case label outside a switch body')
        else:
            raise Unmodelled('C statement kind %s' % k)

    def switch(self, s):
        v = self.ev(_expr(s.text))
        body = pC17.as_list(s.body)
        start = None
        for i, st in enumerate(body):
            if st.kind == 'case' and self.ev(_expr(st.text)) == v:
                start = i
                break
        if start is None:
            for i, st in enumerate(body):
                if st.kind == 'default':
                    start = i
                    break
        if start is None:
            return
        try:
            for st in body[start:]:
                if st.kind in ('case', 'default'):
                    continue
                self.stmt(st)
        except _Break:
            pass

    def loop(self, s):
        h = _LOOPS.get(s.text)
        if h is None:
            parts = s.text.split(';')
            if len(parts) != 3:
                raise Unmodelled('for header %r' % s.text)
            m = re.fullmatch(r'\s*(?:\+\+\s*(\w+)|(\w+)\s*\+\+)\s*', parts[2])
            if not m:
                raise Unmodelled('for increment %r' % parts[2])
            h = _LOOPS[s.text] = (parts[0].strip(), _expr(parts[1].strip()), m.group(1) or m.group(2))
        self.simple(h[0])
        cond, var = h[1], h[2]
        n = 0
        while self.truth(self.ev(cond)):
            n += 1
            if n > 64:
                raise Unmodelled('loop does not terminate')
            try:
                self.stmt(s.body)
            except _Break:
                break
            self.env[var] = self.env[var] + 1

    def simple(self, text):
        op = _SIMPLE.get(text)
        if op is None:
            op = _SIMPLE[text] = _compile_simple(text)
        k = op[0]
        if k == 'noop':
            return
        if k == 'break':
            raise _Break()
        if k == 'goto':
            raise _Goto(op[1])
        if k == 'return':
            raise _Done(text)
        if k == 'array':
            vals = [self.ev(x) for x in op[3]]
            n = op[2] if op[2] is not None else len(vals)
            if len(vals) > n:
                raise Defect('%s[%d] initialised with %d values' % (op[1], n, len(vals)))
            self.arrays[op[1]] = vals + [0] * (n - len(vals))
        elif k == 'store':
            v = self.ev(op[3])
            if op[1] not in self.arrays:
                raise Unmodelled('store into %s[...]' % op[1])
            self.store(op[1], self.ev(op[2]), v)
        elif k == 'assign':
            self.env[op[1]] = self.ev(op[2])
        else:
            self.ev(op[1])


_SIMPLE = {}


def _compile_simple(text):
    t = text.strip()
    if not t or t == 'CYTHON_FALLTHROUGH':
        return ('noop',)
    if t == 'break':
        return ('break',)
    m = re.fullmatch(r'goto\s+(\w+)', t)
    if m:
        return ('goto', m.group(1))
    if re.match(r'return\b', t):
        return ('return',)
    t2 = TYPEWORDS.sub('', t, count=1) if TYPEWORDS.match(t) else t
    t2 = t2.lstrip('* ')
    t2 = re.sub(r'^const\s+', '', t2)
    m = ARRDECL.match(t2)
    if m:
        init = [x.strip() for x in m.group('init').split(',')] if m.group('init').strip() else []
        return ('array', m.group('name'), int(m.group('n')) if m.group('n') else None, [_expr(x) for x in init])
    m = ASSIGN.match(t2)
    if m:
        lhs, rhs = m.group('lhs').strip(), m.group('rhs').strip()
        mm = re.fullmatch(r'(\w+)\s*\[(.*)\]', lhs, re.S)
        if mm:
            return ('store', mm.group(1), _expr(mm.group(2)), _expr(rhs))
        return ('assign', lhs, _expr(rhs))
    e = _expr(t2)
    if e[0] == 'call':
        return ('call', e)
    raise Unmodelled('C statement %r' % t)


# =============================================================================================== 3. the language reference
def reference(sig, npos, kwnames):
    """Binding of a call with npos positional arguments and the keyword names kwnames (language reference 6.3.4 / CPython)."""
    positional = [p for p in sig.params if p.kind in ('po', 'pk')]
    index = {p.name: i for i, p in enumerate(sig.params)}
    bound = {}
    if npos > len(positional) and not sig.star:
        return ('TypeError', 'too many positional arguments')
    for i, p in enumerate(positional[:npos]):
        bound[p.name] = POS + i
    kwargs = set()
    for n in kwnames:
        p = next((q for q in sig.params if q.name == n and q.kind != 'po'), None)
        if p is None:
            if not sig.starstar:
                return ('TypeError', 'unexpected keyword ' + n)
            kwargs.add(n)
        elif p.name in bound:
            return ('TypeError', 'multiple values for ' + n)
        else:
            bound[p.name] = KWV + index[n]
    for p in sig.params:
        if p.name not in bound:
            if not p.default:
                return ('TypeError', 'missing ' + p.name)
            bound[p.name] = DEF + index[p.name]
    return ('ok', bound, SLICE + len(positional) if sig.star else None, frozenset(kwargs) if sig.starstar else None)


def _show_token(sig, t):
    if t is None:
        return 'nothing (left unassigned)'
    if isinstance(t, int):
        if t == 0:
            return 'NULL'
        if POS <= t < KWV:
            return 'positional argument #%d' % (t - POS)
        if KWV <= t < DEF:
            return 'the keyword argument %s=' % sig.params[t - KWV].name
        if DEF <= t < DEF + 100:
            return 'the default of %s' % sig.params[t - DEF].name
        if t >= SLICE:
            return 'args[%d:]' % (t - SLICE)
    return repr(t)


def _show_call(sig, npos, kwnames):
    return 'f(%s)' % ', '.join(['p%d' % i for i in range(npos)] + ['%s=..' % n for n in kwnames])


def compare(sig, npos, kwnames, got, want):
    """-> None | (kind, message)"""
    call = _show_call(sig, npos, kwnames)
    if want[0] == 'TypeError':
        if got[0] == 'TypeError':
            return None
        return ('accepts', '%s is accepted, CPython raises TypeError (%s)' % (call, want[1]))
    if got[0] == 'TypeError':
        return ('rejects', '%s raises TypeError (%s), CPython binds it' % (call, got[-1] if len(got) > 2 else got[1]))
    for p in sig.params:
        g, w = got[1].get(p.name), want[1][p.name]
        if g != w:
            kind = {'po': 'positional', 'pk': 'positional', 'ko': 'kwonly'}[p.kind]
            return ('binds-' + kind, '%s: parameter %s receives %s, CPython gives it %s' % (call, p.name, _show_token(sig, g), _show_token(sig, w)))
    if got[2] != want[2]:
        return ('star', '%s: *args receives %s, CPython gives it %s' % (call, _show_token(sig, got[2]), _show_token(sig, want[2])))
    if got[3] != want[3]:
        return ('starstar', '%s: **kw receives %s, CPython gives it %s' % (call, sorted(got[3]) if got[3] is not None else None, sorted(want[3]) if want[3] is not None else None))
    return None


def scenarios(sig):
    positional = [p for p in sig.params if p.kind != 'ko']
    names = [p.name for p in sig.params] + ['zz']
    for npos in range(len(positional) + 2):
        for r in range(len(names) + 1):
            for kws in itertools.combinations(names, r):
                yield npos, kws


def check_text(sig, text):
    """-> [(kind, message)] deviations of the emitted unpacking code of one signature from the reference, over all call shapes"""
    try:
        stmts = pC17.parse_body(text)
    except AnalysisError as x:
        raise Unmodelled('emitted C of %s does not parse: %s' % (sig.show(), x))
    out = {}
    for npos, kws in scenarios(sig):
        want = reference(sig, npos, kws)
        m = Machine(stmts, sig, npos, kws)
        try:
            got = m.run()
            d = compare(sig, npos, kws, got, want)
        except Defect as x:
            d = ('memory', '%s: the emitted code %s' % (_show_call(sig, npos, kws), x))
        if d is not None and d[0] not in out:
            out[d[0]] = d[1]
    return sorted(out.items())


def _tamper(text):
    """positive control: exchange the first two entries of the emitted keyword-name table"""
    m = re.search(r'\{(&PYNAME_\w+),(&PYNAME_\w+),', text)
    if not m:
        return None
    return text[:m.start()] + '{%s,%s,' % (m.group(2), m.group(1)) + text[m.end():]


def rule_argbind(ctx, floor=480):
    r = Rule('C01-ARGBIND', 'DefNodeWrapper: the argument-unpacking code emitted for every signature of a finite family (positional-only / positional / keyword-only '
                            'parameters with and without defaults in every order, *args, **kw, self) binds EVERY call shape (number of positional arguments x subset of keyword '
                            'names) like the language reference: same parameter <- same value, same *args / **kw content, TypeError for the same calls, no out-of-bounds slot', floor=floor)
    ix = ctx.index
    c = ix.cls('Nodes', WRAPPER)
    found = ix.find_method(c, ENTRY) if c is not None else None
    if not found:
        raise AnalysisError('C01-ARGBIND: %s.%s not found' % (WRAPPER, ENTRY))
    line = found[1].lineno
    problems = {}       # kind -> [count, first message, first signature]
    control = None
    ncalls = 0
    for sig in signatures():
        try:
            texts = emit_signature(ix, sig, found)
        except TBGiveUp as x:
            raise AnalysisError('C01-ARGBIND: the generator left the modelled subset for %s: %s' % (sig.show(), x))
        for text in texts:
            try:
                devs = check_text(sig, text)
                if control is None and sig.key() == 'pk,ko,ko=':
                    t2 = _tamper(text)
                    control = bool(t2 and check_text(sig, t2))
            except Unmodelled as x:
                raise AnalysisError('C01-ARGBIND: emitted code of %s outside the machine model: %s' % (sig.show(), x))
            r.inst(sig.key(), sample='%s: all call shapes bound like CPython' % sig.show())
            for kind, msg in devs:
                p = problems.setdefault(kind, [0, msg, sig.show()])
                p[0] += 1
    r.positive_control(bool(control), 'exchanging two entries of the emitted keyword-name table of def f(a, *, b, c=d) changes the binding of f(b=.., c=..)')
    what = {'binds-kwonly': 'a keyword-only parameter receives the wrong value (slot order of values[] and the keyword-name table / defaults disagree)',
            'binds-positional': 'a positional parameter receives the wrong value',
            'accepts': 'a call CPython rejects with TypeError is accepted', 'rejects': 'a call CPython binds is rejected with TypeError',
            'star': '*args receives the wrong slice', 'starstar': '**kw receives the wrong names', 'memory': 'the emitted index arithmetic leaves its arrays'}
    for kind, (n, msg, shape) in sorted(problems.items()):
        r.violate('%s.%s:%s' % (WRAPPER, ENTRY, kind), NODES, line,
                  'argument unpacking emitted by %s.%s: %s - e.g. %s, %s (%d signature(s) of the family affected)' % (WRAPPER, ENTRY, what.get(kind, kind), shape, msg, n))
    return r


# =============================================================================================== C01-INTEQ
def rule_inteq(ctx, floor=7):
    """seed C01j: `x == 5` answered True for x = -5 (the sign test for a positive constant was dropped from Optimize.c::PyLongCompare).

    `obj == <int literal>` / `!=` / `obj in (1, 4, 9)` of pure Python code is answered by the PyLongCompare helpers.  The decision procedure is the one of
    C19-LONGCMP (s4C19.longcmp_problems: the expanded helper is interpreted by the checker's C evaluator for every class of the object operand relative to
    the constant - equal, other sign, neighbouring values, differing in one digit, other digit count, zero, huge, float equal / unequal / nan, foreign
    object, the constant object itself - for PyLong_SHIFT 15/30 x 32/64-bit long x every #if variant).  C19 runs it for the C-truth-value helpers
    (__Pyx_PyLong_Bool*); C01 needs the comparison wherever pure Python code can put it, so this rule runs it for BOTH return conventions: the int helpers
    and the object-returning helpers (`r = (x == 5)`), whose template branches (return_true / return_false / return_compare) are different text."""
    from . import s4C19
    r = Rule('C01-INTEQ', 'Optimize.c::PyLongCompare (`obj ==/!= <int literal>`, membership in a literal display): every helper variant (Eq/Ne x operand order x int / object result) '
                          'interpreted for every class of the object operand relative to the constant, PyLong_SHIFT 15/30 x 32/64-bit long, answers as Python does', floor=floor)
    sec = ctx.cat.section('Optimize.c', 'PyLongCompare', 'impl')
    if sec is None:
        raise AnalysisError('C01-INTEQ: Optimize.c::PyLongCompare not found')
    variants = [('int result', sec.raw, True)]
    obj_raw = re.sub(r'\bret_type\s*\.\s*is_pyobject\b', 'True', sec.raw)
    if obj_raw == sec.raw:
        raise AnalysisError('C01-INTEQ: the PyLongCompare template no longer selects its return convention by ret_type.is_pyobject')
    # Py_RETURN_TRUE / Py_RETURN_FALSE (CPython macros): return the True / False object - modelled as the truth value
    obj_raw = obj_raw.replace('Py_RETURN_TRUE', 'return 1').replace('Py_RETURN_FALSE', 'return 0')
    variants.append(('object result', obj_raw, False))
    seen = set()
    for what, raw, is_bool in variants:
        inst, prob = s4C19.longcmp_problems(raw)
        for key, n in inst:
            if ('Bool' in key.rsplit(':', 1)[-1]) != is_bool:
                raise AnalysisError('C01-INTEQ: expansion for the %s gave %s' % (what, key))
            r.inst(key, sample='%s: %d operand classes' % (key, n))
        for key, text in prob:
            if key not in seen:
                seen.add(key)
                more = sum(1 for k, _ in prob if k == key) - 1
                r.violate(key, 'Cython/Utility/Optimize.c', sec.line, text + (' (+%d more operand classes)' % more if more > 0 else ''))
    _, cp = s4C19.longcmp_problems(s4C19.LONGCMP_CONTROL, orders=('ObjC',), ops=('Eq',))
    r.positive_control(bool(cp), 'negative constant answered "unequal" for every negative object')
    return r
