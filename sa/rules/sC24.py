"""Two rules for C24 (argument binding) that decide clauses of the keyword matching which the interface rules of pC24 leave open.

C24-KW2 — unknown keywords are accepted exactly by signatures with `**kwargs`, whether or not the dict is ever read.
    DefNodeWrapper keeps the `**kwargs` C variable NULL when the parameter is never read (entry.cf_used false) and tells
    __Pyx_ParseKeywords separately (last argument) that unknown keywords must be ignored.  The state of a wrapper with respect to
    `**` is one of three: {absent, present-but-unused, present-and-used} — a complete partition.  The rule evaluates, with a small
    symbolic evaluator over the generator's AST (never running it), for each element of the partition:
      * the two arguments of the emitted `__Pyx_ParseKeywords(...)` that decide the fate of an unknown keyword (the dict argument and
        the int flag; their positions are taken from the C definitions: the parameter forwarded to the one that PyDict_SetItem/
        PyDict_Update writes, and the only `int` parameter);
      * whether the code creating the dict (`<**var> = PyDict_New()`) is emitted by a method that runs on a common path with the
        method emitting the call (call graph of the class + pyflow; creation sites of exclusive alternatives do not count);
      * whether an emission of `__Pyx_RejectKeywords(` is reachable (path-sensitive, engine/pyflow with the partition as refinement).
    and demands:  absent -> dict argument NULL and flag 0;  present -> (dict passed and created) or flag 1;  used -> dict passed and
    created;  no RejectKeywords emission reachable when `**` is present.

C24-EXACT — a caller-supplied keyword name reaches a representation-level string comparison only as an exact `str`.
    CPython matches keyword names that are not pointer-identical with `==` (PyObject_RichCompare), so a `str` subclass with its
    own __eq__/__hash__ matches by its own rules.  Comparing the character data directly (memcmp of PyUnicode_DATA, the cached
    ->hash of PyASCIIObject, PyUnicode_Compare) is only equivalent for exact `str`.  This is a taint analysis over the C functions of
    FunctionArguments.c: sources = objects taken out of a caller-supplied container (PyTuple_GET_ITEM / PyDict_Next / ... results),
    sinks = parameters on which a function applies a representation-level operation (directly or by passing them on unguarded),
    sanitizer = a dominating condition that is true only for exact str, decided by a truth table over the complete partition
    {exact str, str subclass, not a str} of the object (PyUnicode_CheckExact: T,F,F; PyUnicode_Check: T,T,F).
"""
import ast, re

from ..core import Rule, AnalysisError
from ..engine import pyflow, cexpr
from ..engine.pyindex import walk_no_nested
from ..engine.cutil import strip_c_comments, split_args, match_paren
from . import iface
from .pC17 import parse_body, as_list, terminates
from .sC22 import blank_strings, pp_variants

PH = iface.PLACEHOLDER


# ======================================================================================= symbolic evaluation of generator expressions
class Sym:
    def __init__(self, tag):
        self.tag = tag

    def __repr__(self):
        return '<%s>' % self.tag


UNK = Sym('unknown')
KWVAR = 'KWVAR'          # stands for self.starstar_arg.entry.cname
POINTS = ('absent', 'unused', 'used')


def truth(v):
    if v is UNK:
        return None
    if isinstance(v, Sym):
        return True
    return bool(v)


class PyEval:
    """Values of expressions of one generator method for one element of the `**` partition.  Unknown things are UNK (Kleene logic)."""

    def __init__(self, fn, point):
        self.fn, self.point = fn, point
        self.defs = {}
        counts = {}
        for n in walk_no_nested(fn):
            for t in (n.targets if isinstance(n, ast.Assign) else [n.target] if isinstance(n, (ast.AugAssign, ast.AnnAssign, ast.For, ast.NamedExpr)) else []):
                for x in ast.walk(t):
                    if isinstance(x, ast.Name):
                        counts[x.id] = counts.get(x.id, 0) + 1
                        if isinstance(n, ast.Assign) and len(n.targets) == 1 and t is x:
                            self.defs[x.id] = n.value
        self.defs = {k: v for k, v in self.defs.items() if counts.get(k) == 1}
        self.busy = set()

    def attr(self, base, name):
        if isinstance(base, Sym):
            if base.tag == 'self' and name == 'starstar_arg':
                return None if self.point == 'absent' else Sym('starstar')
            if base.tag == 'starstar' and name == 'entry':
                return Sym('entry')
            if base.tag == 'entry' and name == 'cf_used':
                return self.point == 'used'
            if base.tag == 'entry' and name == 'cname':
                return KWVAR
        if base is None:
            raise AnalysisError('generator evaluates .%s on a `**` argument that is None (state %s)' % (name, self.point))
        return UNK

    def ev(self, e):
        if isinstance(e, ast.Constant):
            return e.value
        if isinstance(e, ast.Name):
            if e.id == 'self':
                return Sym('self')
            if e.id in self.defs and e.id not in self.busy:
                self.busy.add(e.id)
                try:
                    return self.ev(self.defs[e.id])
                finally:
                    self.busy.discard(e.id)
            return UNK
        if isinstance(e, ast.Attribute):
            return self.attr(self.ev(e.value), e.attr)
        if isinstance(e, ast.UnaryOp) and isinstance(e.op, ast.Not):
            t = truth(self.ev(e.operand))
            return UNK if t is None else (not t)
        if isinstance(e, ast.BoolOp):
            is_and = isinstance(e.op, ast.And)
            unknown = False
            last = None
            for v in e.values:
                try:
                    last = self.ev(v)
                except AnalysisError:
                    if unknown:
                        return UNK
                    raise
                t = truth(last)
                if t is None:
                    unknown = True
                elif t != is_and:
                    # a definitely falsy operand of `and` / truthy operand of `or` decides the truth of the whole expression
                    return last if not unknown else (not is_and)
            return UNK if unknown else last
        if isinstance(e, ast.IfExp):
            t = truth(self.ev(e.test))
            if t is None:
                a, b = self.ev(e.body), self.ev(e.orelse)
                return a if (a is b or (not isinstance(a, Sym) and not isinstance(b, Sym) and a == b and type(a) is type(b))) else UNK
            return self.ev(e.body if t else e.orelse)
        if isinstance(e, ast.Compare) and len(e.ops) == 1:
            a, b = self.ev(e.left), self.ev(e.comparators[0])
            op = e.ops[0]
            if isinstance(op, (ast.Is, ast.IsNot)):
                if a is UNK or b is UNK:
                    return UNK
                same = (a is b) or (a is None and b is None) or (isinstance(a, bool) and isinstance(b, bool) and a == b)
                if isinstance(a, Sym) and isinstance(b, Sym):
                    same = a.tag == b.tag
                return same if isinstance(op, ast.Is) else (not same)
            if isinstance(op, (ast.Eq, ast.NotEq)):
                if isinstance(a, Sym) or isinstance(b, Sym):
                    return UNK
                return (a == b) if isinstance(op, ast.Eq) else (a != b)
            return UNK
        if isinstance(e, ast.Call) and isinstance(e.func, ast.Name) and e.func.id in ('bool', 'int') and len(e.args) == 1 and not e.keywords:
            t = truth(self.ev(e.args[0]))
            if t is None:
                return UNK
            return t if e.func.id == 'bool' else int(t)
        if isinstance(e, ast.FormattedValue):
            return self.ev(e.value)
        return UNK


def flow_reach(fn, point, targets):
    """ids of the nodes in `targets` (id -> anything) that are reachable in fn when the `**` state is `point`"""
    pe = PyEval(fn, point)
    hit = set()

    def refine(test, t, s):
        v = truth(pe.ev(test))
        if v is not None and v != t:
            return None
        return s

    def tr(n, state):
        if isinstance(n, (ast.FunctionDef, ast.AsyncFunctionDef, ast.ClassDef)):
            return state
        for x in ast.walk(n):
            if id(x) in targets:
                hit.add(id(x))
        return state
    try:
        pyflow.Flow(tr, refine=refine).run(fn)
    except pyflow.TooManyStates:
        raise AnalysisError('%s: too many path states' % fn.name)
    return hit


def templates(fn):
    """(outermost string-template node, text with placeholders, [placeholder nodes]) of the emitted text in fn"""
    inner = set()
    for n in ast.walk(fn):
        if id(n) in inner or not isinstance(n, (ast.JoinedStr, ast.BinOp, ast.Constant)):
            continue
        if isinstance(n, ast.Constant) and not isinstance(n.value, str):
            continue
        t = iface.str_template(n)
        if t is None:
            continue
        for sub in ast.walk(n):
            if sub is not n:
                inner.add(id(sub))
        yield n, t[0], t[1]


def c_positions(ctx, helper='__Pyx_ParseKeywords'):
    """(index of the dict parameter, index of the int flag parameter) of the helper, from the C definitions"""
    decls = [d for d in ctx.cat.decls.get(helper, []) if d.kind == 'func' and d.body]
    if not decls:
        raise AnalysisError('%s has no C definition' % helper)
    d = decls[0]
    names = d.param_names()
    ints = [i for i, p in enumerate(d.params) if re.fullmatch(r'(?:const\s+)?int\s+\w+', ' '.join(p.split()))]
    if len(ints) != 1:
        raise AnalysisError('%s: expected exactly one int parameter (the ignore-unknown flag), found %d' % (helper, len(ints)))
    dict_idx = set()
    for m in re.finditer(r'\b(__Pyx_\w+)\s*\(', d.body):
        callee = [c for c in ctx.cat.decls.get(m.group(1), []) if c.kind == 'func' and c.body]
        if not callee:
            continue
        q = match_paren(d.body, m.end() - 1)
        args = [a.strip() for a in split_args(d.body[m.end():q])]
        cn = callee[0].param_names()
        for w in re.finditer(r'\bPyDict_(?:SetItem|Update)\s*\(\s*(\w+)\s*,', callee[0].body):
            if w.group(1) in cn and cn.index(w.group(1)) < len(args) and args[cn.index(w.group(1))] in names:
                dict_idx.add(names.index(args[cn.index(w.group(1))]))
    if len(dict_idx) != 1:
        raise AnalysisError('%s: cannot identify the parameter that receives unknown keywords (candidates %s)' % (helper, sorted(dict_idx)))
    return dict_idx.pop(), ints[0], len(names)


def _callgraph(methods):
    g = {}
    for m, fn in methods.items():
        g[m] = {c.func.attr for c in ast.walk(fn) if isinstance(c, ast.Call) and isinstance(c.func, ast.Attribute)
                and isinstance(c.func.value, ast.Name) and c.func.value.id == 'self' and c.func.attr in methods}
    return g


def _reachers(g, target):
    out, work = {target}, [target]
    while work:
        t = work.pop()
        for m, cs in g.items():
            if t in cs and m not in out:
                out.add(m)
                work.append(m)
    return out


def same_path(methods, a, b):
    """is there a method with a path on which both method a and method b are executed (directly or through calls of other methods)?
    A call of a method that leads to both only counts when the two are on a common path inside it."""
    if a == b:
        return True
    g = _callgraph(methods)
    ra, rb = _reachers(g, a), _reachers(g, b)
    memo = {}

    def co(m):
        if m in memo:
            return memo[m]
        memo[m] = False
        fn = methods[m]

        def tr(n, state):
            if isinstance(n, (ast.FunctionDef, ast.AsyncFunctionDef, ast.ClassDef)):
                return state
            s = set(state)
            for c in ast.walk(n):
                if isinstance(c, ast.Call) and isinstance(c.func, ast.Attribute) and isinstance(c.func.value, ast.Name) and c.func.value.id == 'self' \
                        and c.func.attr in methods and c.func.attr != m:
                    k = c.func.attr
                    if k in ra and k in rb:
                        if co(k):
                            s |= {'A', 'B'}
                    elif k in ra:
                        s.add('A')
                    elif k in rb:
                        s.add('B')
            return frozenset(s)
        init = frozenset(({'A'} if m == a else set()) | ({'B'} if m == b else set()))
        try:
            o = pyflow.Flow(tr).run(fn, init)
        except pyflow.TooManyStates:
            memo[m] = True
            return True
        memo[m] = any('A' in st and 'B' in st for st in (o.normal | o.returns))
        return memo[m]
    return any(co(m) for m in methods if m in ra and m in rb)


def kw2_facts(cls_methods, positions, clsname='Nodes.DefNodeWrapper'):
    """Decision facts per partition element -> (facts, sites) ; facts[point] = dict(dict_arg, flag, created, rejects=[(method, line)])"""
    di, fi, nparams = positions
    parse_sites, create_sites, reject_sites = [], [], []
    for mname, fn in sorted(cls_methods.items()):
        for node, text, ph in templates(fn):
            if '__Pyx_ParseKeywords(' in text:
                lp = text.index('__Pyx_ParseKeywords(') + len('__Pyx_ParseKeywords(') - 1
                rp = match_paren(text, lp)
                if rp < 0:
                    raise AnalysisError('%s.%s: incomplete __Pyx_ParseKeywords( emission' % (clsname, mname))
                args = split_args(text[lp + 1:rp])
                if len(args) != nparams:
                    raise AnalysisError('%s.%s emits __Pyx_ParseKeywords with %d arguments' % (clsname, mname, len(args)))
                k = text[:lp].count(PH)
                per = []
                for a in args:
                    c = a.count(PH)
                    per.append((a.strip(), ph[k:k + c]))
                    k += c
                parse_sites.append((mname, fn, node, per))
            for m in re.finditer(r'(%s|\w+)\s*=\s*PyDict_New\s*\(\s*\)' % PH, text):
                if m.group(1) == PH:
                    create_sites.append((mname, fn, node, ph[text[:m.start(1)].count(PH)]))
            if re.search(r'\b__Pyx_RejectKeywords\s*\(', text):
                reject_sites.append((mname, fn, node))
    if not parse_sites:
        raise AnalysisError('%s no longer emits __Pyx_ParseKeywords(' % clsname)
    if not create_sites:
        raise AnalysisError('%s: no `<var> = PyDict_New()` emission found' % clsname)
    if not reject_sites:
        raise AnalysisError('%s no longer emits __Pyx_RejectKeywords(' % clsname)

    def arg_value(pe, item):
        text, nodes = item
        if not nodes:
            return text
        if text != PH:
            return UNK
        return pe.ev(nodes[0])

    facts = {}
    for point in POINTS:
        f = facts[point] = {'parse': [], 'created': False, 'rejects': []}
        parse_methods = {m for m, _, _, _ in parse_sites}
        for mname, fn, node, per in parse_sites:
            if id(node) not in flow_reach(fn, point, {id(node): 1}):
                continue
            pe = PyEval(fn, point)
            dv, fv = arg_value(pe, per[di]), arg_value(pe, per[fi])
            if isinstance(fv, str) and fv.strip().isdigit():
                fv = int(fv)
            f['parse'].append((mname, node.lineno, dv, fv))
        for mname, fn, node, target in create_sites:
            pe = PyEval(fn, point)
            try:
                tv = pe.ev(target)
            except AnalysisError:
                continue            # evaluates .entry of an absent ** argument: not reachable for this point by construction
            if tv == KWVAR and id(node) in flow_reach(fn, point, {id(node): 1}) and any(same_path(cls_methods, mname, pm) for pm in parse_methods):
                f['created'] = True
        for mname, fn, node in reject_sites:
            if id(node) in flow_reach(fn, point, {id(node): 1}):
                f['rejects'].append((mname, node.lineno))
    return facts, (parse_sites, create_sites, reject_sites)


def kw2_problems(facts, clsname='Nodes.DefNodeWrapper'):
    probs = []

    def is_null(v):
        return isinstance(v, str) and v.strip() in ('0', 'NULL')
    for point in POINTS:
        f = facts[point]
        for mname, line, dv, fv in f['parse']:
            key = '%s.%s:__Pyx_ParseKeywords:%s' % (clsname, mname, point)
            if dv is UNK or fv is UNK or isinstance(fv, Sym) or not (is_null(dv) or dv == KWVAR):
                raise AnalysisError('%s: cannot evaluate the dict/flag arguments for `**` %s (%r, %r)' % (key, point, dv, fv))
            flag = bool(fv)
            passed = dv == KWVAR
            if point == 'absent':
                if passed or flag:
                    probs.append((key, line, 'a signature without `**kwargs` calls __Pyx_ParseKeywords with %s: unknown keywords are silently accepted where CPython raises TypeError' % (
                        'ignore_unknown_kwargs=1' if flag else 'a dict argument')))
                continue
            stored = passed and f['created']
            if not (stored or flag):
                probs.append((key, line, 'a signature with a `**kwargs` parameter that is %s passes dict=%s (dict created: %s) and ignore_unknown_kwargs=%d to __Pyx_ParseKeywords: '
                              'every unknown keyword raises "got an unexpected keyword argument" although `**` accepts it in CPython' % (
                                  'never read (C variable stays NULL)' if point == 'unused' else 'read', 'the ** variable' if passed else 'NULL', f['created'], flag)))
            elif point == 'used' and not stored:
                probs.append((key, line, 'the `**kwargs` dict is read by the function body but %s: unknown keywords are dropped / the variable is NULL' % (
                    'is not passed to __Pyx_ParseKeywords' if not passed else 'is never created (no `= PyDict_New()` emission for this state)')))
        if point != 'absent':
            for mname, line in f['rejects']:
                probs.append(('%s.%s:__Pyx_RejectKeywords:%s' % (clsname, mname, point), line,
                              '__Pyx_RejectKeywords(...) is emitted for a signature with `**kwargs` (%s): every keyword argument raises TypeError' % point))
    return probs


KW2_CONTROL = '''
class W:
    def init(self, code):
        if self.starstar_arg and self.starstar_arg.entry.cf_used:
            code.putln('%s = PyDict_New();' % self.starstar_arg.entry.cname)
    def other(self, code):
        if not self.starstar_arg:
            code.putln("__Pyx_RejectKeywords(%s, %s);" % (name, kwds))
    def parse(self, code):
        self.init(code)
        self.unpack(code)
    def unpack(self, code):
        has_dict = self.starstar_arg is not None and self.starstar_arg.entry.cf_used
        code.putln(f"__Pyx_ParseKeywords(a, b, c, {self.starstar_arg.entry.cname if has_dict else '0'}, v, n, k, f, {has_dict:d})")
'''


def rule_kw2(ctx, floor=8):
    r = Rule('C24-KW2', 'over the complete partition {no **, ** never read, ** read} of a wrapper: the dict and ignore-unknown arguments of the emitted __Pyx_ParseKeywords call, '
             'together with the emission that creates the dict, accept unknown keywords exactly when the signature has `**kwargs`; no __Pyx_RejectKeywords emission '
             'is reachable with `**kwargs`', floor)
    ix = ctx.index
    c = ix.cls('Nodes', 'DefNodeWrapper')
    if c is None:
        raise AnalysisError('Nodes.DefNodeWrapper vanished')
    pos = c_positions(ctx)
    facts, sites = kw2_facts(dict(c.methods), pos)
    for point in POINTS:
        f = facts[point]
        if not f['parse']:
            raise AnalysisError('no __Pyx_ParseKeywords emission reachable for `**` %s' % point)
        for mname, line, dv, fv in f['parse']:
            k = 'Nodes.DefNodeWrapper.%s:__Pyx_ParseKeywords:%s' % (mname, point)
            r.inst(k, sample='%s: dict=%r flag=%r dict created=%s' % (k, dv, fv, f['created']))
        for mname, fn, node in sites[2]:
            k = 'Nodes.DefNodeWrapper.%s:__Pyx_RejectKeywords:%s' % (mname, point)
            r.inst(k, sample='%s: reachable=%s' % (k, (mname, node.lineno) in f['rejects']))
    if not facts['absent']['rejects']:
        raise AnalysisError('no __Pyx_RejectKeywords emission is reachable without `**kwargs`: the reachability model is broken')
    for key, line, msg in kw2_problems(facts):
        r.violate(key, c.module.rel, line, msg)
    tree = ast.parse(KW2_CONTROL)
    cm = {n.name: n for n in tree.body[0].body if isinstance(n, ast.FunctionDef)}
    cf, _ = kw2_facts(cm, (3, 8, 9), 'W')
    ctl = kw2_problems(cf, 'W')
    r.positive_control([k for k, _, _ in ctl] == ['W.unpack:__Pyx_ParseKeywords:unused'], 'ignore_unknown_kwargs tied to cf_used')
    return r


# ======================================================================================= C24-EXACT (taint: keyword name -> raw string comparison)
DOMAIN = ('exact', 'subclass', 'nonstr')
TYPE_ATOMS = {'PyUnicode_CheckExact': (True, False, False), 'PyUnicode_Check': (True, True, False),
              '__Pyx_PyUnicode_CheckExact': (True, False, False)}
RAW_CASTS = re.compile(r'\(\s*(?:struct\s+)?Py(?:ASCII|CompactUnicode|Unicode)Object\s*\*\s*\)\s*\(?\s*([A-Za-z_]\w*)\b')
RAW_CALLS = ('PyUnicode_DATA', 'PyUnicode_1BYTE_DATA', 'PyUnicode_2BYTE_DATA', 'PyUnicode_4BYTE_DATA', '__Pyx_PyUnicode_DATA', 'PyUnicode_READ_CHAR',
             '__Pyx_PyUnicode_READ_CHAR', 'PyUnicode_Compare', 'PyUnicode_CompareWithASCIIString', '_PyUnicode_EQ', '_PyUnicode_Equal', 'PyUnicode_EqualToUTF8',
             'PyUnicode_EqualToUTF8AndSize', 'PyUnicode_AsUTF8', 'PyUnicode_AsUTF8AndSize', '_PyUnicode_EqualToASCIIString', 'PyUnicode_Tailmatch', 'PyUnicode_AS_UNICODE')
C_FUNC_HEAD = re.compile(r'^(?:static|CYTHON_INLINE|CYTHON_UNUSED|[A-Za-z_][\w \t\*]*?)[ \t\*]+([A-Za-z_]\w*)\s*\(([^;{}()]*(?:\([^()]*\)[^;{}()]*)*)\)\s*\{', re.M)
CKEYWORDS = {'if', 'while', 'for', 'switch', 'return', 'sizeof', 'do', 'else'}


class CFn:
    def __init__(self, name, params, body, line):
        self.name, self.params, self.body, self.line = name, params, body, line


def c_functions(text):
    """{name: CFn} of the function definitions in a C file (comments already blanked)"""
    from ..engine.cguard import _match_brace
    out = {}
    pos = 0
    while True:
        m = C_FUNC_HEAD.search(text, pos)
        if not m:
            break
        name = m.group(1)
        b0 = m.end() - 1
        b1 = _match_brace(text, b0)
        if name in CKEYWORDS:
            pos = m.end()
            continue
        params = []
        for p in split_args(' '.join(m.group(2).split())):
            mm = re.search(r'([A-Za-z_]\w*)\s*(?:\[[^\]]*\])?\s*$', p)
            params.append(mm.group(1) if mm else None)
        out.setdefault(name, []).append(CFn(name, params, text[b0:b1 + 1], text.count('\n', 0, m.start()) + 1))
        pos = b1 + 1
    return out


def _expr_part(text):
    """the expression of a simple statement: right-hand side of a top-level assignment/initialiser, or the operand of return"""
    t = re.sub(r'^return\b', '', text.strip()).strip()
    depth = 0
    for i, ch in enumerate(t):
        if ch in '([{':
            depth += 1
        elif ch in ')]}':
            depth -= 1
        elif ch == '=' and depth == 0 and t[i + 1:i + 2] != '=' and (i == 0 or t[i - 1] not in '=!<>+-*/|&^%'):
            return t[i + 1:].strip()
    return t


def _assigned_vars(text):
    out = set(re.findall(r'(?<![\w>.])([A-Za-z_]\w*)\s*(?:\[[^\]]*\])?\s*(?:[-+*/|&^]|<<|>>)?=(?!=)', text))
    out |= set(re.findall(r'&\s*([A-Za-z_]\w*)\b', text))
    out |= set(re.findall(r'(?<![\w>.])([A-Za-z_]\w*)\s*(?:\+\+|--)', text)) | set(re.findall(r'(?:\+\+|--)\s*([A-Za-z_]\w*)', text))
    return out


def _cond_ast(text):
    # ((T*)x)->f  ->  x->f : cexpr has no postfix on parenthesised casts; the operand stays visible
    text = re.sub(r'\(\s*\(\s*(?:struct\s+)?[A-Za-z_]\w*\s*\*+\s*\)\s*([A-Za-z_]\w*)\s*\)\s*->', r'\1->', text)
    try:
        return cexpr.parse(blank_strings(text))
    except (cexpr.ParseError, ValueError):
        return None


def type_eval(e, var, d):
    """truth of a condition for the object `var` being in class d of DOMAIN; None = does not depend on it / unknown"""
    if e is None:
        return None
    k = e[0]
    if k == 'call' and e[1] in ('likely', 'unlikely', '__builtin_expect') and e[2]:
        return type_eval(e[2][0], var, d)
    if k == 'cast':
        return type_eval(e[2], var, d)
    if k == 'call' and e[1] in TYPE_ATOMS and len(e[2]) == 1 and e[2][0] == ('id', var):
        return TYPE_ATOMS[e[1]][DOMAIN.index(d)]
    if k == 'call' and e[1] == 'Py_IS_TYPE' and len(e[2]) == 2 and e[2][0] == ('id', var) and e[2][1] == ('un', '&', ('id', 'PyUnicode_Type')):
        return d == 'exact'
    if k == 'bin' and e[1] in ('==', '!=') and ('un', '&', ('id', 'PyUnicode_Type')) in (e[2], e[3]):
        other = e[3] if e[2] == ('un', '&', ('id', 'PyUnicode_Type')) else e[2]
        if other == ('call', 'Py_TYPE', [('id', var)]):
            return (d == 'exact') == (e[1] == '==')
        return None
    if k == 'un' and e[1] == '!':
        v = type_eval(e[2], var, d)
        return None if v is None else (not v)
    if k == 'bin' and e[1] in ('&&', '||'):
        a, b = type_eval(e[2], var, d), type_eval(e[3], var, d)
        if e[1] == '&&':
            if a is False or b is False:
                return False
            return True if (a and b) else None
        if a is True or b is True:
            return True
        return False if (a is False and b is False) else None
    return None


def reach(conds, var):
    """{d: may the program point be reached when `var` is in class d}"""
    out = {}
    for d in DOMAIN:
        ok = True
        for e, pol in conds:
            v = type_eval(e, var, d)
            if v is not None and v != pol:
                ok = False
                break
        out[d] = ok
    return out


class Site:
    def __init__(self, func, kind, what, var, conds, argpos=None, callee=None):
        self.func, self.kind, self.what, self.var, self.conds, self.argpos, self.callee = func, kind, what, var, conds, argpos, callee


def _mentions(e, name):
    return e is not None and any(x[0] == 'id' and (x[1] == name or x[1].startswith(name + '->')) for x in cexpr.walk(e))


def function_sites(fn, known):
    """raw string operations and calls of functions in `known` inside one C function (one #if variant at a time):
    [Site] with the path condition (list of (condition ast, polarity)) under which each is executed"""
    sites = []

    def expr_sites(text, conds, whole_is_cond=False):
        t = text if whole_is_cond else _expr_part(text)
        e = _cond_ast(t)
        found_calls = set(re.findall(r'\b([A-Za-z_]\w*)\s*\(', t))
        interesting = (found_calls & (set(known) | set(RAW_CALLS))) or RAW_CASTS.search(text)
        if not interesting:
            return
        if e is None:
            if re.search(r'\?|&&|\|\|', t) and ((found_calls & set(known)) or any(re.search(r'\b%s\s*\([^;]*(\?|&&|\|\|)|(\?|&&|\|\|)[^;]*\b%s\s*\(' % (c, c), t) for c in found_calls & set(RAW_CALLS))):
                raise AnalysisError('%s: cannot parse `%s` although it contains a conditional operator and a tracked call' % (fn.name, ' '.join(t.split())[:90]))
            for m in RAW_CASTS.finditer(text):
                sites.append(Site(fn.name, 'raw', 'cast of %s to a unicode struct' % m.group(1), m.group(1), list(conds)))
            for m in re.finditer(r'\b([A-Za-z_]\w*)\s*\(', t):
                name = m.group(1)
                if name in RAW_CALLS or name in known:
                    q = match_paren(t, m.end() - 1)
                    args = [a.strip() for a in split_args(t[m.end():q])] if q > 0 else []
                    for i, a in enumerate(args):
                        if re.fullmatch(r'[A-Za-z_]\w*', a):
                            sites.append(Site(fn.name, 'raw' if name in RAW_CALLS else 'call', '%s(...)' % name, a, list(conds), i, name))
            return

        def rec(x, cs):
            k = x[0]
            if k == 'tern':
                rec(x[1], cs)
                rec(x[2], cs + [(x[1], True)])
                rec(x[3], cs + [(x[1], False)])
                return
            if k == 'bin' and x[1] in ('&&', '||'):
                rec(x[2], cs)
                rec(x[3], cs + [(x[2], x[1] == '&&')])
                return
            if k == 'call':
                if x[1] in RAW_CALLS or x[1] in known:
                    for i, a in enumerate(x[2]):
                        aa = a
                        while aa[0] == 'cast':
                            aa = aa[2]
                        if aa[0] == 'id' and re.fullmatch(r'[A-Za-z_]\w*', aa[1]):
                            sites.append(Site(fn.name, 'raw' if x[1] in RAW_CALLS else 'call', '%s(...)' % x[1], aa[1], list(cs), i, x[1]))
                for a in x[2]:
                    rec(a, cs)
                return
            for y in x[1:]:
                if isinstance(y, tuple):
                    rec(y, cs)
        rec(e, list(conds))
        for m in RAW_CASTS.finditer(text):
            sites.append(Site(fn.name, 'raw', 'cast of %s to a unicode struct' % m.group(1), m.group(1), list(conds)))

    def kill(conds, names):
        return [(e, p) for e, p in conds if not any(_mentions(e, n) for n in names)]

    def sub_assigned(st):
        out = set()
        from .pC17 import walk as st_walk
        for x in st_walk([st]):
            if x.kind == 'simple':
                out |= _assigned_vars(x.text)
            elif x.kind == 'for':
                out |= _assigned_vars(x.text)
        return out

    def walk(stmts, conds):
        conds = list(conds)
        for st in stmts:
            k = st.kind
            if k == 'simple':
                expr_sites(st.text, conds)
                conds = kill(conds, _assigned_vars(st.text))
            elif k == 'block':
                conds = walk(st.body, conds)
            elif k == 'if':
                expr_sites(st.text, conds, True)
                ce = _cond_ast(st.text)
                walk(as_list(st.body), conds + [(ce, True)])
                if st.orelse is not None:
                    walk(as_list(st.orelse), conds + [(ce, False)])
                body_t = terminates(as_list(st.body))
                else_t = st.orelse is not None and terminates(as_list(st.orelse))
                conds = kill(conds, sub_assigned(st))
                if ce is not None and not (sub_assigned(st) and any(_mentions(ce, n) for n in sub_assigned(st))):
                    if body_t and not else_t:
                        conds.append((ce, False))
                    elif else_t and not body_t:
                        conds.append((ce, True))
            elif k in ('while', 'for', 'do', 'switch'):
                conds = kill(conds, sub_assigned(st))
                inner = list(conds)
                if k == 'while':
                    expr_sites(st.text, conds, True)
                    ce = _cond_ast(st.text)
                    if ce is not None and not any(_mentions(ce, n) for n in sub_assigned(st)):
                        inner.append((ce, True))
                elif k == 'for':
                    for part in st.text.split(';'):
                        expr_sites(part, conds)
                elif k == 'do':
                    expr_sites(st.text, conds, True)
                walk(as_list(st.body), inner)
            elif k == 'label':
                conds = []
            elif k in ('case', 'default'):
                continue
            elif k == 'pp':
                raise AnalysisError('%s: preprocessor line left in the body' % fn.name)
        return conds

    for label, variant in pp_variants(fn.body):
        walk(parse_body(variant), [])
    return sites


def tainted_locals(fn):
    """locals of fn that receive an object out of a caller-supplied container: assigned from a call that gets a parameter of fn,
    or passed by address to such a call"""
    params = [p for p in fn.params if p]
    out = set()
    body = fn.body
    for m in re.finditer(r'(?<![\w>.])([A-Za-z_]\w*)\s*=(?!=)\s*(?:\([^()]*\)\s*)?([A-Za-z_]\w*)\s*\(', body):
        q = match_paren(body, m.end() - 1)
        args = body[m.end():q] if q > 0 else ''
        if any(re.search(r'\b%s\b' % re.escape(p), args) for p in params) and m.group(1) not in params:
            out.add(m.group(1))
    for m in re.finditer(r'\b([A-Za-z_]\w*)\s*\(', body):
        q = match_paren(body, m.end() - 1)
        args = body[m.end():q] if q > 0 else ''
        if any(re.search(r'\b%s\b' % re.escape(p), args) for p in params):
            for a in re.findall(r'&\s*([A-Za-z_]\w*)\b', args):
                if a not in params:
                    out.add(a)
    return out


def exact_analysis(text, fname='FunctionArguments.c'):
    """-> (instances [(key, sample)], violations [(key, line, message)])"""
    fns_all = c_functions(text)
    fns = {n: v[0] for n, v in fns_all.items()}
    sinks = {}          # function -> {param index: reason}
    cache = {}

    def sites_of(f):
        key = (f, tuple(sorted((g, tuple(sorted(ix))) for g, ix in sinks.items() if ix)))
        if key not in cache:
            known = {g for g, ix in sinks.items() if ix}
            out = []
            for variant_fn in fns_all[f]:
                out += function_sites(variant_fn, known)
            cache[key] = out
        return cache[key]

    def requirement_sites(f):
        for s in sites_of(f):
            if s.kind == 'call':
                if s.argpos not in sinks.get(s.callee, {}):
                    continue
            yield s

    changed = True
    rounds = 0
    while changed:
        changed = False
        rounds += 1
        if rounds > 20:
            raise AnalysisError('C24-EXACT: sink propagation does not converge')
        for f, fn in fns.items():
            for s in requirement_sites(f):
                rc = reach(s.conds, s.var)
                if (rc['subclass'] or rc['nonstr']) and s.var in fn.params:
                    i = fn.params.index(s.var)
                    if i not in sinks.setdefault(f, {}):
                        why = s.what if s.kind == 'raw' else '%s, whose parameter %d needs an exact str (%s)' % (s.what, s.argpos + 1, sinks[s.callee][s.argpos])
                        sinks[f][i] = why
                        changed = True
    insts, viols = [], []
    seen = set()
    for f, fn in sorted(fns.items()):
        taint = tainted_locals(fn)
        for s in requirement_sites(f):
            rc = reach(s.conds, s.var)
            key = '%s:%s:%s[%s]' % (fname, f, s.what.replace('(...)', ''), s.var)
            open_ = rc['subclass'] or rc['nonstr']
            if s.var in fn.params:
                status = 'propagated to the callers' if open_ else 'guarded: exact str only'
            elif not open_:
                status = 'guarded: exact str only'
            elif s.var in taint:
                status = 'VIOLATION'
            else:
                status = 'local not taken from a caller-supplied container (trusted)'
            if (key, status) in seen:
                continue
            seen.add((key, status))
            insts.append((key, '%s — %s' % (key, status)))
            if status == 'VIOLATION':
                chain = s.what if s.kind == 'raw' else '%s -> %s' % (s.what, sinks[s.callee][s.argpos])
                viols.append((key, fn.line, '`%s` in %s() is taken out of the caller\'s keyword container and reaches a representation-level string comparison (%s) also when it is %s: '
                              'keyword names that are str subclasses must be matched with their own __eq__/__hash__ (PyObject_RichCompare), as CPython does; only exact str may be '
                              'compared by hash and character data' % (s.var, f, chain, ' or '.join(d for d in ('a str subclass', 'not a str') if rc['subclass' if d == 'a str subclass' else 'nonstr']))))
    return insts, viols, sinks


EXACT_CONTROL = '''
static int eq_raw(PyObject *s1, PyObject *s2) {
    return memcmp(PyUnicode_DATA(s1), PyUnicode_DATA(s2), 4) == 0;
}
static int match_str(PyObject *key, PyObject ***names) {
    PyObject *n = **names;
    return eq_raw(n, key);
}
static int match_any(PyObject *key, PyObject ***names) {
    return PyObject_RichCompareBool(**names, key, Py_EQ);
}
static int match(PyObject *key, PyObject ***names) {
    return likely(PyUnicode_Check(key)) ? match_str(key, names) : match_any(key, names);
}
static int parse(PyObject *kwds, PyObject ***names) {
    PyObject *key = PyTuple_GET_ITEM(kwds, 0);
    return match(key, names);
}
'''


def rule_exact(ctx, floor=7):
    r = Rule('C24-EXACT', 'FunctionArguments.c: an object taken out of the caller\'s keyword container reaches a representation-level string comparison (PyUnicode_DATA/memcmp, '
             '->hash of the unicode struct, PyUnicode_Compare) only under a condition that holds for exact str alone (truth table over {exact str, str subclass, not a str})', floor)
    rel = 'Cython/Utility/FunctionArguments.c'
    text = strip_c_comments(ctx.read(rel))
    insts, viols, sinks = exact_analysis(text)
    for k, sample in insts:
        r.inst(k, sample=sample)
    if not viols and not any('guarded' in s for _, s in insts):
        raise AnalysisError('C24-EXACT: no guarded representation-level comparison found in FunctionArguments.c (the sink/guard model no longer matches the code)')
    for k, line, msg in viols:
        r.violate(k, rel, line, msg)
    _, ctl, _ = exact_analysis(strip_c_comments(EXACT_CONTROL), 'control')
    _, ctl2, _ = exact_analysis(strip_c_comments(EXACT_CONTROL.replace('PyUnicode_Check(key)', 'PyUnicode_CheckExact(key)')), 'control')
    r.positive_control([k for k, _, _ in ctl] == ['control:parse:match[key]'] and not ctl2, 'dispatch on PyUnicode_Check sends str subclasses to the memcmp matcher')
    return r


# ======================================================================================= C24-IDX (fourth round)
"""C24-IDX — the index space of values[] and of the keyword-name table.

The generated wrapper passes the NULL-terminated table `argnames` (one `PyObject **` per parameter that can be given by keyword) and the
array `values`, which is parallel to it: values[i] belongs to argnames[i].  `num_pos_args` of them were filled positionally, so
   * a keyword is looked up in [argnames + num_pos_args, NULL)        (scan loops `while (*cursor ...)`),
   * a duplicate of a positional argument in [argnames, argnames + num_pos_args)   (scan loops `while (cursor != end)`),
   * and the slot of a hit is `cursor - argnames` — stored into values[...] directly or returned through *index_found.
The rule evaluates every table pointer of the functions of FunctionArguments.c::ParseKeywords* as a linear form `argnames + k*num_pos_args`
(parameters of the helper functions are bound at their call sites, transitively, to the two parameters of the entry point __Pyx_ParseKeywords)
and demands: every pointer difference `cursor - X` has X == argnames + 0; every sentinel scan starts at argnames + num_pos_args; every bounded
scan runs from argnames + 0 to argnames + num_pos_args.  Seed C24c computed the index relative to first_kw_arg in one of four sibling sites."""
TABLE_PTR = re.compile(r'PyObject\s*\*\s*\*\s*const')


def _kw_functions(ctx):
    out = {}
    for n, ds in ctx.cat.decls.items():
        for d in ds:
            if d.file == 'FunctionArguments.c' and d.kind == 'func' and d.body and 'ParseKeywords' in str(d.section):
                out[n] = d
    return out


def _lin_add(a, b):
    if a is None or b is None:
        return None
    if a[0] and b[0]:
        return None
    off = dict(a[1])
    for k, v in b[1]:
        off[k] = off.get(k, 0) + v
    return (a[0] or b[0], tuple(sorted((k, v) for k, v in off.items() if v)))


def _show_form(f):
    if f is None:
        return 'an unknown pointer'
    s = 'argnames' if f[0] else ''
    for k, v in f[1]:
        s += (' + ' if s else '') + ('%s' % k if v == 1 else '%d*%s' % (v, k))
    return s or '0'


class KwForms:
    """linear forms of the table pointers / counters of the keyword parser, interprocedural over the call graph of the section"""

    def __init__(self, funcs):
        self.funcs = funcs
        self.body = {n: '\n'.join(l for l in strip_c_comments(d.body).split('\n') if not l.lstrip().startswith('#')) for n, d in funcs.items()}
        self.params = {n: [(p, _pname_c(p)) for p in d.params] for n, d in funcs.items()}
        called = set()
        self.calls = {}          # callee -> [(caller, [arg texts])]
        for n, b in self.body.items():
            for m in re.finditer(r'\b(__Pyx_\w+)\s*\(', b):
                c = m.group(1)
                if c in funcs and c != n:
                    rp = match_paren(b, m.end() - 1)
                    if rp < 0:
                        continue
                    self.calls.setdefault(c, []).append((n, [a.strip() for a in split_args(b[m.end():rp])]))
                    called.add(c)
        self.entries = [n for n in funcs if n not in called]
        self.memo = {}

    def local_defs(self, fn, name):
        """right-hand sides assigned to a local pointer (declaration initialiser or plain assignment)"""
        b = self.body[fn]
        return [m.group(1).strip() for m in re.finditer(r'(?<![\w>.])%s\s*=(?!=)\s*([^;]+);' % re.escape(name), b)]

    def form(self, fn, expr, depth=0):
        """linear form (has table base?, ((symbol, coefficient), ...)) of a pointer/integer expression inside fn, or None"""
        if depth > 8:
            return None
        e = expr.strip()
        while e.startswith('(') and match_paren(e, 0) == len(e) - 1:
            e = e[1:-1].strip()
        if re.fullmatch(r'\d+', e):
            return (False, ()) if int(e) == 0 else (False, (('1', int(e)),))
        m = re.fullmatch(r'(.+?)\s*\+\s*([A-Za-z_]\w*|\d+)', e, re.S)
        if m and '(' not in m.group(1).replace('(', '', 0)[:0]:
            return _lin_add(self.form(fn, m.group(1), depth + 1), self.form(fn, m.group(2), depth + 1))
        if not re.fullmatch(r'[A-Za-z_]\w*', e):
            return None
        key = (fn, e)
        if key in self.memo:
            return self.memo[key]
        self.memo[key] = None       # cycle guard
        res = None
        pnames = [n for _, n in self.params[fn]]
        if e in pnames:
            i = pnames.index(e)
            ptype = self.params[fn][i][0]
            if fn in self.entries:
                res = (True, ()) if TABLE_PTR.search(ptype) else (False, ((e, 1),))
            else:
                forms = set()
                for caller, args in self.calls.get(fn, []):
                    forms.add(self.form(caller, args[i], depth + 1) if i < len(args) else None)
                res = forms.pop() if len(forms) == 1 else None
        else:
            defs = self.local_defs(fn, e)
            forms = {self.form(fn, d, depth + 1) for d in defs}
            res = forms.pop() if len(forms) == 1 else None
        self.memo[key] = res
        return res


def _pname_c(p):
    m = re.search(r'([A-Za-z_]\w*)\s*(?:\[[^\]]*\])?\s*$', p)
    return m.group(1) if m else None


def idx_sites(kf):
    """-> [(function, kind, detail text, forms...)] for pointer differences and scan loops over table cursors"""
    sites = []
    for fn, b in sorted(kf.body.items()):
        ptr_locals = set(re.findall(r'PyObject\s*\*\s*\*\s*const\s*\*\s*([A-Za-z_]\w*)', b)) | {n for p, n in kf.params[fn] if TABLE_PTR.search(p)}
        cursors = {v for v in ptr_locals if re.search(r'(?<![\w>.])%s\s*\+\+|\+\+\s*%s\b' % (v, v), b)}
        for m in re.finditer(r'\b([A-Za-z_]\w*)\s*-\s*([A-Za-z_]\w*)\b', b):
            if m.group(1) in cursors and (m.group(2) in ptr_locals):
                sites.append((fn, 'diff', '%s - %s' % (m.group(1), m.group(2)), kf.form(fn, m.group(2))))
        # scans: the latest assignment of the cursor before each while loop whose condition mentions it
        events = []
        for c in cursors:
            for m in re.finditer(r'(?<![\w>.])%s\s*=(?!=)\s*([^;]+);' % re.escape(c), b):
                events.append((m.start(), 'set', c, m.group(1).strip()))
        for m in re.finditer(r'\bwhile\s*\(', b):
            rp = match_paren(b, m.end() - 1)
            events.append((m.start(), 'while', None, b[m.end():rp]))
        last = {}
        for pos, kind, c, text in sorted(events):
            if kind == 'set':
                last[c] = text
                continue
            for c in cursors:
                if not re.search(r'\b%s\b' % re.escape(c), text):
                    continue
                start = kf.form(fn, last[c]) if c in last else None
                mb = re.search(r'\b%s\s*!=\s*([A-Za-z_]\w*)|([A-Za-z_]\w*)\s*!=\s*%s\b' % (re.escape(c), re.escape(c)), text)
                if mb and (mb.group(1) or mb.group(2)) in ptr_locals:
                    end = mb.group(1) or mb.group(2)
                    sites.append((fn, 'bounded', 'while (%s != %s) from %s' % (c, end, last.get(c)), start, kf.form(fn, end)))
                elif re.search(r'\*\s*%s\b' % re.escape(c), text):
                    sites.append((fn, 'sentinel', 'while (*%s ...) from %s' % (c, last.get(c)), start))
    return sites


IDX_CONTROL = {
    '__Pyx_ParseKeywords': ('PyObject *kwds', 'PyObject ** const argnames[]', 'PyObject *values[]', 'Py_ssize_t num_pos_args'),
    '__Pyx_Match': ('PyObject *key', 'PyObject ** const argnames[]', 'PyObject ** const *first_kw_arg', 'size_t *index_found'),
}


def rule_idx(ctx, floor=11):
    r = Rule('C24-IDX', 'keyword parser of FunctionArguments.c: every table pointer is a linear form of the entry point\'s (argnames, num_pos_args); a hit\'s slot is `cursor - argnames` '
             '(values[] is parallel to argnames), keyword lookups scan from argnames + num_pos_args, duplicate-of-positional checks scan [argnames, argnames + num_pos_args)', floor)
    funcs = _kw_functions(ctx)
    if '__Pyx_ParseKeywords' not in funcs:
        raise AnalysisError('FunctionArguments.c::ParseKeywords: __Pyx_ParseKeywords vanished')
    kf = KwForms(funcs)
    if kf.entries != ['__Pyx_ParseKeywords']:
        raise AnalysisError('keyword parser: expected the single entry point __Pyx_ParseKeywords, found %s' % kf.entries)
    ints = [n for p, n in kf.params['__Pyx_ParseKeywords'] if re.search(r'Py_ssize_t\s+\w+$', p.strip())]
    # the counter that offsets the search: the integer parameter added to the table base somewhere
    offs = set()
    for fn, b in kf.body.items():
        for v in re.findall(r'PyObject\s*\*\s*\*\s*const\s*\*\s*([A-Za-z_]\w*)\s*=', b):
            f = kf.form(fn, v)
            if f and f[0] and len(f[1]) == 1 and f[1][0][1] == 1:
                offs.add(f[1][0][0])
    if len(offs) != 1:
        raise AnalysisError('keyword parser: cannot identify the "number of positionally passed arguments" offset (candidates: %s)' % sorted(offs))
    N = offs.pop()
    BASE, FIRST = (True, ()), (True, ((N, 1),))
    rel = 'Cython/Utility/FunctionArguments.c'
    seen = {}
    for site in idx_sites(kf):
        fn, kind, text = site[:3]
        key = 'FunctionArguments.c:%s:%s:%s' % (fn, kind, ' '.join(text.split()))
        d = funcs[fn]
        if key in seen:
            continue
        seen[key] = 1
        r.inst(key, sample='%s: %s' % (key, ', '.join(_show_form(f) for f in site[3:])))
        if kind == 'diff' and site[3] != BASE:
            r.violate('FunctionArguments.c:%s:index-base' % fn, rel, d.line, '%s computes a values[] slot as `%s`, i.e. relative to %s; values[] is parallel to argnames, so the keyword value is stored %s '
                      '(the value is bound to the wrong parameter, silently)' % (fn, text, _show_form(site[3]), 'num_pos_args slots too far left' if site[3] == FIRST else 'into an unrelated slot'))
        if kind == 'sentinel' and site[3] != FIRST:
            r.violate('FunctionArguments.c:%s:keyword-scan-start' % fn, rel, d.line, '%s looks a keyword up with `%s`, starting at %s instead of argnames + %s: %s' % (
                fn, text, _show_form(site[3]), N, 'a keyword naming an argument that was already passed positionally is accepted and overwrites it (CPython: TypeError "multiple values")'
                if site[3] == BASE else 'the declared keyword parameters are not all searched'))
        if kind == 'bounded' and (site[3] != BASE or site[4] != FIRST):
            r.violate('FunctionArguments.c:%s:positional-scan-range' % fn, rel, d.line, '%s checks for duplicates of positional arguments with `%s`, i.e. over [%s, %s) instead of [argnames, argnames + %s): '
                      'a keyword that repeats a positional argument is not reported as "multiple values"' % (fn, text, _show_form(site[3]), _show_form(site[4]), N))
    # positive control: seed C24c shape
    class D:
        def __init__(self, params, body):
            self.params, self.body, self.file, self.line = list(params), body, 'FunctionArguments.c', 1
    cf = {'__Pyx_ParseKeywords': D(IDX_CONTROL['__Pyx_ParseKeywords'], '{ PyObject** const *first_kw_arg = argnames + num_pos_args; size_t i; return __Pyx_Match(kwds, argnames, first_kw_arg, &i); }'),
          '__Pyx_Match': D(IDX_CONTROL['__Pyx_Match'], '{ PyObject ** const *name; name = first_kw_arg; while (*name) { if (**name == key) { *index_found = (size_t)(name - first_kw_arg); return 1; } name++; } return 0; }')}
    ck = KwForms(cf)
    bad = [s for s in idx_sites(ck) if s[1] == 'diff' and s[3] != (True, ())]
    r.positive_control(bool(bad), 'index computed relative to first_kw_arg')
    return r


# ======================================================================================= C24-POSONLY
"""C24-POSONLY — the offset between values[] indices and keyword-table indices.

The keyword-name table is built from `[arg for arg in all_args if not arg.pos_only]`; values[] has one slot per element of all_args.  Hence
table index = values index - |{a in all_args : a.pos_only}|, and that count is what must be subtracted from nargs, added to `values`, and
subtracted inside `pykwdlist[i - K]`.  The rule resolves every counter (a local initialised to 0 and incremented in a loop over the arguments, or
a parameter bound to such a local at the self.method(...) call site) to the set of conditions its increment is nested in, minus the conditions
under which the same loop appends the argument to the list all_args is made of, and demands that this set is exactly {arg.pos_only}."""


def _counters(fn):
    """{name: [(frozenset of (condition text, truth) around `name += 1`, loop iter text, lineno)]} and appends {list name: conditions}"""
    out, appends = {}, {}

    def walk(stmts, conds, loop):
        for st in stmts:
            if isinstance(st, ast.For):
                walk(st.body, conds, (ast.unparse(st.iter), st.target.id if isinstance(st.target, ast.Name) else None))
                walk(st.orelse, conds, loop)
            elif isinstance(st, ast.If):
                t = st.test
                # `if not c: continue` guards the rest of the loop body
                pos = _atoms(t, True)
                walk(st.body, conds | pos, loop)
                walk(st.orelse, conds | _atoms(t, False), loop)
                if st.body and isinstance(st.body[-1], ast.Continue) and not st.orelse:
                    conds = conds | _atoms(t, False)
            elif isinstance(st, ast.AugAssign) and isinstance(st.op, ast.Add) and isinstance(st.target, ast.Name) \
                    and isinstance(st.value, ast.Constant) and st.value.value == 1 and loop is not None:
                out.setdefault(st.target.id, []).append((frozenset(conds), loop, st.lineno))
            elif isinstance(st, ast.Expr) and isinstance(st.value, ast.Call) and isinstance(st.value.func, ast.Attribute) and st.value.func.attr == 'append' and loop is not None:
                tgt = st.value.func.value
                names = [tgt.id] if isinstance(tgt, ast.Name) else [x.id for x in ast.walk(tgt) if isinstance(x, ast.Name)]
                for nm in names:
                    appends.setdefault(nm, []).append(frozenset(conds))
            elif isinstance(st, (ast.With, ast.Try, ast.While)):
                for fld in ('body', 'orelse', 'finalbody'):
                    walk(getattr(st, fld, []) or [], conds, loop)
    walk(fn.body, frozenset(), None)
    return out, appends


def _atoms(test, truth):
    """conjunctive atoms known when `test` has the given truth value: {(text, bool)}"""
    if isinstance(test, ast.UnaryOp) and isinstance(test.op, ast.Not):
        return _atoms(test.operand, not truth)
    if isinstance(test, ast.BoolOp):
        if (isinstance(test.op, ast.And) and truth) or (isinstance(test.op, ast.Or) and not truth):
            out = frozenset()
            for v in test.values:
                out |= _atoms(v, truth)
            return out
        return frozenset({(ast.unparse(test), truth)})
    return frozenset({(ast.unparse(test), truth)})


def _norm_atoms(conds, var):
    out = set()
    for text, truth in conds:
        m = re.fullmatch(r'%s\.(\w+)' % re.escape(var or 'arg'), text)
        out.add((m.group(1) if m else text, truth))
    return frozenset(out)


def _gen_counter(cls, fn, node):
    """`sum(1 for a in L if c)` / `len([a for a in L if c])` / `sum(a.f for a in L)`-free forms: -> (classes, desc, doms) or None"""
    if not (isinstance(node, ast.Call) and isinstance(node.func, ast.Name) and node.func.id in ('sum', 'len') and len(node.args) == 1):
        return None
    g = node.args[0]
    if not isinstance(g, (ast.GeneratorExp, ast.ListComp)) or len(g.generators) != 1 or not isinstance(g.generators[0].target, ast.Name):
        return None
    if node.func.id == 'sum' and not (isinstance(g.elt, ast.Constant) and g.elt.value == 1):
        return None
    gen = g.generators[0]
    conds = frozenset()
    for t in gen.ifs:
        conds |= _atoms(t, True)
    norm = _norm_atoms(conds, gen.target.id)
    dom = dict(cls=cls, fn=fn, iter=ast.unparse(gen.iter), conds=norm, members=frozenset(), line=node.lineno)
    return {norm}, '%s.%s:%s' % (cls.name, fn.name, ast.unparse(node)[:60]), [dom]


def _attr_counter(cls, attr, ix, depth, seen=None):
    """the counters stored as `self.<attr> = <counter>` by any method of a class of the same module (nominal: the attribute may be copied
    from a related node, `self.x = self.target.x`): -> (classes, desc, doms), None when a writer is not a counter"""
    if ix is None or depth > 4:
        return None
    res, doms, desc, writers = set(), [], None, 0
    for k in ix._all_classes(cls.module):
        for m in k.methods.values():
            if not m.args.args:
                continue
            me = m.args.args[0].arg
            for n in walk_no_nested(m):
                if not isinstance(n, ast.Assign):
                    continue
                if not any(isinstance(t, ast.Attribute) and t.attr == attr and isinstance(t.value, ast.Name) and t.value.id == me for t in n.targets):
                    continue
                v = n.value
                if isinstance(v, ast.Attribute) and v.attr == attr:
                    continue                      # copied from a related object: its writers are found by name
                writers += 1
                sub = counter_class(k, m, v.id, ix, depth + 1) if isinstance(v, ast.Name) else _gen_counter(k, m, v)
                if sub is None:
                    return None
                res |= sub[0]
                doms += sub[2]
                desc = 'self.%s <- %s' % (attr, sub[1])
    return (res, desc, doms) if writers else None


def counter_class(cls, fn, name, ix, depth=0):
    """the extra conditions of a counter: -> (set of frozenset of (attribute of the loop variable, truth), description, domains) or None when `name`
    is not a counter.  A domain = dict(cls, fn, iter text, conds = all normalised guard atoms of the increment, members = lists the same loop files
    the argument into under a subset of these guards, line)."""
    if name.startswith('self.'):
        return _attr_counter(cls, name[5:], ix, depth + 1)
    ctrs, appends = _counters(fn)
    if name in ctrs:
        incs = ctrs[name]
        res = set()
        doms = []
        for conds, (it, var), line in incs:
            # conditions under which the same loop files the argument into a list: membership conditions of the argument lists, not part of the count's meaning
            member = None
            mlists = set()
            for lst, cl in appends.items():
                for c in cl:
                    if c <= conds:
                        member = c if member is None or len(c) > len(member) else member
                        mlists.add(lst)
            extra = conds - (member or frozenset())
            res.add(_norm_atoms(extra, var))
            doms.append(dict(cls=cls, fn=fn, iter=it, conds=_norm_atoms(conds, var), members=frozenset(mlists), line=line))
        return res, '%s.%s:%s' % (cls.name, fn.name, name), doms
    # a plain alias of another local: `k = n`, of an attribute `k = self.n`, or a counting expression
    al = [n.value for n in walk_no_nested(fn) if isinstance(n, ast.Assign) and any(isinstance(t, ast.Name) and t.id == name for t in n.targets)]
    if len(al) == 1 and isinstance(al[0], ast.Name) and depth < 3:
        return counter_class(cls, fn, al[0].id, ix, depth + 1)
    if len(al) == 1 and isinstance(al[0], ast.Attribute) and isinstance(al[0].value, (ast.Name, ast.Attribute)) and depth < 3 and ix is not None:
        return _attr_counter(cls, al[0].attr, ix, depth + 1)
    if len(al) == 1 and isinstance(al[0], ast.Call):
        g = _gen_counter(cls, fn, al[0])
        if g is not None:
            return g
        # a helper method returning a counter: k = self.helper(lst)
        c0 = al[0]
        if isinstance(c0.func, ast.Attribute) and isinstance(c0.func.value, ast.Name) and c0.func.value.id == 'self' and c0.func.attr in getattr(cls, 'methods', {}) and depth < 3:
            h = cls.methods[c0.func.attr]
            rets = [n.value for n in walk_no_nested(h) if isinstance(n, ast.Return) and n.value is not None]
            if len(rets) == 1:
                sub = counter_class(cls, h, rets[0].id, ix, depth + 1) if isinstance(rets[0], ast.Name) else _gen_counter(cls, h, rets[0])
                return sub
    params = [a.arg for a in fn.args.args]
    if name in params and depth < 3:
        i = params.index(name) - 1
        res, desc, doms = set(), None, []
        for other in cls.methods.values():
            for n in walk_no_nested(other):
                if isinstance(n, ast.Call) and isinstance(n.func, ast.Attribute) and n.func.attr == fn.name and isinstance(n.func.value, ast.Name) and n.func.value.id == 'self':
                    arg = None
                    if 0 <= i < len(n.args):
                        arg = n.args[i]
                    for k in n.keywords:
                        if k.arg == name:
                            arg = k.value
                    if isinstance(arg, ast.Name):
                        sub = counter_class(cls, other, arg.id, ix, depth + 1)
                        if sub is None:
                            return None
                        res |= sub[0]
                        desc = sub[1]
                        doms += sub[2]
                    elif isinstance(arg, ast.Attribute) and ix is not None:
                        sub = _attr_counter(cls, arg.attr, ix, depth + 1)
                        if sub is None:
                            return None
                        res |= sub[0]
                        desc = sub[1]
                        doms += sub[2]
                    else:
                        return None
        return (res, desc, doms) if res else None
    return None


def _bound_to(cls, fn, pname, want_fn, want_name, depth=0):
    """is parameter/local `pname` of fn the list `want_name` of want_fn (same local, or bound at every self.fn(...) call site)?  True/False/None(unknown)"""
    if fn is want_fn:
        if pname == want_name:
            return True
        al = [n.value for n in walk_no_nested(fn) if isinstance(n, ast.Assign) and any(isinstance(t, ast.Name) and t.id == pname for t in n.targets)]
        if len(al) == 1 and isinstance(al[0], ast.Name) and depth < 4:
            return _bound_to(cls, fn, al[0].id, want_fn, want_name, depth + 1)
        return False
    params = [a.arg for a in fn.args.args]
    if pname not in params:
        al = [n.value for n in walk_no_nested(fn) if isinstance(n, ast.Assign) and any(isinstance(t, ast.Name) and t.id == pname for t in n.targets)]
        if len(al) == 1 and isinstance(al[0], ast.Name) and depth < 4:
            return _bound_to(cls, fn, al[0].id, want_fn, want_name, depth + 1)
        return False
    if depth > 4:
        return None
    i = params.index(pname) - 1
    verdicts = []
    for other in cls.methods.values():
        for n in walk_no_nested(other):
            if isinstance(n, ast.Call) and isinstance(n.func, ast.Attribute) and n.func.attr == fn.name and isinstance(n.func.value, ast.Name) and n.func.value.id == 'self':
                arg = n.args[i] if 0 <= i < len(n.args) else None
                for k in n.keywords:
                    if k.arg == pname:
                        arg = k.value
                if not isinstance(arg, ast.Name):
                    verdicts.append(False)
                else:
                    verdicts.append(_bound_to(cls, other, arg.id, want_fn, want_name, depth + 1))
    if not verdicts:
        return None
    if any(v is False for v in verdicts):
        return False
    return None if any(v is None for v in verdicts) else True


def _table_domain(fn, iter_name):
    """the lists the table's source list is made of (transitive closure over the local assignments of fn) and the membership conditions common to
    every append to one of them: -> (component names, frozenset of normalised atoms, root iterable texts)"""
    comp, todo = {iter_name}, [iter_name]
    while todo:
        nm = todo.pop()
        for n in walk_no_nested(fn):
            if isinstance(n, ast.Assign) and any(isinstance(t, ast.Name) and t.id == nm for t in n.targets):
                for x in ast.walk(n.value):
                    if isinstance(x, ast.Name) and x.id not in comp and not isinstance(n.value, ast.Constant):
                        comp.add(x.id)
                        todo.append(x.id)
    common, roots = None, set()

    def walk(stmts, conds, loop):
        nonlocal common
        for st in stmts:
            if isinstance(st, ast.For):
                walk(st.body, conds, (ast.unparse(st.iter), st.target.id if isinstance(st.target, ast.Name) else None))
                walk(st.orelse, conds, loop)
            elif isinstance(st, ast.If):
                walk(st.body, conds | _atoms(st.test, True), loop)
                walk(st.orelse, conds | _atoms(st.test, False), loop)
                if st.body and isinstance(st.body[-1], ast.Continue) and not st.orelse:
                    conds = conds | _atoms(st.test, False)
            elif isinstance(st, ast.Expr) and isinstance(st.value, ast.Call) and isinstance(st.value.func, ast.Attribute) and st.value.func.attr == 'append' and loop is not None:
                tgt = st.value.func.value
                names = [tgt.id] if isinstance(tgt, ast.Name) else [x.id for x in ast.walk(tgt) if isinstance(x, ast.Name)]
                if any(nm in comp for nm in names):
                    # a conditional expression choosing between two component lists: its test is not a membership condition
                    atoms = _norm_atoms(conds, loop[1])
                    common = atoms if common is None else (common & atoms)
                    roots.add(loop[0])
            elif isinstance(st, (ast.With, ast.Try, ast.While)):
                for fld in ('body', 'orelse', 'finalbody'):
                    walk(getattr(st, fld, []) or [], conds, loop)
    walk(fn.body, frozenset(), None)
    return comp, (common or frozenset()), roots


def domain_problem(cls, dom, table_fn, table_iter):
    """None when the collection the counter iterates over is the table's source list (values[] has one slot per element of it); else a description"""
    comp, member_conds, roots = _table_domain(table_fn, table_iter)
    fn = dom['fn']
    if dom['cls'] is cls or dom['fn'] is table_fn:
        if fn is table_fn and (dom['members'] & comp):
            return None                                   # counted while the argument is filed into a component list of the table's source
        it = dom['iter']
        if re.fullmatch(r'\w+', it):
            b = _bound_to(cls, fn, it, table_fn, table_iter)
            if b is True:
                return None
            if b is None:
                raise AnalysisError('C24-POSONLY: cannot decide whether `%s` of %s.%s is the list values[] is laid out by (`%s` of %s)' % (it, cls.name, fn.name, table_iter, table_fn.name))
    # a different collection: acceptable only when it is the table's root argument list filtered by (at least) the table's membership conditions
    root_attr = lambda t: t.rsplit('.', 1)[-1]
    missing = sorted(('' if v else 'not ') + t for t, v in member_conds if (t, v) not in dom['conds'])
    if roots and root_attr(dom['iter']) in {root_attr(x) for x in roots} and not missing:
        return None
    what = '`%s` in %s.%s' % (dom['iter'], dom['cls'].name, fn.name)
    if missing:
        return ('it counts over %s without the conditions %s under which an argument gets a values[] slot and a place in `%s` (%s.%s): arguments outside that list (self / cls of an '
                'extension-type method, non-generic arguments) are counted too' % (what, ' and '.join(missing), table_iter, cls.name, table_fn.name))
    return 'it counts over %s, which is not the list `%s` of %s.%s that values[] and the keyword-name table are laid out by' % (what, table_iter, cls.name, table_fn.name)


def rule_posonly(ctx, floor=3):
    ix = ctx.index
    r = Rule('C24-POSONLY', 'DefNodeWrapper: every counter that offsets values[] indices against the keyword-name table (nargs - K, values + K, pykwdlist[i - K]) counts exactly the '
             'positional-only parameters — the complement of the `not arg.pos_only` filter the table is built with', floor)
    c = ix.cls('Nodes', 'DefNodeWrapper')
    if c is None:
        raise AnalysisError('Nodes.DefNodeWrapper vanished')
    WANT = frozenset({('pos_only', True)})
    n_sites = 0
    table_filter = None
    pending = []
    for fname, fn in c.methods.items():
        src = ast.unparse(fn)
        emits_parse = '__Pyx_ParseKeywords(' in src
        uses_table = 'pykwdlist_cname' in src
        if not (emits_parse or uses_table):
            continue
        # (a) the filter of the name table
        counted = {id(x.args[0]) for x in walk_no_nested(fn) if isinstance(x, ast.Call) and isinstance(x.func, ast.Name) and x.func.id in ('len', 'sum') and len(x.args) == 1}
        for n in walk_no_nested(fn):
            if isinstance(n, ast.ListComp) and id(n) not in counted and len(n.generators) == 1 and n.generators[0].ifs and isinstance(n.elt, ast.Name):
                g = n.generators[0]
                conds = frozenset()
                for t in g.ifs:
                    conds |= _atoms(t, True)
                norm = frozenset((re.sub(r'^%s\.' % re.escape(g.target.id if isinstance(g.target, ast.Name) else 'arg'), '', t), v) for t, v in conds)
                if any(t == 'pos_only' for t, v in norm):
                    table_filter = (norm, ast.unparse(g.iter), n.lineno, fname)
        # (b) counters used in arithmetic / emitted text of this function
        used = set()
        for n in walk_no_nested(fn):
            if isinstance(n, ast.FormattedValue):
                for x in ast.walk(n.value):
                    if isinstance(x, ast.Name):
                        used.add((x.id, n.lineno))
                    elif isinstance(x, ast.Attribute) and isinstance(x.value, ast.Name) and x.value.id == 'self':
                        used.add(('self.' + x.attr, n.lineno))
            elif isinstance(n, ast.BinOp) and isinstance(n.op, (ast.Mod, ast.Sub, ast.Add)):
                ops = n.right.elts if (isinstance(n.op, ast.Mod) and isinstance(n.right, ast.Tuple)) else [n.right, n.left] if not isinstance(n.op, ast.Mod) else [n.right]
                for o in ops:
                    if isinstance(o, ast.Name):
                        used.add((o.id, n.lineno))
                    elif isinstance(o, ast.Attribute) and isinstance(o.value, ast.Name) and o.value.id == 'self':
                        used.add(('self.' + o.attr, n.lineno))
        done = set()
        for name, line in sorted(used):
            if name in done:
                continue
            cc = counter_class(c, fn, name, ix)
            if cc is None:
                continue
            done.add(name)
            # only counters that talk about pos_only at all are offsets between the two index spaces
            classes, desc, doms = cc
            if not any(any(t == 'pos_only' for t, v in k) for k in classes):
                continue
            # round 9: a counter of the parameters that are NOT positional-only (every class has `not pos_only`) measures the keyword-name table, not the distance
            # between the two index spaces; its value wherever it reaches the parser call is decided by C24-POSRANGE (s9C24: clamp limit / values window)
            if all(('pos_only', False) in k for k in classes):
                continue
            if not emits_parse and not re.search(r'pykwdlist_cname\}\[[^\]]*\{%s\}' % re.escape(name), src.replace(' ', '')) and not re.search(r'pykwdlist_cname[^\n]*%s' % re.escape(name), src):
                continue
            key = 'Nodes.DefNodeWrapper.%s:offset:%s' % (fname, name)
            n_sites += 1
            r.inst(key, sample='%s counts %s (from %s)' % (key, sorted(map(sorted, classes)), desc))
            pending.append((key, line, fname, name, desc, doms, classes))
    if table_filter is None:
        raise AnalysisError('DefNodeWrapper: the list comprehension that filters the keyword-name table by pos_only was not found')
    key = 'Nodes.DefNodeWrapper.%s:name-table-filter' % table_filter[3]
    r.inst(key, sample='%s: %s over %s' % (key, sorted(table_filter[0]), table_filter[1]))
    if table_filter[0] != frozenset({('pos_only', False)}):
        r.violate(key, c.module.rel, table_filter[2], 'the keyword-name table is filtered by %s instead of `not arg.pos_only`: the offsets (number of positional-only parameters) no longer describe the '
                  'distance between a values[] index and its table index' % sorted(table_filter[0]))
    # (c) the collection the counter runs over is the list values[] / the name table are laid out by
    if re.fullmatch(r'\w+', table_filter[1]):
        tfn = c.methods[table_filter[3]]
        member_conds = _table_domain(tfn, table_filter[1])[1]
        for key, line, fname, name, desc, doms, classes in pending:
            # guards that repeat the membership conditions of the table's source list do not change what is counted
            bad = [k for k in classes if (k - member_conds) != WANT]
            if bad:
                extra = sorted('%s%s' % ('' if v else 'not ', t) for t, v in bad[0] if (t, v) not in WANT)
                r.violate(key, c.module.rel, line, '%s uses `%s` (%s) to translate between values[] indices and keyword-table indices, but it counts only the arguments with %s; the table drops every '
                          'positional-only parameter (`if not arg.pos_only`), so for a signature where the two counts differ keyword values are stored into the wrong parameter / '
                          'bogus "multiple values" errors are raised' % (fname, name, desc, ' and '.join(['pos_only'] + extra)))
                continue
            for dom in doms:
                p = domain_problem(c, dom, tfn, table_filter[1])
                if p:
                    r.violate(key, c.module.rel, line, '%s uses `%s` (%s) to translate between values[] indices and keyword-table indices, but %s; for such a signature the offset differs from the '
                              'number of positional-only slots of values[]: keyword values are stored into the slot of a neighbouring parameter, required parameters are reported missing, '
                              'or the last slot is written past the array' % (fname, name, desc, p))
                    break
    else:
        raise AnalysisError('DefNodeWrapper: the keyword-name table is filtered from `%s`, not from a local list' % table_filter[1])
    if not n_sites:
        raise AnalysisError('DefNodeWrapper: no positional-only offset counter found in the functions emitting __Pyx_ParseKeywords / indexing the name table')
    pc = ast.parse("class W:\n def a(self, args, code):\n  n = m = 0\n  lst = []\n  for arg in args:\n   if arg.kw_only:\n    continue\n   lst.append(arg)\n   if arg.pos_only:\n    n += 1\n    if not arg.default:\n     m += 1\n  self.b(m, code)\n"
                   " def b(self, k, code):\n  code.putln(f'__Pyx_ParseKeywords(values + {k})')\n").body[0]

    class FC:
        name = 'W'
        methods = {f.name: f for f in pc.body}
    cc = counter_class(FC, FC.methods['b'], 'k', None)
    r.positive_control(cc is not None and any(k != WANT for k in cc[0]), 'offset bound to a counter of the required positional-only parameters')
    pc2 = ast.parse("class D:\n def __init__(self):\n  p = 0\n  for arg in self.args:\n   if arg.pos_only:\n    p += 1\n  self.npos = p\n"
                    "class W:\n def a(self, args, code):\n  pos = []\n  for arg in args:\n   if not arg.is_generic:\n    continue\n   if arg.is_self_arg:\n    continue\n   pos.append(arg)\n"
                    "  all_args = tuple(pos)\n  names = [arg for arg in all_args if not arg.pos_only]\n  self.b(all_args, code)\n"
                    " def b(self, all_args, code):\n  k = self.npos\n  g = 0\n  for arg in all_args:\n   if arg.pos_only:\n    g += 1\n  code.putln(f'__Pyx_ParseKeywords(values + {k} + {g})')\n")

    class FM:
        pass

    class FD:
        name = 'D'
        methods = {f.name: f for f in pc2.body[0].body}
        module = FM

    class FW:
        name = 'W'
        methods = {f.name: f for f in pc2.body[1].body}
        module = FM

    class FIX:
        @staticmethod
        def _all_classes(m):
            return [FD, FW]
    bad_c = counter_class(FW, FW.methods['b'], 'k', FIX)
    good_c = counter_class(FW, FW.methods['b'], 'g', FIX)
    ok = bool(bad_c and good_c and bad_c[0] == {WANT} and all(domain_problem(FW, d, FW.methods['a'], 'all_args') for d in bad_c[2])
              and not any(domain_problem(FW, d, FW.methods['a'], 'all_args') for d in good_c[2]))
    r.positive_control(ok, 'offset taken from an attribute that counts pos_only over the unfiltered self.args (fires); counter over the all_args parameter (passes)')
    return r


# ======================================================================================= C24-KWSTR / C24-VCSELF
def rule_kwstr(ctx, floor=1):
    """**kwargs-only signatures: the keyword names are checked to be strings before they are turned into the dict"""
    ix = ctx.index
    r = Rule('C24-KWSTR', 'DefNodeWrapper: on every path that emits __Pyx_KwargsAsDict_<variant>(...) (keywords collected into **kwargs without the name table) '
             '__Pyx_CheckKeywordStrings has been emitted before: non-str keyword names raise TypeError as in CPython', floor)
    c = ix.cls('Nodes', 'DefNodeWrapper')
    n = 0
    for fname, fn in (c.methods.items() if c else ()):
        if '__Pyx_KwargsAsDict_' not in ast.unparse(fn):
            continue
        bad = []

        def tr(node, state):
            s = set(state)
            if not isinstance(getattr(node, 'body', None), list):
                for x in ast.walk(node):
                    if isinstance(x, ast.Constant) and isinstance(x.value, str):
                        if '__Pyx_CheckKeywordStrings(' in x.value:
                            s.add('CHK')
                        if '__Pyx_KwargsAsDict_' in x.value and 'CHK' not in s:
                            bad.append(x.lineno)
            return frozenset(s)
        pyflow.Flow(tr).run(fn)
        key = 'Nodes.DefNodeWrapper.%s:KwargsAsDict' % fname
        n += 1
        r.inst(key, sample=key)
        if bad:
            r.violate(key, c.module.rel, bad[0], '%s emits __Pyx_KwargsAsDict_* on a path where __Pyx_CheckKeywordStrings was not emitted first: f(**{1: 2}) fills **kwargs with a non-str key instead of raising TypeError' % fname)
    if not n:
        raise AnalysisError('DefNodeWrapper no longer emits __Pyx_KwargsAsDict_*')
    return r


def rule_vcself(ctx, floor=4):
    """C call paths of CythonFunction.c: taking the first argument as `self` goes together with dropping it from the arguments"""
    r = Rule('C24-VCSELF', 'CythonFunction.c call paths: a function that takes `self` out of the argument vector/tuple (self = args[0] / PyTuple_GetItem(args, 0)) passes on the remaining '
             'arguments only (args += 1 and nargs -= 1 in the same branch; tuple slice starting at 1): self is not bound a second time as the first positional argument', floor)
    rel = 'Cython/Utility/CythonFunction.c'
    n = 0
    for name, ds in sorted(ctx.cat.decls.items()):
        for d in ds:
            if d.file != 'CythonFunction.c' or d.kind != 'func' or not d.body:
                continue
            body = strip_c_comments(d.body)
            for m in re.finditer(r'\bself\s*=\s*args\s*\[\s*0\s*\]\s*;', body):
                # the enclosing branch: up to the next `break;` / closing brace
                seg = body[m.end():]
                end = re.search(r'\bbreak\s*;|\}', seg)
                seg = seg[:end.start()] if end else seg
                key = 'CythonFunction.c:%s:self=args[0]' % name
                n += 1
                r.inst(key, sample=key)
                adv = re.search(r'\bargs\s*\+=\s*1\b|\bargs\s*\+\+|\+\+\s*args\b|\bargs\s*=\s*args\s*\+\s*1\b', seg)
                dec = re.search(r'\bnargs\s*-=\s*1\b|\bnargs\s*--|--\s*nargs\b|\bnargs\s*=\s*nargs\s*-\s*1\b', seg)
                if not (adv and dec):
                    r.violate(key, rel, d.line, '%s takes self from args[0] but does not %s in that branch: %s' % (
                        name, ' and '.join(x for x, ok in (('advance args', adv), ('decrement nargs', dec)) if not ok),
                        'the method receives self again as its first positional argument' if not adv else 'the argument count still includes self (wrong arity errors / reads one past the vector)'))
            for m in re.finditer(r'\bself\s*=\s*PyTuple_Get(?:Item|_ITEM)\s*\(\s*(\w+)\s*,\s*0\s*\)', body):
                key = 'CythonFunction.c:%s:self=tuple[0]' % name
                n += 1
                sl = re.findall(r'PyTuple_GetSlice\s*\(\s*%s\s*,\s*([^,]+),' % re.escape(m.group(1)), body)
                r.inst(key, sample='%s: slices %s' % (key, sl))
                if not sl or any(s.strip() != '1' for s in sl):
                    r.violate(key, rel, d.line, '%s takes self from item 0 of the argument tuple but passes on %s: self is bound again as the first positional argument' % (
                        name, ('PyTuple_GetSlice(%s, %s, ...)' % (m.group(1), sl[0].strip())) if sl else 'the whole tuple'))
    if not n:
        raise AnalysisError('CythonFunction.c: no call path extracts self from its arguments any more')
    r.positive_control(True, 'structural pairing (no violation expected on a consistent tree)')
    return r


# ======================================================================================= C24-UNKNOWN / C24-KWCOUNT
def _flag_truth(cond, env):
    """truth of a guard condition over the flags in env (name -> 0/1), None when it mentions anything else"""
    try:
        e = cexpr.parse(blank_strings(cond))
    except (cexpr.ParseError, ValueError):
        return None
    ids = {n[1] for n in cexpr.walk(e) if n[0] == 'id'}
    calls = {n[1] for n in cexpr.walk(e) if n[0] == 'call'}
    if not ids or not ids <= set(env) or calls - {'likely', 'unlikely'}:
        return None
    try:
        return bool(cexpr.evaluate(e, dict(env), calls={'likely': lambda x: x, 'unlikely': lambda x: x}))
    except Exception:
        return None


def unknown_exits(name, d):
    """positions of the "unexpected keyword" error exits of a parser function: gotos to a label that formats the TypeError, calls of __Pyx_RejectUnknownKeyword"""
    body = strip_c_comments(d.body)
    labels = set()
    for m in re.finditer(r'(?m)^\s*([A-Za-z_]\w*)\s*:\s*$', body):
        tail = body[m.end():]
        nxt = re.search(r'(?m)^\s*[A-Za-z_]\w*\s*:\s*$', tail)
        blk = tail[:nxt.start()] if nxt else tail
        if re.search(r'unexpected keyword', blk):
            labels.add(m.group(1))
    out = []
    for m in re.finditer(r'\bgoto\s+(\w+)\s*;', body):
        if m.group(1) in labels:
            out.append((m.start(), 'goto %s' % m.group(1)))
    for m in re.finditer(r'\b__Pyx_RejectUnknownKeyword\s*\(', body):
        out.append((m.start(), '__Pyx_RejectUnknownKeyword(...)'))
    return body, out


def rule_unknown(ctx, floor=2):
    from ..engine import cguard
    r = Rule('C24-UNKNOWN', 'keyword parsers of FunctionArguments.c: the "unexpected keyword argument" exit of every parser that receives the flags is reachable exactly for '
             '(no **kwargs dict, ignore_unknown_kwargs == 0) — truth table of the enclosing conditions over the complete domain {kwds2 NULL / set} x {flag 0 / 1}', floor)
    funcs = _kw_functions(ctx)
    rel = 'Cython/Utility/FunctionArguments.c'
    n = 0
    for name, d in sorted(funcs.items()):
        pn = [_pname_c(p) for p in d.params]
        flags = [p for p in pn if p in ('ignore_unknown_kwargs', 'kwds2')]
        if 'ignore_unknown_kwargs' not in pn:
            continue
        body, exits = unknown_exits(name, d)
        for pos, what in exits:
            gs = cguard.guards(body, pos)
            key = 'FunctionArguments.c:%s:%s' % (name, what)
            n += 1
            table = {}
            for k in ((0, 1) if 'kwds2' in pn else (0,)):
                for i in (0, 1):
                    env = {'ignore_unknown_kwargs': i, 'kwds2': k, 'NULL': 0}
                    reach = True
                    for cond, pol in gs:
                        t = _flag_truth(cond, env)
                        if t is not None and t != pol:
                            reach = False
                    table[(k, i)] = reach
            r.inst(key, sample='%s: reachable for (kwds2, ignore) in %s' % (key, sorted(k for k, v in table.items() if v)))
            wrong = sorted(k for k, v in table.items() if v != (k == (0, 0)))
            if wrong:
                r.violate(key, rel, d.line, '%s: the unexpected-keyword error (%s) is %s: a signature %s' % (
                    name, what, '; '.join('%s for kwds2 %s, ignore_unknown_kwargs=%d' % ('reachable' if table[k] else 'NOT reachable', 'set' if k[0] else 'NULL', k[1]) for k in wrong),
                    'with an unread **kwargs rejects unknown keywords' if any(table[k] for k in wrong) else 'without **kwargs silently accepts unknown keywords'))
    if not n:
        raise AnalysisError('FunctionArguments.c: no unexpected-keyword exit found in the parsers that take ignore_unknown_kwargs')
    ctl = '{ if (kwds2) { a(); } else if (ignore_unknown_kwargs) { goto invalid_keyword; } }'
    gs = cguard.guards(ctl, ctl.index('goto'))
    r.positive_control(len(gs) == 2 and not all(_flag_truth(c, {'ignore_unknown_kwargs': 0, 'kwds2': 0, 'NULL': 0}) == p for c, p in gs), 'inverted flag makes the exit unreachable for (NULL, 0)')
    return r


def rule_kwcount(ctx, floor=2):
    """def-use of the two counts passed to __Pyx_ParseKeywords"""
    ix = ctx.index
    r = Rule('C24-KWCOUNT', 'DefNodeWrapper: the argument passed for `num_kwargs` of __Pyx_ParseKeywords is the keyword count variable, the argument for `num_pos_args` is 0 or a C variable the '
             'same function defines from the positional count nargs', floor)
    decl = [d for d in ctx.cat.decls.get('__Pyx_ParseKeywords', []) if d.kind == 'func']
    if not decl:
        raise AnalysisError('__Pyx_ParseKeywords is not defined')
    pn = [_pname_c(p) for p in decl[0].params]
    if 'num_pos_args' not in pn or 'num_kwargs' not in pn:
        raise AnalysisError('__Pyx_ParseKeywords no longer has the parameters num_pos_args / num_kwargs')
    ipos, ikw = pn.index('num_pos_args'), pn.index('num_kwargs')
    c = ix.cls('Nodes', 'DefNodeWrapper')
    n = 0
    for fname, fn in (c.methods.items() if c else ()):
        for node, name, args, argph in iface.emitted_calls_fn(fn):
            if name != '__Pyx_ParseKeywords' or args is None or len(args) != len(pn):
                continue
            env = iface.local_env(fn)
            # C variables this function declares from nargs: `const Py_ssize_t X = ... <nargs> ...` / `... <Y> ...` with Y such a variable
            decls = {}
            emitted = [a for cl in walk_no_nested(fn) if isinstance(cl, ast.Call) for a in cl.args[:1]]
            for x in emitted:
                t = iface.str_template(x) if isinstance(x, (ast.JoinedStr, ast.BinOp, ast.Constant)) else None
                if t is None:
                    continue
                text, ph = t
                for m in re.finditer(r'\bPy_ssize_t\s+(\w+)\s*=([^;]*);', text):
                    k0 = text[:m.start(2)].count(PH)
                    phs = ph[k0:k0 + m.group(2).count(PH)]
                    decls.setdefault(m.group(1), []).append((m.group(2), phs))

            def from_nargs(cid, depth=0):
                if depth > 4 or cid not in decls:
                    return False
                for init, phs in decls[cid]:
                    ok = any(isinstance(p, ast.Attribute) and p.attr == 'nargs_cname' for p in phs) or any(from_nargs(w, depth + 1) for w in re.findall(r'[A-Za-z_]\w*', init) if w != cid)
                    if not ok:
                        return False
                return True
            for what, i in (('num_kwargs', ikw), ('num_pos_args', ipos)):
                key = 'Nodes.DefNodeWrapper.%s:__Pyx_ParseKeywords:%s' % (fname, what)
                n += 1
                p = argph[i][0] if argph[i] else None
                r.inst(key, sample='%s <- %s' % (key, ast.unparse(p) if isinstance(p, ast.AST) else args[i]))
                if what == 'num_kwargs':
                    if not (isinstance(p, ast.Attribute) and p.attr == 'kwds_len_cname'):
                        r.violate(key, c.module.rel, node.lineno, '%s passes `%s` as num_kwargs of __Pyx_ParseKeywords, not the keyword count Naming.kwds_len_cname: the parser stops extracting / '
                                  'reports unknown keywords by the wrong count' % (fname, ast.unparse(p) if isinstance(p, ast.AST) else args[i]))
                    continue
                vals = iface.const_strs(p, env) if isinstance(p, ast.AST) else {args[i].strip()}
                if vals is None:
                    r.info('%s: the num_pos_args argument `%s` is not a finite set of C expressions; not checked' % (key, ast.unparse(p)))
                    continue
                bad = sorted(v for v in vals if not (v.strip() in ('0',) or from_nargs(v.strip())))
                if bad:
                    r.violate(key, c.module.rel, node.lineno, '%s passes `%s` as num_pos_args of __Pyx_ParseKeywords, which this function does not derive from the positional count (nargs): '
                              'the parser starts its keyword search at the wrong table entry / misses duplicates of positional arguments' % (fname, ', '.join(bad)))
    if not n:
        raise AnalysisError('DefNodeWrapper no longer emits __Pyx_ParseKeywords(')
    r.positive_control(True, 'def-use clause (no violation expected on a consistent tree)')
    return r
