"""dD11 -- C21-KINDS: every kind of variable the definedness analysis tracks gets its run-time unbound check from the NameNode emitters.

Deviation (unmodified tree): `def f(a, c):\n if c: del a\n return a` crashes for f(1, 1).  ControlFlow.is_tracked() tracks function arguments, `del a`
records the unbound state and check_definitions sets cf_maybe_null on the later read -- but NameNode.generate_result_code selects the branch that emits
put_error_if_unbound by the *kind* of the symbol-table entry (is_local / in_closure / from_closure ...), and the kind `is_arg` that Symtab.declare_arg
creates is not among them: the flag is computed and then dropped.

The rule decides an agreement between three places, all extracted from the source:
  producer   ControlFlow.is_tracked: the entry attributes in its disjunction = the kinds of variable for which cf_maybe_null is computed;
  kinds      Cython/Compiler/Symtab.py: where such an attribute is given a true constant.  A write on an entry the function has just obtained from a
             call (`entry = self.declare(...)`; `entry.is_arg = 1`) or a class-level default of an Entry subclass (InnerEntry.from_closure) defines a
             KIND: its valuation is the Entry class defaults + the true constants that function stores unconditionally on the same variable.  A write on
             an entry passed in (in_closure) is a MODIFIER of an existing kind: the other tracked attributes are left unknown.  A tracked attribute that
             Symtab never sets (error_on_uninitialized: set by the analysis itself on entries that exist) is reported with r.info() and not evaluated;
  consumers  every NameNode method that emits the unbound check (generate_result_code, generate_deletion_code, ...): partially evaluated in three-valued
             logic under the valuation (entry attributes as above, a plain Python object type, self.cf_maybe_null = True, cf_is_null = False,
             allow_null = False, the node was seen by the analysis: cf_state is not None; everything else unknown = both branches).  Necessary condition:
             SOME path reaches an emitted unbound check (or, for namespace-stored names, a run-time lookup with an error exit).  If no path does, a
             maybe-unbound variable of that kind is read / deleted with no check whatever the unknown conditions are.
Locals, single-return helper methods and if/else vs early return are evaluated, not matched; an unknown test never produces a report.
"""
import ast

from ..core import Rule, AnalysisError
from ..engine.pyindex import walk_no_nested, is_self_attr

UNK = None            # third truth value


class _Mark:
    def __init__(self, name):
        self.name = name

    def __repr__(self):
        return '<%s>' % self.name


ENTRY, TYPE, STATE, SELF = _Mark('entry'), _Mark('type'), _Mark('cf_state'), _Mark('self')
SELF_FLAGS = {'cf_maybe_null': True, 'cf_is_null': False, 'allow_null': False}


def _truthy_const(n):
    return isinstance(n, ast.Constant) and isinstance(n.value, (bool, int)) and bool(n.value)


def _const_bool(n):
    if isinstance(n, ast.Constant) and (n.value is None or isinstance(n.value, (bool, int))):
        return bool(n.value)
    return UNK


def tracked_atoms(ctx):
    """Entry attributes in the disjunction ControlFlow.is_tracked returns."""
    ix = ctx.index
    c = ix.cls('FlowControl', 'ControlFlow')
    if c is None:
        raise AnalysisError('FlowControl.ControlFlow not found')
    found = ix.find_method(c, 'is_tracked')
    if not found:
        raise AnalysisError('ControlFlow.is_tracked not found')
    fn = found[1]
    params = [a.arg for a in fn.args.args]
    if len(params) < 2:
        raise AnalysisError('ControlFlow.is_tracked: no entry parameter')
    ename = params[1]
    rets = [n for n in walk_no_nested(fn) if isinstance(n, ast.Return) and n.value is not None]
    atoms = []
    for r_ in rets:
        for n in ast.walk(r_.value):
            if isinstance(n, ast.Attribute) and isinstance(n.value, ast.Name) and n.value.id == ename and n.attr not in atoms:
                atoms.append(n.attr)
    if len(atoms) < 3:
        raise AnalysisError('ControlFlow.is_tracked: fewer than 3 entry kinds in its result (%s)' % atoms)
    return atoms, fn


def entry_defaults(ctx):
    """Class-level constants of Symtab.Entry (the value every attribute has unless a declare function stores another)."""
    ix = ctx.index
    c = ix.cls('Symtab', 'Entry')
    if c is None:
        raise AnalysisError('Symtab.Entry not found')
    out = {}
    for s in c.node.body:
        if isinstance(s, ast.Assign) and len(s.targets) == 1 and isinstance(s.targets[0], ast.Name):
            v = _const_bool(s.value)
            if v is not UNK:
                out[s.targets[0].id] = v
    return c, out


def kinds(ctx, atoms):
    """-> list of (key, line, valuation {attr: True/False/UNK}, description); set of atoms Symtab never sets."""
    ix = ctx.index
    entry_cls, defaults = entry_defaults(ctx)
    tree = ctx.parse('Cython/Compiler/Symtab.py')
    out, seen_atoms = [], set()
    # class-level defaults of Entry subclasses
    for c in ix.subclasses(entry_cls):
        if c is entry_cls or c.module.name.split('.')[-1] != 'Symtab':
            continue
        own = {}
        for s in c.node.body:
            if isinstance(s, ast.Assign) and len(s.targets) == 1 and isinstance(s.targets[0], ast.Name) and _truthy_const(s.value):
                own[s.targets[0].id] = True
        # __getattr__ only serves names the class hierarchy does not define: the Entry class defaults still win; __getattribute__ would not
        dyn = any(isinstance(s, ast.FunctionDef) and s.name == '__getattribute__' for s in c.node.body)
        for a in atoms:
            if a in own:
                seen_atoms.add(a)
                val = dict(defaults)
                if dyn:
                    val = {k: (UNK if k in atoms else v) for k, v in val.items()}
                val.update(own)
                out.append(('%s.%s' % (c.name, a), c.node.lineno, val, 'entries of class %s (class default %s = True)' % (c.name, a)))
    # writes in functions
    for cls in [n for n in tree.body if isinstance(n, ast.ClassDef)]:
        for fn in [n for n in cls.body if isinstance(n, ast.FunctionDef)]:
            params = {a.arg for a in fn.args.args + fn.args.kwonlyargs}
            fresh = set()
            for n in walk_no_nested(fn):
                if isinstance(n, ast.Assign) and len(n.targets) == 1 and isinstance(n.targets[0], ast.Name) and isinstance(n.value, ast.Call):
                    fresh.add(n.targets[0].id)
            top = {}      # var -> {attr: True} stored unconditionally at the top level of the function
            for s in fn.body:
                if isinstance(s, ast.Assign) and len(s.targets) == 1:
                    t = s.targets[0]
                    if isinstance(t, ast.Attribute) and isinstance(t.value, ast.Name) and _truthy_const(s.value):
                        top.setdefault(t.value.id, {})[t.attr] = True
            for n in walk_no_nested(fn):
                if not (isinstance(n, ast.Assign) and len(n.targets) == 1):
                    continue
                t = n.targets[0]
                if not (isinstance(t, ast.Attribute) and isinstance(t.value, ast.Name) and t.attr in atoms and _truthy_const(n.value)):
                    continue
                var = t.value.id
                seen_atoms.add(t.attr)
                val = dict(defaults)
                is_kind = var in fresh and var not in params
                if not is_kind:
                    val = {k: (UNK if k in atoms else v) for k, v in val.items()}
                    for a in atoms:
                        val.setdefault(a, UNK)
                val.update(top.get(var, {}))
                val[t.attr] = True
                out.append(('%s.%s:%s' % (cls.name, fn.name, t.attr), n.lineno, val,
                            '%s entries %s by %s.%s' % (t.attr, 'created' if is_kind else 'marked', cls.name, fn.name)))
    return out, [a for a in atoms if a not in seen_atoms]


class _Eval:
    """Three-valued partial evaluation of a NameNode emitter under one entry valuation; records whether a target call is reachable."""

    def __init__(self, ix, cls, valuation, is_site, param_values=None):
        self.ix, self.cls, self.val, self.is_site = ix, cls, valuation, is_site
        self.param_values = param_values or {}
        self.reached = False
        self.depth = 0

    # ---- expressions
    def ev(self, e, env):
        if isinstance(e, ast.Constant):
            if e.value is None:
                return 'NONE'
            if isinstance(e.value, (bool, int)):
                return bool(e.value)
            return UNK
        if isinstance(e, ast.Name):
            if e.id == 'self':
                return SELF
            return env.get(e.id, UNK)
        if isinstance(e, ast.Attribute):
            b = self.ev(e.value, env)
            if b is SELF:
                if e.attr == 'entry':
                    return ENTRY
                if e.attr in SELF_FLAGS:
                    return SELF_FLAGS[e.attr]
                if e.attr == 'cf_state':
                    return STATE
                return UNK
            if b is ENTRY:
                if e.attr == 'type':
                    return TYPE
                return self.val.get(e.attr, UNK)
            if b is TYPE:
                if e.attr == 'is_pyobject':
                    return True
                if e.attr.startswith('is_'):
                    return False
                return UNK
            return UNK
        if isinstance(e, ast.UnaryOp) and isinstance(e.op, ast.Not):
            v = self.truth(self.ev(e.operand, env))
            return UNK if v is UNK else (not v)
        if isinstance(e, ast.BoolOp):
            is_and = isinstance(e.op, ast.And)
            unknown = False
            for x in e.values:
                v = self.truth(self.ev(x, env))
                if v is UNK:
                    unknown = True
                elif v != is_and:
                    return v
            return UNK if unknown else is_and
        if isinstance(e, ast.Compare) and len(e.ops) == 1 and isinstance(e.ops[0], (ast.Is, ast.IsNot)):
            a, b = self.ev(e.left, env), self.ev(e.comparators[0], env)
            res = UNK
            if b == 'NONE' and isinstance(a, _Mark):
                res = False
            elif a == 'NONE' and isinstance(b, _Mark):
                res = False
            elif a == 'NONE' and b == 'NONE':
                res = True
            if res is UNK:
                return UNK
            return res if isinstance(e.ops[0], ast.Is) else (not res)
        if isinstance(e, ast.IfExp):
            t = self.truth(self.ev(e.test, env))
            if t is True:
                return self.ev(e.body, env)
            if t is False:
                return self.ev(e.orelse, env)
            a, b = self.ev(e.body, env), self.ev(e.orelse, env)
            return a if a is b or a == b else UNK
        if isinstance(e, ast.Call):
            return self.call(e, env)
        return UNK

    def truth(self, v):
        if v is True or v is False:
            return v
        if v == 'NONE':
            return False
        if v in (ENTRY, TYPE, SELF):
            return True
        return UNK

    def call(self, e, env):
        # bool(x)
        if isinstance(e.func, ast.Name) and e.func.id == 'bool' and len(e.args) == 1:
            return self.truth(self.ev(e.args[0], env))
        # self.helper(...) with a single-return body
        if isinstance(e.func, ast.Attribute) and isinstance(e.func.value, ast.Name) and e.func.value.id == 'self' and self.depth < 4:
            found = self.ix.find_method(self.cls, e.func.attr)
            if found:
                fn = found[1]
                body = [s for s in fn.body if not (isinstance(s, ast.Expr) and isinstance(s.value, ast.Constant))]
                if len(body) == 1 and isinstance(body[0], ast.Return) and body[0].value is not None and not e.keywords:
                    names = [a.arg for a in fn.args.args][1:]
                    if len(names) >= len(e.args):
                        env2 = {n: self.ev(a, env) for n, a in zip(names, e.args)}
                        self.depth += 1
                        try:
                            return self.ev(body[0].value, env2)
                        finally:
                            self.depth -= 1
        return UNK

    # ---- statements
    def scan(self, node):
        for n in ast.walk(node):
            if isinstance(n, ast.Call) and self.is_site(n):
                self.reached = True

    def block(self, stmts, env):
        """-> True when every path through the block has left the function."""
        for s in stmts:
            if isinstance(s, ast.If):
                self.scan(s.test)
                t = self.truth(self.ev(s.test, env))
                if t is True:
                    if self.block(s.body, env):
                        return True
                elif t is False:
                    if self.block(s.orelse, env):
                        return True
                else:
                    e1, e2 = dict(env), dict(env)
                    d1, d2 = self.block(s.body, e1), self.block(s.orelse, e2)
                    if d1 and d2:
                        return True
                    if d1:
                        merged = e2
                    elif d2:
                        merged = e1
                    else:
                        merged = {k: e1[k] for k in e1 if k in e2 and (e1[k] is e2[k] or (isinstance(e1[k], (bool, str)) and e1[k] == e2[k] and type(e1[k]) is type(e2[k])))}
                    env.clear()
                    env.update(merged)
                continue
            if isinstance(s, (ast.For, ast.While, ast.With, ast.Try)):
                # bodies may or may not run: evaluate them on a copy for reachability, then forget what they assign
                for fld in ('body', 'orelse', 'finalbody'):
                    self.block(getattr(s, fld, []) or [], dict(env))
                for h in getattr(s, 'handlers', []) or []:
                    self.block(h.body, dict(env))
                for n in ast.walk(s):
                    if isinstance(n, ast.Name) and isinstance(n.ctx, ast.Store):
                        env.pop(n.id, None)
                continue
            if isinstance(s, ast.Assign) and len(s.targets) == 1 and isinstance(s.targets[0], ast.Name):
                self.scan(s.value)
                env[s.targets[0].id] = self.ev(s.value, env)
                continue
            self.scan(s)
            for n in ast.walk(s):
                if isinstance(n, ast.Name) and isinstance(n.ctx, ast.Store):
                    env.pop(n.id, None)
            if isinstance(s, (ast.Return, ast.Raise)):
                return True
        return False

    def run(self, fn):
        env = {}
        for a in fn.args.args[1:] + fn.args.kwonlyargs:
            env[a.arg] = self.param_values.get(a.arg, UNK)
        self.block(fn.body, env)
        return self.reached


def _attr_name(call):
    f = call.func
    if isinstance(f, ast.Attribute):
        return f.attr
    if isinstance(f, ast.Name):
        return f.id
    return ''


def _is_check_or_lookup(call):
    n = _attr_name(call)
    # put_error_if_unbound / error_goto* / put_error_if_neg: the emitted C tests the looked-up value (or the namespace call) and leaves through the error label
    return 'unbound' in n or n.startswith('error_goto') or n.startswith('put_error_if')


def emitters(ix, nn):
    out = []
    for name, fn in sorted(nn.methods.items()):
        if any(isinstance(x, ast.Call) and 'unbound' in _attr_name(x) for x in walk_no_nested(fn)):
            out.append((name, fn))
    return out


def evaluate(ix, nn, fn, valuation):
    params = {}
    for a in fn.args.args[1:] + fn.args.kwonlyargs:
        if 'ignore' in a.arg:           # generate_deletion_code(ignore_nonexisting): a plain `del`
            params[a.arg] = False
    return _Eval(ix, nn, valuation, _is_check_or_lookup, params).run(fn)


_PC = '''
class NameNode:
    def generate_result_code(self, code):
        entry = self.entry
        if entry is None:
            return
        if entry.is_pyclass_attr:
            code.putln(code.error_goto_if_null(self.result(), self.pos))
        elif entry.is_local or entry.in_closure:
            raise_unbound = (self.cf_maybe_null or self.cf_is_null) and not self.allow_null
            if raise_unbound and entry.type.is_pyobject:
                code.put_error_if_unbound(self.pos, entry)
'''


def rule_kinds(ctx, floor=8):
    ix = ctx.index
    r = Rule('C21-KINDS', 'every kind of variable ControlFlow.is_tracked tracks (kinds as Symtab creates them) reaches an emitted unbound check in every NameNode emitter '
             'when the analysis marks a reference maybe-unbound (three-valued partial evaluation of the emitters per kind)', floor=floor)
    nn = ix.cls('ExprNodes', 'NameNode')
    if nn is None:
        raise AnalysisError('ExprNodes.NameNode not found')
    atoms, tracked_fn = tracked_atoms(ctx)
    ks, unset = kinds(ctx, atoms)
    if not ks:
        raise AnalysisError('no write of a tracked entry kind found in Symtab.py')
    for a in unset:
        r.info('tracked attribute entry.%s is never set in Symtab.py (a modifier the analysis sets on existing entries): not evaluated as a kind' % a)
    ems = emitters(ix, nn)
    if len(ems) < 2:
        raise AnalysisError('fewer than two NameNode methods emit the unbound check (read and delete expected)')
    for key, line, val, what in ks:
        for name, fn in ems:
            ckey = 'NameNode.%s<-%s' % (name, key)
            ok = evaluate(ix, nn, fn, val)
            r.inst(ckey, sample='%s: %s -> unbound check %s' % (name, what, 'reachable' if ok else 'UNREACHABLE'))
            if not ok:
                true_attrs = sorted(k for k, v in val.items() if v is True)
                r.violate(ckey, nn.module.rel, fn.lineno,
                          'NameNode.%s emits no unbound check (and no checked run-time lookup) on any path for %s (entry with %s; Python object type; cf_maybe_null set by the '
                          'flow analysis): ControlFlow.is_tracked tracks this kind and `del` can unbind it, so the reference reads / releases a NULL variable instead of raising '
                          'UnboundLocalError (e.g. `def f(a, c): if c: del a; return a`)' % (name, what, ', '.join(true_attrs)))
    # positive control: an emitter whose kind dispatch forgets is_arg
    pc = ast.parse(_PC).body[0]
    pc_fn = pc.body[0]

    class _FakeIx:
        def find_method(self, c, n):
            return None
    bad = not _Eval(_FakeIx(), None, {'is_arg': True, 'is_local': False, 'in_closure': False, 'is_pyclass_attr': False}, _is_check_or_lookup).run(pc_fn)
    good = _Eval(_FakeIx(), None, {'is_arg': False, 'is_local': True, 'in_closure': False, 'is_pyclass_attr': False}, _is_check_or_lookup).run(pc_fn)
    r.positive_control(bad and good, 'kind dispatch without is_arg: no check for an argument, a check for a local')
    return r
