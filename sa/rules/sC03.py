"""C03-INPLACE: a statement node that emits a C compound assignment itself does not do so for a division operator on a C integer
target while the cdivision directive is off.

`a //= b`, `a %= b` (and `a /= b`) normally become `a = a <op> b` (ExpandInplaceOperators) and go through DivNode / ModNode: helper
call with floor adjustment, zero-division test.  The in-place node that survives that transform (buffer / memoryview element targets, C++
objects) is emitted as the plain C operator `lhs <op>= rhs` and thereby *bypasses* the whole DivNode family: C truncation instead of floor,
SIGFPE instead of ZeroDivisionError.  That is only legitimate when C semantics were requested.  Necessary condition decided here:

    for every operator that ExprNodes.binop_node_classes maps to the DivNode family, a C integer target (lhs.type.is_int, not an
    object) and the scoped directive cdivision == False, every path of <InPlace node>.generate_execution_code that hands the operator
    (or its C spelling) to an emitting call also reports a compile error (Errors.error; before or after, the error only fails the run at the end).

Technique: the generator method is interpreted by the checker's own whitelisted evaluator (rules/pC02.Ev, nothing from /repo is imported or
run) for each division operator; the premise is supplied as a record (`self.operator`, `self.lhs.type.is_int` ...,
`code.globalstate.directives['cdivision']`), every other test forks both ways, so the enumeration covers the complete valuation domain
of the method's tests.  The events of a path are the calls of Errors.error and the calls that receive an operator-valued argument."""
import ast

from ..core import Rule, AnalysisError, node_src
from ..engine import pyflow
from . import pC02 as P2
from . import pC04 as P4

RID = 'C03-INPLACE'
NODE_CLASS = ('Nodes', 'InPlaceAssignmentNode')
METHOD = 'generate_execution_code'
DIV_BASE = ('ExprNodes', 'DivNode')
MAX_PATHS = 4000

# constructs with a reported, not yet recorded defect of the unmodified tree (see /tmp/strengthen/G2/FINDING_1.md): reported through
# r.info() instead of r.violate() until the finding is recorded in known_findings.txt / fixed.        # pending finding
PENDING = {}      # the one pending construct (`structbuf[i].field //= b`) was repaired in /repo (8cf270df4) and is armed now


class _Fork(Exception):
    def __init__(self, key):
        self.key = key



def div_operators(ix):
    base = ix.cls(*DIV_BASE)
    fam = {base} | set(ix.subclasses(base))
    tab = P4.table_classes(ix, 'ExprNodes', 'binop_node_classes')
    ops = sorted(op for op, c in tab.items() if c is not None and c in fam and isinstance(op, str))
    if not ops:
        raise AnalysisError('ExprNodes.binop_node_classes maps no operator to the DivNode family')
    return ops


def _callee_text(c):
    f = c.func
    if isinstance(f, ast.Attribute):
        return f.attr
    if isinstance(f, ast.Name):
        return f.id
    return node_src(f, 40)


def _is_error_call(c):
    f = c.func
    return (isinstance(f, ast.Name) and f.id == 'error') or (isinstance(f, ast.Attribute) and f.attr == 'error' and isinstance(f.value, ast.Name) and f.value.id == 'Errors')


def run_paths(fn, env0, op_values):
    """[(events, atoms)] for every path of fn.  events: ('error', line) | ('emit', callee, operator value, line, call node)."""
    results = []

    def run_path(decisions):
        env = dict(env0)
        atoms = dict(decisions)
        events = []

        def on_atom(t, n):
            raise _Fork(t)
        ev = P2.Ev(env, atoms=atoms, symbols=True, on_atom=on_atom)

        def value(n):
            try:
                return ev.ev(n)
            except P2.Unknown:
                return P2.UNKNOWN

        def carried(arg):
            v = value(arg)
            if isinstance(v, str) and v in op_values:
                return v
            if isinstance(arg, ast.Constant):
                return None
            for x in ast.walk(arg):
                if isinstance(x, (ast.Name, ast.Attribute)) and not isinstance(x, ast.Constant):
                    v = value(x)
                    if isinstance(v, str) and v in op_values:
                        return v
            return None

        def scan_calls(node):
            for c in pyflow.calls_in(node):
                if _is_error_call(c):
                    events.append(('error', c.lineno))
                    continue
                got = None
                for a in list(c.args) + [k.value for k in c.keywords]:
                    got = got or carried(a.value if isinstance(a, ast.Starred) else a)
                if got is None:
                    continue
                f = c.func
                if isinstance(f, ast.Attribute) and isinstance(f.value, ast.Name) and f.value.id == fn.args.args[0].arg:
                    raise AnalysisError('%s passes the operator to its own method %s(): helper methods of the in-place node are not modelled by %s'
                                        % (fn.name, f.attr, RID))
                if isinstance(f, ast.Attribute) and isinstance(f.value, ast.Constant):
                    continue        # a string method such as "...".format(op): the enclosing emitting call is reported instead
                events.append(('emit', _callee_text(c), got, c.lineno, c))

        def bind(t, v):
            if isinstance(t, ast.Name):
                env[t.id] = v
            elif isinstance(t, (ast.Tuple, ast.List)):
                if isinstance(v, (tuple, list)) and len(v) == len(t.elts):
                    for x, y in zip(t.elts, v):
                        bind(x, y)
                else:
                    for x in ast.walk(t):
                        if isinstance(x, ast.Name):
                            env[x.id] = P2.UNKNOWN

        def block(stmts):
            for s in stmts:
                if isinstance(s, ast.If):
                    r = block(s.body if ev.truth(s.test) else s.orelse)
                    if r is not None:
                        return r
                elif isinstance(s, ast.Return):
                    if s.value is not None:
                        scan_calls(s.value)
                    return 'return'
                elif isinstance(s, ast.Raise):
                    return 'raise'
                elif isinstance(s, ast.Assign):
                    scan_calls(s.value)
                    if isinstance(s.value, ast.Tuple):
                        v = tuple(value(x) for x in s.value.elts)
                    else:
                        v = value(s.value)
                    for t in s.targets:
                        bind(t, v)
                elif isinstance(s, ast.AugAssign):
                    scan_calls(s.value)
                    if isinstance(s.target, ast.Name):
                        env[s.target.id] = P2.UNKNOWN
                elif isinstance(s, ast.AnnAssign):
                    if s.value is not None:
                        scan_calls(s.value)
                        bind(s.target, value(s.value))
                elif isinstance(s, ast.Expr):
                    scan_calls(s.value)
                elif isinstance(s, (ast.Pass, ast.Import, ast.ImportFrom, ast.Assert, ast.Global, ast.Nonlocal)):
                    continue
                else:
                    raise AnalysisError('%s: statement kind %s is outside the subset %s can interpret' % (fn.name, type(s).__name__, RID))
            return None
        block(fn.body)
        return events, atoms

    todo = [dict()]
    n = 0
    while todo:
        d = todo.pop()
        n += 1
        if n > MAX_PATHS:
            raise AnalysisError('%s: more than %d paths' % (fn.name, MAX_PATHS))
        try:
            results.append(run_path(d))
        except _Fork as f:
            for b in (False, True):
                d2 = dict(d)
                d2[f.key] = b
                todo.append(d2)
    return results


def premise_env(fn, op, cdivision=False, is_int=True):
    if len(fn.args.args) < 2:
        raise AnalysisError('%s has no code parameter' % fn.name)
    selfname, codename = fn.args.args[0].arg, fn.args.args[1].arg
    typ = P2.Obj(is_int=is_int, is_pyobject=False, is_cpp_class=False, is_float=False, is_error=False)
    lhs = P2.Obj(type=typ)
    node = P2.Obj(operator=op, lhs=lhs, rhs=P2.Obj(), pos=P2.Sym('pos'))
    code = P2.Obj(globalstate=P2.Obj(directives={'cdivision': cdivision}))
    return {selfname: node, codename: code}


def unguarded_emissions(fn, op, op_values):
    """{callee: (line, atoms of a witness path)} for emissions of a division operator that no error() call precedes on some path,
    and the set of all emitting callees seen."""
    bad, seen = {}, set()
    for events, atoms in run_paths(fn, premise_env(fn, op), op_values):
        # Errors.error() only records the error, the compilation fails at the end of the pipeline: its position relative to the emission is irrelevant
        err = any(e[0] == 'error' for e in events)
        for e in events:
            if e[0] == 'emit':
                seen.add(e[1])
                if not err and e[1] not in bad:
                    bad[e[1]] = (e[3], e[2], {k: v for k, v in atoms.items()})
    return bad, seen


POSITIVE = '''
def generate_execution_code(self, code):
    lhs, rhs = self.lhs, self.rhs
    operator = self.operator
    c_op = "/" if operator == "//" else operator
    if lhs.is_buffer_access:
        if operator in ('/', '%') and lhs.type.is_int and not code.globalstate.directives['cdivision']:
            error(self.pos, "not allowed")
        lhs.generate_buffer_setitem_code(rhs, code, c_op)
'''


def rule_inplace(ctx, floor=4):
    ix = ctx.index
    r = Rule(RID, 'an in-place statement node never hands a DivNode-family operator on a C integer target to a C-emitting call with cdivision off '
                  'unless it reports a compile error on the same path (the plain C `op=` bypasses the floor adjustment and the zero-division test)', floor)
    cls = ix.cls(*NODE_CLASS)
    if cls is None:
        raise AnalysisError('%s.%s vanished' % NODE_CLASS)
    hit = ix.find_method(cls, METHOD)
    if hit is None:
        raise AnalysisError('%s has no %s' % (cls.qual, METHOD))
    owner, fn = hit
    ops = div_operators(ix)
    op_values = set(ops) | {'/', '%'}
    any_emit = False
    per_site = {}
    for op in ops:
        bad, seen = unguarded_emissions(fn, op, op_values)
        any_emit |= bool(seen)
        for callee in sorted(seen):
            key = '%s.%s:emit:%s' % (owner.qual, METHOD, callee)
            r.inst(key + ':' + op, sample='%s for operator %r' % (key, op))
            if callee in bad:
                per_site.setdefault((key, callee), []).append((op,) + bad[callee])
    for (key, callee), lst in sorted(per_site.items()):
        op, line, val, atoms = lst[0]
        when = ', '.join('%s is %s' % kv for kv in sorted(atoms.items())) or 'always'
        msg = ('%s.%s hands the C operator %s (source operator %s) to %s() for a C integer target although the cdivision directive is off and no '
               'compile error is reported on that path (%s): the statement is emitted as the plain C `%s=`, which truncates towards zero '
               '(-7 //= 2 gives -3, -7 %%= 2 gives -1) and divides by zero without raising ZeroDivisionError'
               % (owner.qual, METHOD, '/'.join(repr(x[2]) for x in lst), ', '.join(repr(x[0] + '=') for x in lst), callee, when, val))
        if key in PENDING:
            r.info('pending finding, not reported as violation: %s [%s]' % (PENDING[key], msg))        # pending finding
        else:
            r.violate(key, owner.module.rel, line, msg)
    if not any_emit:
        raise AnalysisError('%s.%s no longer passes its operator to any emitting call: %s cannot see how in-place operators are generated' % (owner.qual, METHOD, RID))
    pcf = ast.parse(POSITIVE).body[0]
    got = {op: sorted(unguarded_emissions(pcf, op, {'/', '//', '%'})[0]) for op in ('/', '//', '%')}
    r.positive_control(got == {'/': [], '//': ['generate_buffer_setitem_code'], '%': []}, "guard tests the source operator, so '//' slips through")
    return r


# ====================================================================================================================================
# C03-GUARD: the run-time guards the DivNode family emits in front of its PyErr_SetString calls are the mathematical conditions
# C03-RAISE: every emitted raise is followed by the error jump and, inside nogil code, bracketed by the GIL
# ====================================================================================================================================
"""(C03-GUARD)  generate_div_warning_code emits C text of the shape

        if (<zero test of the divisor>) { PyErr_SetString(PyExc_ZeroDivisionError ...); goto error; }
        else if (<constant part> && <divisor == -1> && <__Pyx_UNARY_NEG_WOULD_OVERFLOW(dividend)>) { PyErr_SetString(PyExc_OverflowError ...) ... }

Each guard is extracted as a C condition over the *roles* dividend a, divisor b, result type T, divisor type T2 (locals and alternative
assignments of a template variable are followed; every alternative is an instance), the macros it uses are taken from the utility
catalogue, and the condition is evaluated by the checker's typed C evaluator (rules/pC03.py: promotions, conversions, casts) as a truth
table over  T in {int, long, long long} x {ILP32, LP64, LLP64} x the complete boundary partition of (a, b):

    ZeroDivisionError guard:  true  <=>  b == 0
    OverflowError guard:      true   =>  a == MIN(T) and b == -1        (C03: every quotient that fits is delivered, e.g. 0 // -1, MIN // 1)
                              and it is emitted only for operators whose quotient can overflow, i.e. not for '%' (path condition)
    (C04 reads the converse from the same table: where the compile-time part of the guard holds, guard(MIN, -1) is true.)

(C03-RAISE)  after every emitted PyErr_SetString the error jump (code.error_goto / put_goto(error_label)) is emitted before the block is
closed, and on paths on which `in_nogil` holds the raise lies between put_ensure_gil() and put_release_ensured_gil()."""
import re

from ..engine.pyindex import walk_no_nested, is_self_attr
from ..engine import cexpr
from ..engine.cutil import strip_c_comments
from .iface import str_template, PLACEHOLDER, local_env
from . import pC03 as MC

GUARD_RID = 'C03-GUARD'
RAISE_RID = 'C03-RAISE'
ROLE_T, ROLE_T2, ROLE_A, ROLE_B = 'sa_res_t', 'sa_op2_t', 'sa_a', 'sa_b'
TYPE_SPELLING = r"(?:empty_declaration_code\(\)|declaration_code\((?:''|\"\")\)|sign_and_name\(\))"
DATA_MODELS = {'ILP32': (32, 32), 'LP64': (64, 64), 'LLP64': (32, 64)}       # bits of long, of size_t
RESULT_TYPES = ('int', 'long', 'long long')


class _Unmodelled(Exception):
    pass


class _Skipped(str):
    """an alternative of a template variable that could not be rendered (carried along so that it is reported as not decided)"""


def _role(src):
    src = src.replace(' ', '')
    if re.fullmatch(r'self\.type\.' + TYPE_SPELLING, src):
        return ROLE_T
    if re.fullmatch(r'self\.operand2\.type\.' + TYPE_SPELLING, src):
        return ROLE_T2
    if src == 'self.operand1.result()':
        return ROLE_A
    if src == 'self.operand2.result()':
        return ROLE_B
    return None


def render(node, env, depth=0, resolver=None):
    """alternative C texts of an emitted-string expression, dynamic parts replaced by role names; raises _Unmodelled.
    resolver(method name) -> FunctionDef of a method of the node class that builds a piece of text (its return values are the alternatives)"""
    if depth > 5:
        raise _Unmodelled('template nesting too deep')
    if resolver is not None and isinstance(node, ast.Call) and isinstance(node.func, ast.Attribute) and isinstance(node.func.value, ast.Name) \
            and node.func.value.id == 'self' and not node.args and not node.keywords and _role(ast.unparse(node)) is None:
        m = resolver(node.func.attr)
        if m is not None:
            menv = local_env(m)
            out, errs = [], []
            for n2 in walk_no_nested(m):
                if isinstance(n2, ast.Return) and n2.value is not None:
                    try:
                        out += render(n2.value, menv, depth + 1, resolver)
                    except _Unmodelled as u:
                        errs.append(str(u))
            if out:
                return out + [_Skipped(e) for e in errs]
    if isinstance(node, ast.Name):
        vals = env.get(node.id)
        if not vals:
            raise _Unmodelled('local %s has no simple assignment' % node.id)
        out, errs = [], []
        for v in vals:
            try:
                out += render(v, env, depth + 1, resolver)
            except _Unmodelled as u:
                errs.append(str(u))
        if not out:
            raise _Unmodelled('; '.join(errs))
        for e in errs:
            out.append(_Skipped(e))
        return out
    role = _role(ast.unparse(node))
    if role:
        return [role]
    t = str_template(node)
    if t is None:
        raise _Unmodelled('`%s` is neither emitted text nor one of the roles dividend / divisor / result type / divisor type' % node_src(node, 60))
    text, phs = t
    alts = ['']
    parts = text.split(PLACEHOLDER)
    for i, p in enumerate(parts):
        alts = [a if isinstance(a, _Skipped) else a + p for a in alts]
        if i < len(phs):
            if phs[i] is None:
                raise _Unmodelled('format argument missing')
            sub = render(phs[i], env, depth + 1, resolver)
            alts = [(s if isinstance(s, _Skipped) else a if isinstance(a, _Skipped) else a + s) for a in alts for s in sub]
            if len(alts) > 32:
                raise _Unmodelled('too many alternatives')
    return alts


def _emission(stmt):
    """the template node of `code.putln(x)` / `code.put(x)` statements"""
    if isinstance(stmt, ast.Expr) and isinstance(stmt.value, ast.Call) and isinstance(stmt.value.func, ast.Attribute) \
            and stmt.value.func.attr in ('putln', 'put') and stmt.value.args:
        return stmt.value.args[0]
    return None


def _const_text(node):
    return ''.join(x.value for x in ast.walk(node) if isinstance(x, ast.Constant) and isinstance(x.value, str))


def raise_sites(fn):
    """[(exception name, raise statement, guard statement or None, enclosing statement list)] for emitted PyErr_SetString(PyExc_X ...)"""
    out = []
    for holder in ast.walk(fn):
        for field in ('body', 'orelse', 'finalbody'):
            lst = getattr(holder, field, None)
            if not isinstance(lst, list):
                continue
            for i, st in enumerate(lst):
                tpl = _emission(st)
                if tpl is None:
                    continue
                m = re.search(r'PyErr_SetString\(\s*PyExc_(\w+)', _const_text(tpl))
                if not m:
                    continue
                guard = None
                for prev in reversed(lst[:i]):
                    pt = _emission(prev)
                    if pt is not None and re.search(r'\bif\b', _const_text(pt)):
                        guard = prev
                        break
                    if pt is not None and '}' in _const_text(pt):
                        break
                out.append((m.group(1), st, guard, lst))
    return out


def _condition(text):
    m = re.search(r'\bif\s*\(', text)
    if not m:
        raise _Unmodelled('no `if (` in the guard text %r' % text[:60])
    rp = MC.match_paren(text, m.end() - 1)
    if rp < 0:
        raise _Unmodelled('unbalanced guard text %r' % text[:60])
    return ' '.join(text[m.end():rp].split())


def _conjuncts(e):
    while e[0] == 'call' and e[1] in ('likely', 'unlikely') and len(e[2]) == 1:
        e = e[2][0]
    if e[0] == 'bin' and e[1] == '&&':
        return _conjuncts(e[2]) + _conjuncts(e[3])
    return [e]


def _mentions_value(e):
    return any(x[0] == 'id' and x[1] in (ROLE_A, ROLE_B) for x in cexpr.walk(e))


def boundary(bits, signed=True):
    s = set(range(-3, 4))
    for p in (7, 8, 15, 16, 31, 32, 63, 64):
        for d in (-2, -1, 0, 1, 2):
            s.add((1 << p) + d)
            s.add(-(1 << p) + d)
    lo, hi = MC.lo_hi(bits, signed)
    s |= {lo, lo + 1, lo + 2, hi - 2, hi - 1, hi, lo // 2, hi // 2}
    return sorted(v for v in s if lo <= v <= hi)


def guard_macros(ctx, cond):
    defs = {}
    todo = set(re.findall(r'\b(__P[Yy][Xx]_\w+)\s*\(', cond))
    while todo:
        name = todo.pop()
        if name in defs:
            continue
        ds = [d for d in ctx.cat.decls.get(name, []) if d.kind == 'macro']
        if len(ds) != 1:
            raise AnalysisError('%s: macro %s used by an emitted guard has %d definitions in Cython/Utility' % (GUARD_RID, name, len(ds)))
        body = ' '.join((ds[0].body or '').replace('\\\n', ' ').split())
        defs[name] = ([p.strip() for p in (ds[0].params or [])], body)
        todo |= set(re.findall(r'\b(__P[Yy][Xx]_\w+)\s*\(', body))
    return defs


def guard_table(ctx, cond, defs, op2_signed_only=False):
    """evaluate the guard condition over types x data models x boundary pairs.
    -> list of rows (model, T, a, b, value | 'UB:<msg>', live) ; live = truth of the conjuncts that mention neither a nor b"""
    rows = []
    cache = {}
    for mname, (lbits, pbits) in DATA_MODELS.items():
        base = {'char': (8, True), 'short': (16, True), 'int': (32, True), 'long': (lbits, True), 'long long': (64, True),
                'size_t': (pbits, False), 'Py_ssize_t': (pbits, True)}
        for tname in RESULT_TYPES:
            t = base[tname]
            types = dict(base)
            types[ROLE_T] = t
            types[ROLE_T2] = t
            model = MC.Model(types, mname)
            it = MC.Interp(model, {}, defs, {}, cache)
            e = it.parse(cond)
            static = [c for c in _conjuncts(e) if not _mentions_value(c)]
            try:
                live = all(it.ev(c, [{}])[0] for c in static)
            except MC.CUndefined as u:
                rows.append((mname, tname, None, None, 'UB:%s' % u, True))
                continue
            dom = boundary(t[0])
            for a in dom:
                for b in (dom[0], -2, -1, 0, 1, 2, dom[-1]):
                    env = [{ROLE_A: (a, t[0], True), ROLE_B: (b, t[0], True)}]
                    try:
                        v = bool(it.ev(e, env)[0])
                    except MC.CUndefined as u:
                        v = 'UB:%s' % u
                    rows.append((mname, tname, a, b, v, live))
    return rows


def guard_problems(kind, rows):
    """[(key suffix, message)] for one guard; kind: ZeroDivisionError | OverflowError"""
    out = []
    for mname, tname, a, b, v, live in rows:
        if isinstance(v, str):
            out.append(('undefined', 'evaluating the guard for (%s) dividend %s, divisor %s on %s is itself undefined behaviour: %s' % (tname, a, b, mname, v[3:])))
            break
    for mname, tname, a, b, v, live in rows:
        if isinstance(v, str) or a is None:
            continue
        bits = {'int': 32, 'long': DATA_MODELS[mname][0], 'long long': 64}[tname]
        tmin = -(1 << (bits - 1))
        if kind == 'ZeroDivisionError':
            if v != (b == 0):
                out.append(('zero-test', 'for a %s divisor %d (%s) the emitted zero test is %s: %s' % (
                    tname, b, mname, v, 'a non-zero divisor raises ZeroDivisionError' if v else 'a zero divisor reaches the C division (SIGFPE)')))
                break
        elif kind == 'OverflowError':
            if b == 0:
                continue        # the guard is the else-branch of the zero test
            if v and not (a == tmin and b == -1):
                q = a // b
                out.append(('spurious', 'for the %s operands %d // %d on %s the guard is true although the quotient %d fits the type: OverflowError("value too large to perform division") '
                                        'is raised instead of delivering %d' % (tname, a, b, mname, q, q)))
                break
    return out


def detect_problems(rows):
    """C04 direction: where the compile-time part of the guard holds, (MIN, -1) must be intercepted"""
    out = []
    for mname, tname, a, b, v, live in rows:
        if a is None or isinstance(v, str) or not live:
            continue
        bits = {'int': 32, 'long': DATA_MODELS[mname][0], 'long long': 64}[tname]
        if a == -(1 << (bits - 1)) and b == -1 and not v:
            out.append(('undetected', 'for the %s operands MIN // -1 on %s the compile-time part of the guard holds but the guard as a whole is false: the C division '
                                      'overflows (SIGFPE on x86) instead of raising OverflowError' % (tname, mname)))
            break
    return out


def _family_methods(ix, name):
    base = ix.cls(*DIV_BASE)
    fam = [base] + list(ix.subclasses(base))
    return [(c, c.methods[name]) for c in fam if name in c.methods]


def collect_guards(ctx):
    """[(owner class, fn, exception, raise stmt, [(variant index, cond text)] or ('unmodelled', why))]"""
    ix = ctx.index
    out = []
    for c, fn in _family_methods(ix, 'generate_div_warning_code'):
        fn = inline_self_calls(ix, c, fn)
        env = local_env(fn)
        for exc, st, guard, lst in raise_sites(fn):
            if guard is None:
                out.append((c, fn, exc, st, ('unmodelled', 'no emitted `if (...)` precedes the raise in its block')))
                continue
            def resolver(name, c=c):
                hit = ix.find_method(c, name)
                return hit[1] if hit is not None and hit[0].name not in ('ExprNode', 'Node') else None
            try:
                texts = render(_emission(guard), env, 0, resolver)
                conds = []
                for t in texts:
                    cnd = t if isinstance(t, _Skipped) else _condition(t)
                    if cnd not in conds:
                        conds.append(cnd)
                out.append((c, fn, exc, st, [(i, cnd) for i, cnd in enumerate(conds)]))
            except _Unmodelled as u:
                out.append((c, fn, exc, st, ('unmodelled', str(u))))
    return out


GUARD_POSITIVE = '''
def generate_div_warning_code(self, code):
    zero_test = "%s <= 0" % self.operand2.result()
    code.putln("if (unlikely(%s)) {" % zero_test)
    code.putln('PyErr_SetString(PyExc_ZeroDivisionError, "x");')
    code.putln(code.error_goto(self.pos))
    code.putln("}")
    code.putln("else if (sizeof(%s) == sizeof(long) && unlikely(%s == -1) && unlikely(((unsigned long)(%s) == 0-(unsigned long)(%s)))) {" % (
        self.type.empty_declaration_code(), self.operand2.result(), self.operand1.result(), self.operand1.result()))
    code.putln('PyErr_SetString(PyExc_OverflowError, "x");')
    code.putln("}")
'''


def rule_guard(ctx, floor=3, direction='C03'):
    rid = GUARD_RID if direction == 'C03' else 'C04-MINGUARD'
    desc = ('the emitted zero-division guard is true exactly for a zero divisor; the emitted OverflowError guard is true only for MIN // -1 and is not emitted for %'
            if direction == 'C03' else
            'wherever the compile-time part of the emitted MIN / -1 guard holds, the guard as a whole intercepts (MIN, -1): divisor and dividend are tested in their roles')
    r = Rule(rid, desc + ' (truth table over int/long/long long x ILP32/LP64/LLP64 x the boundary partition of the operands)', floor)
    rel = 'Cython/Compiler/ExprNodes.py'
    any_site = False
    for c, fn, exc, st, conds in collect_guards(ctx):
        if exc not in ('ZeroDivisionError', 'OverflowError') or (direction == 'C04' and exc != 'OverflowError'):
            continue
        any_site = True
        base_key = '%s.%s:%s' % (c.qual, fn.name, exc)
        if isinstance(conds, tuple):
            # a guard text this rule cannot model (e.g. the complex-number zero test built from unary_op('zero')) is not decided here
            r.info('%s: guard not modelled (%s)' % (base_key, conds[1]))
            continue
        for i, cond in conds:
            key = base_key if len(conds) == 1 else '%s#%d' % (base_key, i)
            if isinstance(cond, _Skipped):
                r.info('%s: one alternative of the guard text is not modelled and not decided (%s)' % (key, cond))
                continue
            r.inst(key, sample='%s: if (%s)' % (key, cond[:110]))
            defs = guard_macros(ctx, cond)
            try:
                rows = guard_table(ctx, cond, defs)
            except MC.Unsupported as u:
                raise AnalysisError('%s: cannot evaluate the emitted guard `%s`: %s' % (rid, cond[:80], u))
            probs = guard_problems(exc, rows) if direction == 'C03' else detect_problems(rows)
            for k, msg in probs:
                r.violate('%s:%s' % (key, k), rel, st.lineno, '%s.%s guards its %s with `if (%s)` (a = dividend, b = divisor, %s = result type): %s'
                          % (c.qual, fn.name, exc, cond.replace(ROLE_A, 'a').replace(ROLE_B, 'b'), ROLE_T, msg))
        if direction == 'C03' and exc == 'OverflowError':
            # path condition: never for '%'
            from . import pC02 as P
            target = st.value
            for tnode, pc in P.path_conditions(fn, lambda n: n is target):
                tests = [t for t, _ in pc]
                typed = {'self.operator': ['%']}
                reach = False
                try:
                    for subst, av, vals in P.truth_table(tests, typed):
                        if P.conj_holds(pc, vals):
                            reach = True
                            break
                except P.Unknown:
                    reach = False
                key = base_key + ':operator'
                r.inst(key, sample='%s: OverflowError emission under %s' % (key, [node_src(t, 40) for t in tests][:4]))
                if reach:
                    r.violate(key, rel, st.lineno, "%s.%s emits its OverflowError guard also when self.operator == '%%': MIN %% -1 is 0 and fits every type, "
                                                   "but the guard raises OverflowError(\"value too large to perform division\") for it" % (c.qual, fn.name))
    if not any_site:
        raise AnalysisError('%s: no emitted PyErr_SetString guard found in the DivNode family' % rid)
    pcf = ast.parse(GUARD_POSITIVE).body[0]
    env = local_env(pcf)
    got = {}
    for exc, st, guard, lst in raise_sites(pcf):
        cnd = _condition(render(_emission(guard), env)[0])
        rows = guard_table(ctx, cnd, {})
        got[exc] = sorted(k for k, _ in guard_problems(exc, rows)) + sorted(k for k, _ in detect_problems(rows))
    r.positive_control(got == {'ZeroDivisionError': ['zero-test'], 'OverflowError': ['spurious']}, '`b <= 0` as zero test; negation test without the sign conjunct (0 // -1)')
    return r


# ------------------------------------------------------------------------------------------------------------------------------ RAISE
def raise_protocol(fn):
    """[(kind, line, message)] : 'no-jump' | 'no-gil' | 'gil-held'"""
    probs = []
    # only methods that deal with nogil sections at all (they read in_nogil_context or acquire the GIL somewhere) are held to the bracket
    handles_nogil = any((isinstance(n, ast.Attribute) and n.attr in ('in_nogil_context', 'put_ensure_gil')) for n in ast.walk(fn))

    def emitted(call):
        return _const_text(call.args[0]) if call.args else ''

    def tr(node, state):
        s = set(state)
        for c in pyflow.calls_in(node):
            f = c.func
            if not isinstance(f, ast.Attribute):
                continue
            if f.attr == 'put_ensure_gil':
                s.add('gil')
            elif f.attr == 'put_release_ensured_gil':
                s.discard('gil')
            elif f.attr in ('error_goto', 'put_goto', 'put_error_if_neg', 'error_goto_if', 'error_goto_if_null', 'error_goto_if_neg'):
                s = {x for x in s if not (isinstance(x, tuple) and x[0] == 'pending')}
            elif f.attr in ('putln', 'put'):
                txt = emitted(c)
                if 'PyErr_SetString' in txt or 'PyErr_Format' in txt:
                    nogil = None
                    for fact in state:
                        if isinstance(fact, tuple) and fact[0] == '?' and fact[1] in ('in_nogil', 'self.in_nogil_context'):
                            nogil = fact[2]
                    if nogil is not False and 'gil' not in s and handles_nogil:
                        s.add(('nogil-raise', c.lineno, True))
                    s.add(('pending', c.lineno))
                elif txt.strip().startswith('}'):
                    for x in list(s):
                        if isinstance(x, tuple) and x[0] == 'pending':
                            s.discard(x)
                            s.add(('no-jump', x[1]))
        return frozenset(s)
    o = pyflow.Flow(tr).run(fn)
    seen = set()
    for st in o.normal | o.returns:
        for x in st:
            if isinstance(x, tuple) and x[0] in ('no-jump', 'pending') and ('j', x[1]) not in seen:
                seen.add(('j', x[1]))
                probs.append(('no-jump', x[1], 'the PyErr_SetString emitted at line %d is not followed by an error jump (code.error_goto / put_goto) before its block is closed: '
                                               'the exception is set but execution continues into the C division' % x[1]))
            if isinstance(x, tuple) and x[0] == 'nogil-raise' and x[2] is True and ('g', x[1]) not in seen:
                seen.add(('g', x[1]))
                probs.append(('no-gil', x[1], 'on a path on which in_nogil can be true the PyErr_SetString emitted at line %d is not preceded by code.put_ensure_gil(): the exception is raised without holding the GIL' % x[1]))
        if 'gil' in st and ('h', 0) not in seen:
            seen.add(('h', 0))
            probs.append(('gil-held', fn.lineno, 'a path leaves the method after put_ensure_gil() without put_release_ensured_gil(): the generated nogil code keeps the GIL state it acquired for raising'))
    return probs


RAISE_POSITIVE = '''
def generate_div_warning_code(self, code):
    in_nogil = self.in_nogil_context
    code.putln("if (unlikely(%s == 0)) {" % self.operand2.result())
    code.putln('PyErr_SetString(PyExc_ZeroDivisionError, "x");')
    if in_nogil:
        code.put_release_ensured_gil()
    code.putln("}")
'''


def rule_raise(ctx, floor=4):
    ix = ctx.index
    r = Rule(RAISE_RID, 'every PyErr_SetString the DivNode family emits is followed by the error jump before its block closes and, under in_nogil, lies between '
                        'put_ensure_gil() and put_release_ensured_gil()', floor)
    rel = 'Cython/Compiler/ExprNodes.py'
    n = 0
    for c, fn in _family_methods(ix, 'generate_div_warning_code') + _family_methods(ix, 'generate_evaluation_code'):
        fn = inline_self_calls(ix, c, fn)
        sites = [s for s in raise_sites(fn)]
        if not sites:
            continue
        for exc, st, guard, lst in sites:
            n += 1
            r.inst('%s.%s:%s' % (c.qual, fn.name, exc), sample='%s.%s raises %s (line %d)' % (c.qual, fn.name, exc, st.lineno))
        for kind, line, msg in raise_protocol(fn):
            r.violate('%s.%s:%s' % (c.qual, fn.name, kind), rel, line, '%s.%s: %s' % (c.qual, fn.name, msg))
    if not n:
        raise AnalysisError('%s: the DivNode family emits no PyErr_SetString any more' % RAISE_RID)
    pc = {k for k, _l, _m in raise_protocol(ast.parse(RAISE_POSITIVE).body[0])}
    r.positive_control(pc == {'no-jump', 'no-gil'}, 'raise without error jump and without put_ensure_gil on the nogil path')
    return r


# ====================================================================================================================================
# C03-HELPERS: the // and % helpers return the floor quotient / the remainder with the divisor's sign (bounded model check)
# ====================================================================================================================================
"""(C03-HELPERS)  CMath.c::DivInt / ModInt / ModFloat and their declared copies inside Optimize.c::PyLongBinop
are width-parametric (premise checked: no integer literal other than 0 and 1, the width only comes from the substituted type).  The helper
text is evaluated by the checker's C interpreter (rules/pC03.py) for ALL operand pairs (a, b != 0) of a 4-bit signed model type and both
values of b_is_constant and compared with the definition of Python's // and %:  q = floor(a / b),  r = a - q*b.  The pair (MIN, -1) is
exempt for // (its quotient does not fit; the guard emitted by DivNode is C03-GUARD's and C04's business) but NOT for %, whose result 0
fits: executing the C `%` there is undefined behaviour (SIGFPE on x86) and is reported.  ModFloat is evaluated on the integer-valued points
of the same grid with fmod() modelled as the truncated remainder (for such points it is)."""

HELPERS_RID = 'C03-HELPERS'
HW = 4


def _hmodel(signed=True, wide=False):
    W = 2 * HW if wide else HW
    return MC.Model({'char': (W, True), 'short': (W, True), 'int': (W, True), 'long': (W, True), 'long long': (W, True), 'size_t': (W, False),
                     'sa_t': (W, signed)}, '%d-bit model' % W)


def _fmod_hook(it, args, env):
    a, b = it._int(it.ev(args[0], env)), it._int(it.ev(args[1], env))
    if b[0] == 0:
        raise MC.CUndefined('fmod(x, 0)')
    q = abs(a[0]) // abs(b[0]) * (1 if (a[0] < 0) == (b[0] < 0) else -1)
    return (a[0] - q * b[0], a[1], a[2])


def _ident_hook(it, args, env):
    return it.ev(args[0], env)


def helper_eval(text, fname, kind, extra_params=(), wide=False, skip_min=True, skip_pairs=()):
    """evaluate function `fname` of instantiated C `text` on the whole grid; kind: 'div' | 'mod' | 'divmod'.  -> (pairs, problem or None)"""
    funcs = MC.functions(text)
    if fname not in funcs:
        raise AnalysisError('%s: %s not found in the instantiated helper text' % (HELPERS_RID, fname))
    f = funcs[fname]
    model = _hmodel(True, wide)
    hooks = {'fmod': _fmod_hook, 'fmodf': _fmod_hook, 'fmodl': _fmod_hook, 'PyLong_FromLong': _ident_hook, 'PyLong_FromLongLong': _ident_hook}
    cache = {}
    lo, hi = MC.lo_hi(HW, True)
    n = 0
    for extra in (extra_params or [()]):
        it = MC.Interp(model, funcs, {}, hooks, cache)
        for a in range(lo, hi + 1):
            for b in range(lo, hi + 1):
                if b == 0:
                    continue
                q, r = a // b, a % b
                if kind in ('div', 'divmod') and not MC.fits(q, HW, True) and skip_min:
                    continue
                if (a, b) in skip_pairs:
                    continue
                n += 1
                W = 2 * HW if wide else HW
                args = [(a, W, True), (b, W, True)] + [(x, W, True) for x in extra]
                where = '%s(%d, %d%s)' % (fname, a, b, ''.join(', %d' % x for x in extra))
                try:
                    it.steps = 0
                    v = it.call_func(f, args)
                except MC.CUndefined as u:
                    return n, ('undefined', '%s executes undefined behaviour in C: %s (Python: %d // %d == %d, %d %% %d == %d)' % (where, u, a, b, q, a, b, r))
                except MC.Goto as g:
                    raise AnalysisError('%s: goto in %s' % (HELPERS_RID, fname))
                if kind == 'divmod':
                    got = tuple(x[0] for x in v) if isinstance(v, tuple) and v and isinstance(v[0], tuple) else None
                    if got != (q, r):
                        return n, ('value', '%s returns %s, Python semantics need (%d, %d)' % (where, got, q, r))
                    continue
                want = q if kind == 'div' else r
                if v is None or v[0] != want:
                    return n, ('value', '%s returns %s, Python semantics need %d (floor quotient %d, remainder %d with the sign of the divisor)'
                               % (where, None if v is None else v[0], want, q, r))
    return n, None


HELPERS_POSITIVE = '''
static CYTHON_INLINE sa_t __Pyx_mod_sa(sa_t a, sa_t b, int b_is_constant) {
    sa_t r = a % b;
    sa_t adapt_python = ((r != 0) & ((r ^ b) < 0));
    return r + adapt_python * b;
}
'''


def _cmath(ctx, sec):
    d = ctx.cat.files.get('CMath.c', {}).get(sec, {}).get('impl')
    if d is None:
        raise AnalysisError('%s: CMath.c::%s vanished' % (HELPERS_RID, sec))
    text = strip_c_comments(d.raw).replace('%(type)s', 'sa_t').replace('%(type_name)s', 'sa').replace('%(math_h_modifier)s', '').replace('%%', '%')
    if re.search(r'%\(\w+\)s', text):
        raise AnalysisError('%s: CMath.c::%s has a substitution key the rule does not know' % (HELPERS_RID, sec))
    return d, text


def rule_helpers(ctx, floor=6):
    from ..engine.cutil import strip_c_comments as _scc
    r = Rule(HELPERS_RID, 'DivInt / ModInt / ModFloat and their declared copies in PyLongBinop compute floor quotient and divisor-signed remainder for every '
                          'operand pair of a %d-bit model type (b_is_constant 0 and 1); MIN %% -1 is answered without executing the C remainder' % HW, floor)
    ok_sites = set()
    for sec, fname, kind, wide in (('DivInt', '__Pyx_div_sa', 'div', False), ('ModInt', '__Pyx_mod_sa', 'mod', False), ('ModFloat', '__Pyx_mod_sa', 'mod', True)):
        d, text = _cmath(ctx, sec)
        key = 'CMath.c:%s' % sec
        lits = MC.literals(text)
        if not lits <= {0, 1}:
            r.info('%s mentions the integer literal(s) %s: not width-parametric, not decided at the model width' % (key, sorted(lits - {0, 1})))
            continue
        try:
            n, prob = helper_eval(text, fname, kind, extra_params=[(0,), (1,)], wide=wide)
        except MC.Unsupported as u:
            raise AnalysisError('%s: %s is outside the modelled C subset: %s' % (HELPERS_RID, key, u))
        r.inst(key, sample='%s: %d operand pairs x b_is_constant' % (key, n))
        if prob:
            r.violate('%s:%s' % (key, prob[0]), 'Cython/Utility/CMath.c', d.line, 'CMath.c::%s: %s' % (sec, prob[1]))
        else:
            ok_sites.add(('CMath.c', sec))
    # declared copies in Optimize.c::PyLongBinop
    from . import pC02 as P
    dd = ctx.cat.files.get('Optimize.c', {}).get('PyLongBinop', {}).get('impl')
    if dd is None:
        raise AnalysisError('%s: Optimize.c::PyLongBinop vanished' % HELPERS_RID)
    tree = P.tpl_tree(dd.raw)
    cop, keyname = P.tpl_assigned_dict(tree, 'c_op')
    if not cop:
        raise AnalysisError('%s: PyLongBinop c_op table not found' % HELPERS_RID)
    for op in sorted(cop):
        if cop[op] not in ('/', '%') or op == 'TrueDivide':
            continue
        expanded = P.tpl_expand(tree, dict(op=op, order='ObjC', ret_type=P.Obj(is_pyobject=True)))
        for ufile, section, body, ctype, left, right in P.copy_sites(expanded):
            key = 'Optimize.c:PyLongBinop(%s):%s:%s' % (op, section, ctype)
            kind = 'div' if 'Div' in section else 'mod'
            text = 'static sa_t sa_copy(sa_t %s, sa_t %s) %s' % (left, right, re.sub(r'\b(PY_LONG_LONG|long)\b', 'sa_t', body))
            lits = MC.literals(text)
            if not lits <= {0, 1}:
                r.info('%s mentions the literal(s) %s: not decided' % (key, sorted(lits - {0, 1})))
                continue
            try:
                # the object fast path excludes MIN % -1 by its digit-count guard (C36-OVF decides that), so that pair is not demanded of the copy
                n, prob = helper_eval(text, 'sa_copy', kind, skip_min=True, skip_pairs=((MC.lo_hi(HW, True)[0], -1),) if kind == 'mod' else ())
            except MC.Unsupported as u:
                raise AnalysisError('%s: %s is outside the modelled C subset: %s' % (HELPERS_RID, key, u))
            r.inst(key, sample='%s: %d operand pairs' % (key, n))
            if prob:
                r.violate('%s:%s' % (key, prob[0]), 'Cython/Utility/Optimize.c', dd.line, '%s (declared copy of CMath.c::%s): %s' % (key, section, prob[1]))
            else:
                ok_sites.add((op, section, ctype))
    n, prob = helper_eval(HELPERS_POSITIVE, '__Pyx_mod_sa', 'mod', extra_params=[(0,)])
    r.positive_control(prob is not None and prob[0] == 'undefined', 'ModInt without the b == -1 short cut executes MIN % -1')
    r.ok_sites = ok_sites
    return r


# ====================================================================================================================================
# C03-SIMPLE: an operand whose result() is pasted into an emitted guard AND into the division is a simple (side-effect free) node
# ====================================================================================================================================
SIMPLE_RID = 'C03-SIMPLE'


def pasted_operands(fn):
    """operand attributes (operand1/operand2) whose .result() is formatted into text emitted by fn"""
    out = set()
    for n in walk_no_nested(fn):
        if isinstance(n, ast.Call) and isinstance(n.func, ast.Attribute) and n.func.attr == 'result' and is_self_attr(n.func.value) \
                and n.func.value.attr in ('operand1', 'operand2'):
            out.add(n.func.value.attr)
    return out


def simple_problems(fn, operands):
    """operands for which `self.<op> = self.<op>.coerce_to_simple(env)` does not run on every path on which self.zerodivision_check is true"""
    from . import pC02 as P
    bad = []
    for op in sorted(operands):
        sites = []
        for s in walk_no_nested(fn):
            if isinstance(s, ast.Assign) and any(is_self_attr(t) and t.attr == op for t in s.targets) and isinstance(s.value, ast.Call) \
                    and isinstance(s.value.func, ast.Attribute) and s.value.func.attr in ('coerce_to_simple', 'coerce_to_temp') \
                    and is_self_attr(s.value.func.value) and s.value.func.value.attr == op:
                for t, pc in P.path_conditions(fn, lambda n, v=s.value: n is v):
                    sites.append(pc)
        if not sites:
            bad.append((op, 'is never coerced to a simple node'))
            continue
        tests, spans = [], []
        for pc in sites:
            spans.append((len(tests), len(tests) + len(pc)))
            tests += [t for t, _ in pc]
        typed = {'self.zerodivision_check': [True], 'self.type.is_pyobject': [False]}
        for subst, av, vals in P.truth_table(tests, typed):
            if not any(P.conj_holds(pc, vals[a:b]) for pc, (a, b) in zip(sites, spans)):
                bad.append((op, 'is not coerced to a simple node when %s although zerodivision_check is set'
                            % (', '.join('%s is %s' % kv for kv in sorted(av.items())) or 'the zero test is needed')))
                break
    return bad


def rule_simple(ctx, floor=2):
    ix = ctx.index
    r = Rule(SIMPLE_RID, 'operands whose result() is pasted into the guards of generate_div_warning_code are coerced to simple nodes by analyse_operation whenever zerodivision_check is set '
                         '(the guard text and the division both read result(): a non-simple operand would be evaluated twice)', floor)
    base = ix.cls(*DIV_BASE)
    gw = ix.find_method(base, 'generate_div_warning_code')
    an = ix.find_method(base, 'analyse_operation')
    if gw is None or an is None:
        raise AnalysisError('%s: DivNode.generate_div_warning_code / analyse_operation vanished' % SIMPLE_RID)
    ops = pasted_operands(inline_self_calls(ix, gw[0], gw[1]))
    if not ops:
        raise AnalysisError('%s: generate_div_warning_code pastes no operand result into its guards any more' % SIMPLE_RID)
    for op in sorted(ops):
        r.inst('%s.analyse_operation:%s' % (an[0].qual, op), sample='%s.analyse_operation coerces self.%s to a simple node' % (an[0].qual, op))
    for op, why in simple_problems(inline_self_calls(ix, an[0], an[1]), ops):
        r.violate('%s.analyse_operation:%s' % (an[0].qual, op), an[0].module.rel, an[1].lineno,
                  '%s.analyse_operation: self.%s %s, but generate_div_warning_code pastes self.%s.result() into the emitted zero / overflow test and the division pastes it again: '
                  'for `a // f()` the call f() is evaluated twice (the value tested is not the value divided by)' % (an[0].qual, op, why, op))
    pcf = ast.parse("def analyse_operation(self, env):\n    if not self.type.is_pyobject:\n        self.zerodivision_check = x(env)\n        if env.directives['cdivision_warnings']:\n"
                    "            self.operand2 = self.operand2.coerce_to_simple(env)\n    return self\n").body[0]
    r.positive_control([o for o, _ in simple_problems(pcf, {'operand2'})] == ['operand2'], 'coercion only under cdivision_warnings')
    return r


# ====================================================================================================================================
# helper extraction: `self._emit_x(code, a, b)` statements are replaced by the body of the method they call (one class family, no returns)
# ====================================================================================================================================
def inline_self_calls(ix, cls, fn, depth=0, _seen=()):
    """a copy of fn in which every expression statement `self.m(args...)` that resolves to a method of cls (through its MRO, stopping at ExprNode) whose body
    contains no `return <value>` is replaced by that body with the parameters renamed to the argument expressions.  Only calls whose arguments are names,
    attributes or constants are inlined (so that the substitution is a renaming); everything else is left as it is."""
    import copy
    if depth > 2:
        return fn
    fn = copy.deepcopy(fn) if depth == 0 else fn
    selfname = fn.args.args[0].arg if fn.args.args else 'self'

    def simple(a):
        return isinstance(a, (ast.Name, ast.Constant)) or (isinstance(a, ast.Attribute) and simple(a.value))

    def expand(stmts):
        out = []
        for st in stmts:
            for field in ('body', 'orelse', 'finalbody'):
                sub = getattr(st, field, None)
                if isinstance(sub, list) and sub and isinstance(sub[0], ast.stmt):
                    setattr(st, field, expand(sub))
            call = st.value if isinstance(st, ast.Expr) and isinstance(st.value, ast.Call) else None
            tgt = None
            if call is not None and isinstance(call.func, ast.Attribute) and isinstance(call.func.value, ast.Name) and call.func.value.id == selfname \
                    and not call.keywords and all(simple(a) for a in call.args):
                hit = ix.find_method(cls, call.func.attr)
                if hit is not None and hit[0].name not in ('ExprNode', 'Node') and hit[1].name not in _seen and hit[1] is not fn:
                    m = hit[1]
                    if len(m.args.args) == len(call.args) + 1 and not m.args.vararg and not m.args.kwarg and \
                            not any(isinstance(x, ast.Return) and x.value is not None for x in walk_no_nested(m)):
                        tgt = m
            if tgt is None:
                out.append(st)
                continue
            sub = {p.arg: a for p, a in zip(tgt.args.args[1:], call.args)}
            sub[tgt.args.args[0].arg] = ast.Name(id=selfname, ctx=ast.Load())

            class Ren(ast.NodeTransformer):
                def visit_Name(self, n):
                    if n.id in sub and isinstance(n.ctx, ast.Load):
                        return copy.deepcopy(sub[n.id])
                    return n
            body = [Ren().visit(copy.deepcopy(s2)) for s2 in tgt.body if not (isinstance(s2, ast.Return) and s2.value is None)]
            body = [s2 for s2 in body if not (isinstance(s2, ast.Expr) and isinstance(s2.value, ast.Constant))]      # docstring
            inner = ast.FunctionDef(name=tgt.name, args=fn.args, body=body, decorator_list=[], lineno=st.lineno, col_offset=0)
            inner = inline_self_calls(ix, cls, inner, depth + 1, _seen + (tgt.name,))
            for s2 in inner.body:
                ast.copy_location(s2, st) if not hasattr(s2, 'lineno') else None
            out.extend(inner.body)
        return out
    fn.body = expand(fn.body)
    ast.fix_missing_locations(fn)
    return fn

def sib_with_helpers(ctx, rid):
    """pC02.rule_sib (shape comparison of the declared copies of DivInt / ModInt with the originals) combined with C03-HELPERS (value-wise decision of every
    original and every copy): a shape difference or a give-up of the shape comparison is a finding only where the value-wise decision did not succeed."""
    import re
    from . import pC02 as P
    from ..core import Rule, AnalysisError
    rh2 = rule_helpers(ctx)
    try:
        rsib = P.rule_sib(ctx, rid)
    except AnalysisError as e:
        # SIB (a shape comparison of the declared copies with CMath.c) cannot read one of the blocks.  The obligation it stands for - copy and original
        # compute the same // resp. % - is decided value-wise by C03-HELPERS for every original and every copy; only if that succeeded for all of them
        # is the give-up downgraded to an info line.
        originals = {k for k in rh2.ok_sites if k[0] == 'CMath.c'}
        copies = {k for k in rh2.ok_sites if k[0] != 'CMath.c'}
        if rh2.findings or len(originals) < 3 or len(copies) < 4:
            raise
        rsib = Rule(rid, 'SIB1: declared copies of DivInt / ModInt in PyLongBinop equal the original (shape comparison)', floor=0)
        for k in sorted(copies):
            rsib.inst('PyLongBinop(%s):%s:%s' % k, sample='covered by C03-HELPERS: PyLongBinop(%s):%s:%s' % k)
        rsib.info('shape comparison not possible (%s); every original and every declared copy was verified value-wise by C03-HELPERS instead' % str(e)[:160])
    # SIB compares the *shape* of a declared copy with its original.  When C03-HELPERS has shown that the original AND the copy both compute
    # Python's // resp. % on the whole model grid, a difference in shape is a behaviour-preserving rewrite of one side: reported as info only.
    keep = []
    for f in rsib.findings:
        m = re.match(r'PyLongBinop\((\w+)\):(\w+):(\w+)$', f.construct)
        if m and (m.group(1), m.group(2), m.group(3)) in rh2.ok_sites and ('CMath.c', m.group(2)) in rh2.ok_sites:
            rsib.info('shape difference only (both sides verified by C03-HELPERS): %s' % f.msg[:200])
        else:
            keep.append(f)
    rsib.findings = keep
    return rsib, rh2
