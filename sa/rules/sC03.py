"""C03-INPLACE: a statement node that emits a C compound assignment itself does not do so for a division operator on a C integer
target while the cdivision directive is off.

`a //= b`, `a %= b` (and `a /= b`) normally become `a = a <op> b` (ExpandInplaceOperators) and go through DivNode / ModNode: helper
call with floor adjustment, zero-division test.  The in-place node that survives that transform (buffer / memoryview element targets, C++
objects) is emitted as the plain C operator `lhs <op>= rhs` and thereby *bypasses* the whole DivNode family: C truncation instead of floor,
SIGFPE instead of ZeroDivisionError.  That is only legitimate when C semantics were requested.  Necessary condition decided here:

    for every operator that ExprNodes.binop_node_classes maps to the DivNode family, a C integer target (lhs.type.is_int, not an
    object) and the scoped directive cdivision == False, every path of <InPlace node>.generate_execution_code that hands the operator
    (or its C spelling) to an emitting call also reports a compile error (Errors.error; before or after, the error only fails the run at the end).

Technique: the generator method is interpreted by the checker's own whitelisted evaluator (rules/pC02.Ev, nothing from /repo is imported or
run) for each division operator; the premise is supplied as a record (`self.operator`, `self.lhs.type.is_int` ...,
`code.globalstate.directives['cdivision']`), every other test forks both ways, so the enumeration covers the complete valuation domain
of the method's tests.  The events of a path are the calls of Errors.error and the calls that receive an operator-valued argument."""
import ast

from ..core import Rule, AnalysisError, node_src
from ..engine import pyflow
from . import pC02 as P2
from . import pC04 as P4

RID = 'C03-INPLACE'
NODE_CLASS = ('Nodes', 'InPlaceAssignmentNode')
METHOD = 'generate_execution_code'
DIV_BASE = ('ExprNodes', 'DivNode')
MAX_PATHS = 4000

# constructs with a reported, not yet recorded defect of the unmodified tree (see /tmp/strengthen/G2/FINDING_1.md): reported through
# r.info() instead of r.violate() until the finding is recorded in known_findings.txt / fixed.        # pending finding
PENDING = {}      # the one pending construct (`structbuf[i].field //= b`) was repaired in /repo (8cf270df4) and is armed now


class _Fork(Exception):
    def __init__(self, key):
        self.key = key



def div_operators(ix):
    base = ix.cls(*DIV_BASE)
    fam = {base} | set(ix.subclasses(base))
    tab = P4.table_classes(ix, 'ExprNodes', 'binop_node_classes')
    ops = sorted(op for op, c in tab.items() if c is not None and c in fam and isinstance(op, str))
    if not ops:
        raise AnalysisError('ExprNodes.binop_node_classes maps no operator to the DivNode family')
    return ops


def _callee_text(c):
    f = c.func
    if isinstance(f, ast.Attribute):
        return f.attr
    if isinstance(f, ast.Name):
        return f.id
    return node_src(f, 40)


def _is_error_call(c):
    f = c.func
    return (isinstance(f, ast.Name) and f.id == 'error') or (isinstance(f, ast.Attribute) and f.attr == 'error' and isinstance(f.value, ast.Name) and f.value.id == 'Errors')


def run_paths(fn, env0, op_values):
    """[(events, atoms)] for every path of fn.  events: ('error', line) | ('emit', callee, operator value, line, call node)."""
    results = []

    def run_path(decisions):
        env = dict(env0)
        atoms = dict(decisions)
        events = []

        def on_atom(t, n):
            raise _Fork(t)
        ev = P2.Ev(env, atoms=atoms, symbols=True, on_atom=on_atom)

        def value(n):
            try:
                return ev.ev(n)
            except P2.Unknown:
                return P2.UNKNOWN

        def carried(arg):
            v = value(arg)
            if isinstance(v, str) and v in op_values:
                return v
            if isinstance(arg, ast.Constant):
                return None
            for x in ast.walk(arg):
                if isinstance(x, (ast.Name, ast.Attribute)) and not isinstance(x, ast.Constant):
                    v = value(x)
                    if isinstance(v, str) and v in op_values:
                        return v
            return None

        def scan_calls(node):
            for c in pyflow.calls_in(node):
                if _is_error_call(c):
                    events.append(('error', c.lineno))
                    continue
                got = None
                for a in list(c.args) + [k.value for k in c.keywords]:
                    got = got or carried(a.value if isinstance(a, ast.Starred) else a)
                if got is None:
                    continue
                f = c.func
                if isinstance(f, ast.Attribute) and isinstance(f.value, ast.Name) and f.value.id == fn.args.args[0].arg:
                    raise AnalysisError('%s passes the operator to its own method %s(): helper methods of the in-place node are not modelled by %s'
                                        % (fn.name, f.attr, RID))
                if isinstance(f, ast.Attribute) and isinstance(f.value, ast.Constant):
                    continue        # a string method such as "...".format(op): the enclosing emitting call is reported instead
                events.append(('emit', _callee_text(c), got, c.lineno, c))

        def bind(t, v):
            if isinstance(t, ast.Name):
                env[t.id] = v
            elif isinstance(t, (ast.Tuple, ast.List)):
                if isinstance(v, (tuple, list)) and len(v) == len(t.elts):
                    for x, y in zip(t.elts, v):
                        bind(x, y)
                else:
                    for x in ast.walk(t):
                        if isinstance(x, ast.Name):
                            env[x.id] = P2.UNKNOWN

        def block(stmts):
            for s in stmts:
                if isinstance(s, ast.If):
                    r = block(s.body if ev.truth(s.test) else s.orelse)
                    if r is not None:
                        return r
                elif isinstance(s, ast.Return):
                    if s.value is not None:
                        scan_calls(s.value)
                    return 'return'
                elif isinstance(s, ast.Raise):
                    return 'raise'
                elif isinstance(s, ast.Assign):
                    scan_calls(s.value)
                    if isinstance(s.value, ast.Tuple):
                        v = tuple(value(x) for x in s.value.elts)
                    else:
                        v = value(s.value)
                    for t in s.targets:
                        bind(t, v)
                elif isinstance(s, ast.AugAssign):
                    scan_calls(s.value)
                    if isinstance(s.target, ast.Name):
                        env[s.target.id] = P2.UNKNOWN
                elif isinstance(s, ast.AnnAssign):
                    if s.value is not None:
                        scan_calls(s.value)
                        bind(s.target, value(s.value))
                elif isinstance(s, ast.Expr):
                    scan_calls(s.value)
                elif isinstance(s, (ast.Pass, ast.Import, ast.ImportFrom, ast.Assert, ast.Global, ast.Nonlocal)):
                    continue
                else:
                    raise AnalysisError('%s: statement kind %s is outside the subset %s can interpret' % (fn.name, type(s).__name__, RID))
            return None
        block(fn.body)
        return events, atoms

    todo = [dict()]
    n = 0
    while todo:
        d = todo.pop()
        n += 1
        if n > MAX_PATHS:
            raise AnalysisError('%s: more than %d paths' % (fn.name, MAX_PATHS))
        try:
            results.append(run_path(d))
        except _Fork as f:
            for b in (False, True):
                d2 = dict(d)
                d2[f.key] = b
                todo.append(d2)
    return results


def premise_env(fn, op, cdivision=False, is_int=True):
    if len(fn.args.args) < 2:
        raise AnalysisError('%s has no code parameter' % fn.name)
    selfname, codename = fn.args.args[0].arg, fn.args.args[1].arg
    typ = P2.Obj(is_int=is_int, is_pyobject=False, is_cpp_class=False, is_float=False, is_error=False)
    lhs = P2.Obj(type=typ)
    node = P2.Obj(operator=op, lhs=lhs, rhs=P2.Obj(), pos=P2.Sym('pos'))
    code = P2.Obj(globalstate=P2.Obj(directives={'cdivision': cdivision}))
    return {selfname: node, codename: code}


def unguarded_emissions(fn, op, op_values):
    """{callee: (line, atoms of a witness path)} for emissions of a division operator that no error() call precedes on some path,
    and the set of all emitting callees seen."""
    bad, seen = {}, set()
    for events, atoms in run_paths(fn, premise_env(fn, op), op_values):
        # Errors.error() only records the error, the compilation fails at the end of the pipeline: its position relative to the emission is irrelevant
        err = any(e[0] == 'error' for e in events)
        for e in events:
            if e[0] == 'emit':
                seen.add(e[1])
                if not err and e[1] not in bad:
                    bad[e[1]] = (e[3], e[2], {k: v for k, v in atoms.items()})
    return bad, seen


POSITIVE = '''
def generate_execution_code(self, code):
    lhs, rhs = self.lhs, self.rhs
    operator = self.operator
    c_op = "/" if operator == "//" else operator
    if lhs.is_buffer_access:
        if operator in ('/', '%') and lhs.type.is_int and not code.globalstate.directives['cdivision']:
            error(self.pos, "not allowed")
        lhs.generate_buffer_setitem_code(rhs, code, c_op)
'''


def rule_inplace(ctx, floor=4):
    ix = ctx.index
    r = Rule(RID, 'an in-place statement node never hands a DivNode-family operator on a C integer target to a C-emitting call with cdivision off '
                  'unless it reports a compile error on the same path (the plain C `op=` bypasses the floor adjustment and the zero-division test)', floor)
    cls = ix.cls(*NODE_CLASS)
    if cls is None:
        raise AnalysisError('%s.%s vanished' % NODE_CLASS)
    hit = ix.find_method(cls, METHOD)
    if hit is None:
        raise AnalysisError('%s has no %s' % (cls.qual, METHOD))
    owner, fn = hit
    ops = div_operators(ix)
    op_values = set(ops) | {'/', '%'}
    any_emit = False
    per_site = {}
    for op in ops:
        bad, seen = unguarded_emissions(fn, op, op_values)
        any_emit |= bool(seen)
        for callee in sorted(seen):
            key = '%s.%s:emit:%s' % (owner.qual, METHOD, callee)
            r.inst(key + ':' + op, sample='%s for operator %r' % (key, op))
            if callee in bad:
                per_site.setdefault((key, callee), []).append((op,) + bad[callee])
    for (key, callee), lst in sorted(per_site.items()):
        op, line, val, atoms = lst[0]
        when = ', '.join('%s is %s' % kv for kv in sorted(atoms.items())) or 'always'
        msg = ('%s.%s hands the C operator %s (source operator %s) to %s() for a C integer target although the cdivision directive is off and no '
               'compile error is reported on that path (%s): the statement is emitted as the plain C `%s=`, which truncates towards zero '
               '(-7 //= 2 gives -3, -7 %%= 2 gives -1) and divides by zero without raising ZeroDivisionError'
               % (owner.qual, METHOD, '/'.join(repr(x[2]) for x in lst), ', '.join(repr(x[0] + '=') for x in lst), callee, when, val))
        if key in PENDING:
            r.info('pending finding, not reported as violation: %s [%s]' % (PENDING[key], msg))        # pending finding
        else:
            r.violate(key, owner.module.rel, line, msg)
    if not any_emit:
        raise AnalysisError('%s.%s no longer passes its operator to any emitting call: %s cannot see how in-place operators are generated' % (owner.qual, METHOD, RID))
    pcf = ast.parse(POSITIVE).body[0]
    got = {op: sorted(unguarded_emissions(pcf, op, {'/', '//', '%'})[0]) for op in ('/', '//', '%')}
    r.positive_control(got == {'/': [], '//': ['generate_buffer_setitem_code'], '%': []}, "guard tests the source operator, so '//' slips through")
    return r
