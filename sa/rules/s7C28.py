"""C28 — seventh round: the generated tp_richcompare does not look at its operands.

C28-OPERANDS  (seed C28j: `if (o1 == o2) return False;` in the `!=` derived from __eq__)

The slot a Python class gets for its comparison methods (slot_tp_richcompare, object.__ne__, the closures of functools.total_ordering) does
nothing with the two operands except handing them to the user's methods: there is no identity shortcut (`x != x` calls `x.__eq__(x)`; that
shortcut only exists in PyObject_RichCompareBool, i.e. inside containers), no test for None and no type test.  Which methods run, in which
order, and what is returned is therefore a function of the *answers* of the user methods alone.

The rule takes the C switch that generate_richcmp_function emits for every subset of the six comparison methods (with and without
total_ordering, the scenarios of C28-TO; the emitted text is produced by the checker's own evaluator of the generator) and evaluates it, for every
op, under a complete set of answer profiles (the three outcomes of a total order, every method NotImplemented, every method False — NaN-like —,
every method True) for four operand configurations: two distinct objects of the type, the SAME object on both sides, a right operand of an
unrelated type, a right operand None.  The user methods answer by name only, so for a switch that treats its operands as opaque the returned
object and the sequence of methods called are identical in the four configurations; any difference is an operand test the Python class does
not have.  C28-TO has already compared the 'distinct' configuration with the Python semantics.
"""
from ..core import Rule, AnalysisError

CONFIGS = [('same', 'the same object on both sides (`x OP x`)'),
           ('othertype', 'a right operand of an unrelated type'),
           ('none', 'None as the right operand')]
SYMBOL = {'__lt__': '<', '__le__': '<=', '__gt__': '>', '__ge__': '>=', '__eq__': '==', '__ne__': '!='}


def _profiles(TRUTH):
    out = []
    for oc in ('lt', 'eq', 'gt'):
        out.append(('the methods answer as for a %s b' % {'lt': '<', 'eq': '==', 'gt': '>'}[oc], {m: ('T' if oc in TRUTH[m] else 'F') for m in TRUTH}))
    out.append(('every method returns NotImplemented', {m: 'N' for m in TRUTH}))
    out.append(('every method returns False (NaN-like value)', {m: 'F' for m in TRUTH}))
    out.append(('every method returns True', {m: 'T' for m in TRUTH}))
    return out


def _show(res, calls):
    if isinstance(res, tuple) and res and res[0] == 'raised':
        what = 'fails (%s)' % res[1]
    else:
        what = 'returns %s' % (getattr(res, 'name', None) or repr(res))
    return '%s after calling [%s]' % (what, ', '.join(calls) or 'no user method')


def operand_problems(sw, defined, total_ordering, P, sc=None):
    """-> [(key, message)] for one emitted switch."""
    H = P.H
    order = [m for m in P.ORDER if m in defined]
    root = max(order) if order else None
    sc = sc or '{%s}%s' % (', '.join(sorted(defined)), ' + total_ordering' if total_ordering else '')
    probs = []
    for meth, label in H.RICHCMP.items():
        if meth in defined:
            kind = 'direct:' + meth
        elif meth in P.ORDER and root:
            kind = 'derived:%s->%s' % (root, meth)
        elif meth == '__ne__':
            kind = 'ne-from-eq'
        else:
            kind = 'absent:' + meth
        reported = set()
        for pname, answers in _profiles(P.TRUTH):
            base = sw.run_profile(label, answers, 'distinct')
            for cfg, cfg_text in CONFIGS:
                if cfg in reported:
                    continue
                got = sw.run_profile(label, answers, cfg)
                if got[0] is base[0] and got[1] == base[1]:
                    continue
                if isinstance(got[0], tuple) and isinstance(base[0], tuple) and got == base:
                    continue
                reported.add(cfg)
                probs.append(('richcmp:operands:%s:%s' % (cfg, kind),
                              'with %s defined, case %s (`a %s b`) of the generated tp_richcompare looks at its operands: with %s it %s, with two distinct objects of the type and the same '
                              'answers (%s) it %s; a Python class hands both operands to its comparison methods unseen (no identity / None / type shortcut: `x != x` calls x.__eq__(x), '
                              'which matters for call order and for values that are not equal to themselves)'
                              % (sc, label, SYMBOL[meth], cfg_text, _show(*got), pname, _show(*base))))
    return probs


BAD_SWITCH = ['switch (op) {', 'case Py_EQ: {', 'return user_eq(o1, o2);', '}', 'case Py_NE: {', 'PyObject *ret;', 'if (o1 == o2) return __Pyx_NewRef(Py_False);',
              'ret = user_eq(o1, o2);', 'if (likely(ret && ret != Py_NotImplemented)) {', 'int b = __Pyx_PyObject_IsTrue(ret);', 'Py_DECREF(ret);',
              'if (unlikely(b < 0)) return NULL;', 'ret = (b) ? Py_False : Py_True;', 'Py_INCREF(ret);', '}', 'return ret;', '}',
              'default: {', 'return __Pyx_NewRef(Py_NotImplemented);', '}', '}', '}']


def rule_operands(ctx, switches, floor=670):
    from ..props import C28 as P
    from .pC28 import Unsupported, Raised
    r = Rule('C28-OPERANDS', 'the tp_richcompare switch emitted by generate_richcmp_function treats its operands as opaque: for every subset of defined methods (with / without total_ordering), every op and '
             'a complete set of method answers, the result and the methods called are the same for two distinct objects, for the same object on both sides, for a right operand of another type and for None',
             floor=floor)
    ix = ctx.index
    mn = ix.mod('Compiler.ModuleNode')
    fn = ix.cls('Compiler.ModuleNode', 'ModuleNode').methods.get('generate_richcmp_function')
    if fn is None:
        raise AnalysisError('ModuleNode.generate_richcmp_function vanished')
    seen = {}
    for sc, defined, to, sw in switches:
        try:
            probs = operand_problems(sw, defined, to, P, sc)
        except Unsupported as e:
            raise AnalysisError('C emitted by generate_richcmp_function for %s is outside the modelled subset: %s' % (sc, e))
        for meth in P.H.RICHCMP:
            r.inst('richcmp:operands:%s:%s' % (sc, meth), sample='%s: case %s x {distinct, same object, other type, None}' % (sc, P.H.RICHCMP[meth]))
        for key, msg in probs:
            seen.setdefault(key, msg)
    for key, msg in sorted(seen.items()):
        r.violate(key, mn.rel, fn.lineno, msg)
    try:
        bad = operand_problems(P.SwitchEval(BAD_SWITCH, ['o1', 'o2', 'op']), ['__eq__'], False, P)
        good = operand_problems(P.SwitchEval([l for l in BAD_SWITCH if 'o1 == o2' not in l], ['o1', 'o2', 'op']), ['__eq__'], False, P)
    except (Unsupported, Raised) as e:
        raise AnalysisError('C28-OPERANDS positive control cannot be evaluated: %s' % e)
    r.positive_control(any(k == 'richcmp:operands:same:ne-from-eq' for k, _ in bad) and not good, '`if (o1 == o2) return False;` in the != derived from __eq__')
    return r
