"""C43, strengthening: two representation invariants whose violation surfaces as an internal exception / a rejected valid program.

  C43-COUPLE    coupled scanner state.  A counter attribute whose 0<->1 transitions add / remove constant keys of a table attribute
                (PyrexScanner.async_enabled  <->  'async' / 'await' in PyrexScanner.keywords; discovered from the transition methods, not
                named here) obeys:  (a) the increment method installs the keys on the 0->1 transition, the decrement method removes them
                exactly on the 1->0 transition (truth table of the extracted guard over the complete abstraction {0, 1, >=2} of the counter);
                (b) the key sets installed and removed agree;  (c) every other write of the counter, in the class or anywhere in the compiler,
                is the constant 0 in __init__ over a freshly built table that cannot hold the keys.  A scanner with counter > 0 and no keys
                parses `await x` as two identifiers (valid code rejected); keys without counter die with KeyError in the decrement method.
  C43-EXCSHAPE  writer/reader agreement on the payload of compiler exceptions.  For every variable whose exception class is nominally known
                (`except <Class> as e`, elements of held-error lists obtained from Errors.hold_errors()/held_errors() or a context manager
                that yields them) each `e.args[i]`, `a, b = e.args` and `e.<attribute>` read is checked against the shape the class'
                __init__ establishes (explicit `self.args = (...)` tuple, else the arguments handed to Exception.__init__; attributes assigned
                in the MRO).  An index past the tuple is an IndexError inside the parser's error path, i.e. a traceback instead of a
                positioned error.
"""
import ast, builtins

from ..core import Rule, AnalysisError
from ..engine import tables
from ..engine.pyindex import walk_no_nested, is_self_attr

UNKNOWN = None


def _u(n):
    return ast.unparse(n)


# ====================================================================================================== C43-COUPLE
class Transition:
    def __init__(self, cls, name, fn, counter, table, delta, guard, aug_first, added, removed):
        self.cls, self.name, self.fn, self.counter, self.table = cls, name, fn, counter, table
        self.delta, self.guard, self.aug_first, self.added, self.removed = delta, guard, aug_first, added, removed


def _table_effects(stmts, selfname):
    """constant keys stored into / deleted from a self.<table> by the statements (recursively): {table: (added, removed)}"""
    eff = {}

    def note(tab, key, add):
        a, d = eff.setdefault(tab, (set(), set()))
        (a if add else d).add(key)
    for st in stmts:
        for n in ast.walk(st):
            if isinstance(n, ast.Assign):
                for t in n.targets:
                    if isinstance(t, ast.Subscript) and is_self_attr(t.value, selfname) and isinstance(t.slice, ast.Constant):
                        note(t.value.attr, t.slice.value, True)
            elif isinstance(n, ast.Delete):
                for t in n.targets:
                    if isinstance(t, ast.Subscript) and is_self_attr(t.value, selfname) and isinstance(t.slice, ast.Constant):
                        note(t.value.attr, t.slice.value, False)
            elif isinstance(n, ast.Call) and isinstance(n.func, ast.Attribute) and is_self_attr(n.func.value, selfname):
                if n.func.attr == 'update' and n.args and isinstance(n.args[0], ast.Dict):
                    for k in n.args[0].keys:
                        if isinstance(k, ast.Constant):
                            note(n.func.value.attr, k.value, True)
                elif n.func.attr == 'update' and n.keywords and not n.args:
                    for kw in n.keywords:
                        if kw.arg:
                            note(n.func.value.attr, kw.arg, True)
                elif n.func.attr == 'pop' and n.args and isinstance(n.args[0], ast.Constant):
                    note(n.func.value.attr, n.args[0].value, False)
    return eff


def find_transitions(cls_name, methods):
    """methods: {name: FunctionDef}.  A transition method changes self.<counter> by +-1 (augmented assignment at the top level of its body)
    and, under a top-level `if` that tests the counter, stores / deletes constant keys of self.<table>."""
    out = []
    for name, fn in sorted(methods.items()):
        if not fn.args.args:
            continue
        selfname = fn.args.args[0].arg
        augs = [(i, st) for i, st in enumerate(fn.body) if isinstance(st, ast.AugAssign) and is_self_attr(st.target, selfname) and isinstance(st.op, (ast.Add, ast.Sub))
                and isinstance(st.value, ast.Constant) and st.value.value == 1]
        if len(augs) != 1:
            continue
        ai, aug = augs[0]
        counter = aug.target.attr
        for i, st in enumerate(fn.body):
            if not isinstance(st, ast.If):
                continue
            if not any(is_self_attr(x, selfname) and x.attr == counter for x in ast.walk(st.test)):
                continue
            for tab, (added, removed) in sorted(_table_effects(st.body, selfname).items()):
                if tab == counter:
                    continue
                out.append(Transition(cls_name, name, fn, counter, tab, +1 if isinstance(aug.op, ast.Add) else -1, st.test, ai < i, added, removed))
    return out


def eval_guard(e, counter, value, selfname='self'):
    """truth of a guard for the counter value 0, 1 or 2 (2 stands for every value >= 2): True / False / UNKNOWN"""
    def is_counter(x):
        return is_self_attr(x, selfname) and x.attr == counter

    def val(x):
        if is_counter(x):
            return ('v', value)
        if isinstance(x, ast.Constant) and (isinstance(x.value, (int, bool)) or x.value is None):
            return ('v', x.value)
        if isinstance(x, ast.UnaryOp) and isinstance(x.op, ast.Not):
            v = val(x.operand)
            return UNKNOWN if v is UNKNOWN else ('v', not v[1])
        if isinstance(x, ast.BoolOp):
            is_and = isinstance(x.op, ast.And)
            unknown = False
            for y in x.values:
                v = val(y)
                if v is UNKNOWN:
                    unknown = True
                elif is_and and not v[1]:
                    return ('v', False)
                elif not is_and and v[1]:
                    return ('v', True)
            return UNKNOWN if unknown else ('v', is_and)
        if isinstance(x, ast.Compare) and len(x.ops) == 1:
            op, l, rr = x.ops[0], x.left, x.comparators[0]
            a, b = val(l), val(rr)
            if a is UNKNOWN or b is UNKNOWN or a[1] is None or b[1] is None:
                return UNKNOWN
            if value == 2 and (is_counter(l) != is_counter(rr)):
                c = b[1] if is_counter(l) else a[1]
                if isinstance(c, bool) or c > 2:
                    return UNKNOWN
                if c == 2:
                    # counter >= 2 against the constant 2: only `>= 2` / `< 2` (counter on the left) are decided
                    decided = (ast.GtE, ast.Lt) if is_counter(l) else (ast.LtE, ast.Gt)
                    if not isinstance(op, decided):
                        return UNKNOWN
            a, b = a[1], b[1]
            table = {ast.Eq: a == b, ast.NotEq: a != b, ast.Lt: a < b, ast.LtE: a <= b, ast.Gt: a > b, ast.GtE: a >= b, ast.Is: a == b, ast.IsNot: a != b}
            if type(op) in table:
                return ('v', table[type(op)])
        return UNKNOWN
    v = val(e)
    return UNKNOWN if v is UNKNOWN else bool(v[1])


def check_transition(t):
    """-> [(kind, message)].  The guard is evaluated on the complete abstraction {0, 1, >=2} of the counter: for the increment method the old
    values 0, 1, >=2; for the decrement method the old values 1, 2, >=3 (0 is excluded by the counter being a nesting depth)."""
    problems = []
    selfname = t.fn.args.args[0].arg

    def ab(n):
        return min(n, 2)
    keys = t.added if t.delta > 0 else t.removed
    for old in ((0, 1, 2) if t.delta > 0 else (1, 2, 3)):
        new = old + t.delta
        g = eval_guard(t.guard, t.counter, ab(new) if t.aug_first else ab(old), selfname)
        if g is UNKNOWN:
            if not any(k == 'unmodelled' for k, _ in problems):
                problems.append(('unmodelled', 'guard `%s` not decided for the old counter value %s' % (_u(t.guard), '>= 2' if old >= 2 else old)))
            continue
        if t.delta > 0:
            if old == 0 and not g:
                problems.append(('enter', '%s.%s does not install %s in self.%s on the 0 -> 1 transition of self.%s (guard `%s` is false there): the feature is switched on '
                                 'but its keywords are still identifiers' % (t.cls, t.name, sorted(keys), t.table, t.counter, _u(t.guard))))
        else:
            if new == 0 and not g:
                problems.append(('exit', '%s.%s keeps %s in self.%s on the 1 -> 0 transition of self.%s (guard `%s` is false there): the keywords stay reserved outside the '
                                 'construct that enabled them' % (t.cls, t.name, sorted(keys), t.table, t.counter, _u(t.guard))))
            if new >= 1 and g and not any(k == 'exit-early' for k, _ in problems):
                problems.append(('exit-early', '%s.%s removes %s from self.%s although self.%s is still >= 1 afterwards (guard `%s`): the enclosing construct loses its keywords, '
                                 'and its own exit then deletes missing keys (KeyError)' % (t.cls, t.name, sorted(keys), t.table, t.counter, _u(t.guard))))
    return problems


def _module_string_lists(tree):
    """module-level names bound to literal lists/tuples of strings, `A + [...]` concatenations resolved"""
    env = {}

    def ev(v):
        lit = tables.literal(v)
        if isinstance(lit, (list, tuple)) and all(isinstance(x, str) for x in lit):
            return list(lit)
        if isinstance(v, ast.Name) and v.id in env:
            return env[v.id]
        if isinstance(v, ast.BinOp) and isinstance(v.op, ast.Add):
            a, b = ev(v.left), ev(v.right)
            if a is not None and b is not None:
                return a + b
        return None
    for st in tree.body:
        if isinstance(st, ast.Assign) and len(st.targets) == 1 and isinstance(st.targets[0], ast.Name):
            r = ev(st.value)
            if r is not None:
                env[st.targets[0].id] = r
    return env


def fresh_table_keys(init, table, lists):
    """keys a freshly built self.<table> can hold: union of the module-level string lists its initialiser draws from; None if not resolvable"""
    selfname = init.args.args[0].arg
    local = {}
    for n in walk_no_nested(init):
        if isinstance(n, ast.Assign) and len(n.targets) == 1 and isinstance(n.targets[0], ast.Name):
            local.setdefault(n.targets[0].id, []).append(n.value)
    keys, found = set(), False
    for n in walk_no_nested(init):
        if isinstance(n, ast.Assign) and any(is_self_attr(t, selfname) and t.attr == table for t in n.targets):
            found = True
            names = {x.id for x in ast.walk(n.value) if isinstance(x, ast.Name)}
            comp_targets = {y.id for x in ast.walk(n.value) if isinstance(x, ast.comprehension) for y in ast.walk(x.target) if isinstance(y, ast.Name)}
            for x in ast.walk(n.value):
                if isinstance(x, ast.Dict):
                    for k in x.keys:
                        if isinstance(k, ast.Constant):
                            keys.add(k.value)
            for nm in names - comp_targets:
                srcs = [ast.Name(id=nm)] if nm in lists else local.get(nm)
                if srcs is None:
                    if nm in ('dict', 'list', 'set', 'tuple', 'frozenset'):
                        continue
                    return None
                for s in srcs:
                    if isinstance(s, ast.Name) and s.id in lists:
                        keys |= set(lists[s.id])
                    else:
                        return None
    return keys if found else None


def couple_findings(cls_name, methods, module_tree, all_trees):
    """-> (instances [(key, sample)], violations [(key, lineno, rel or None, msg)], infos)"""
    inst, viol, infos = [], [], []
    trans = find_transitions(cls_name, methods)
    pairs = {}
    for t in trans:
        pairs.setdefault((t.counter, t.table), []).append(t)
    for (counter, table), ts in sorted(pairs.items()):
        ups = [t for t in ts if t.delta > 0 and t.added]
        downs = [t for t in ts if t.delta < 0 and t.removed]
        if not ups or not downs:
            continue
        base = '%s.%s<->%s' % (cls_name, counter, table)
        for t in ups + downs:
            k = '%s:%s' % (base, t.name)
            inst.append((k, '%s: self.%s %s 1, %s %s under `%s`' % (k, counter, '+=' if t.delta > 0 else '-=', 'adds' if t.delta > 0 else 'removes',
                                                                    sorted(t.added if t.delta > 0 else t.removed), _u(t.guard))))
            for kind, msg in check_transition(t):
                if kind == 'unmodelled':
                    infos.append('%s: %s' % (k, msg))
                else:
                    viol.append(('%s:%s' % (k, kind), t.fn.lineno, None, msg))
        added = set().union(*[t.added for t in ups])
        removed = set().union(*[t.removed for t in downs])
        k = '%s:keys' % base
        inst.append((k, '%s: installed %s, removed %s' % (k, sorted(added), sorted(removed))))
        if added != removed:
            viol.append((k, downs[0].fn.lineno, None, '%s installs %s in self.%s but %s removes %s: %s' % (
                '/'.join(t.name for t in ups), sorted(added), table, '/'.join(t.name for t in downs), sorted(removed),
                'a key that is never installed is deleted (KeyError)' if removed - added else 'a keyword stays reserved after the construct that enabled it')))
        tnames = {t.name for t in ups + downs}
        # other writes of the counter inside the class
        for name, fn in sorted(methods.items()):
            if name in tnames or not fn.args.args:
                continue
            selfname = fn.args.args[0].arg
            n_w = 0
            for n in walk_no_nested(fn):
                tgts = []
                if isinstance(n, ast.Assign):
                    tgts = [(t, n.value) for t in n.targets]
                elif isinstance(n, (ast.AugAssign, ast.AnnAssign)):
                    tgts = [(n.target, None)]
                for t, v in tgts:
                    for tt in (t.elts if isinstance(t, (ast.Tuple, ast.List)) else [t]):
                        if is_self_attr(tt, selfname) and tt.attr == counter:
                            n_w += 1
                            k = '%s:write in %s#%d' % (base, name, n_w)
                            inst.append((k, '%s: %s' % (k, _u(n))))
                            zero = isinstance(v, ast.Constant) and v.value == 0 and not isinstance(v.value, bool) and tt is t
                            if not (name == '__init__' and zero):
                                viol.append(('%s:write in %s' % (base, name), n.lineno, None,
                                             '%s.%s sets self.%s with `%s` without going through %s: self.%s is not brought in line, so a scanner can have the '
                                             'feature counted as enabled while %s are still plain identifiers (valid `await`/`async` code is rejected), or the other way round'
                                             % (cls_name, name, counter, _u(n), '/'.join(sorted(tnames)), table, sorted(added))))
                            else:
                                fk = fresh_table_keys(fn, table, _module_string_lists(module_tree))
                                if fk is None:
                                    infos.append('%s: keys of the freshly built self.%s not resolved' % (k, table))
                                elif fk & added:
                                    viol.append(('%s:fresh-table' % base, n.lineno, None, '%s.__init__ starts with self.%s = 0 but the fresh self.%s already holds %s: '
                                                 'the first %s removes keys the counter never accounted for' % (cls_name, counter, table, sorted(fk & added), downs[0].name)))
        # writes from outside the class
        for rel, tree in all_trees:
            for n in ast.walk(tree):
                tgt = None
                if isinstance(n, ast.Assign):
                    tgt = [t for t in n.targets if isinstance(t, ast.Attribute) and t.attr == counter and not (isinstance(t.value, ast.Name) and t.value.id == 'self')]
                elif isinstance(n, ast.AugAssign) and isinstance(n.target, ast.Attribute) and n.target.attr == counter and not (isinstance(n.target.value, ast.Name) and n.target.value.id == 'self'):
                    tgt = [n.target]
                elif isinstance(n, ast.Call) and isinstance(n.func, ast.Name) and n.func.id == 'setattr' and len(n.args) >= 2 and isinstance(n.args[1], ast.Constant) and n.args[1].value == counter:
                    tgt = [n]
                for t in tgt or []:
                    k = '%s:external write %s' % (base, _u(t) if not isinstance(t, ast.Call) else 'setattr')
                    inst.append((k, '%s in %s' % (k, rel)))
                    viol.append((k, n.lineno, rel, '`%s` in %s changes the counter %s.%s directly instead of calling %s: self.%s is not updated'
                                 % (_u(n), rel, cls_name, counter, '/'.join(sorted(tnames)), table)))
    return inst, viol, infos


_COUPLE_BAD = ("class S:\n    def __init__(self, parent=None):\n        self.keywords = {k: k for k in words}\n        if parent:\n            self.async_enabled = parent.async_enabled\n"
               "        else:\n            self.async_enabled = 0\n"
               "    def enter_async(self):\n        self.async_enabled += 1\n        if self.async_enabled == 1:\n            self.keywords['async'] = 'async'\n            self.keywords['await'] = 'await'\n"
               "    def exit_async(self):\n        self.async_enabled -= 1\n        if not self.async_enabled:\n            del self.keywords['await']\n            del self.keywords['async']\n")
_COUPLE_GOOD = ("class S:\n    def __init__(self, parent=None):\n        self.keywords = {k: k for k in words}\n        self.async_enabled = 0\n        if parent and parent.async_enabled:\n            self.enter_async()\n"
                "    def enter_async(self):\n        if self.async_enabled < 1:\n            self.keywords.update({'async': 'async', 'await': 'await'})\n        self.async_enabled += 1\n"
                "    def exit_async(self):\n        self.async_enabled -= 1\n        if self.async_enabled > 0:\n            return\n        else:\n            pass\n        if self.async_enabled == 0:\n"
                "            self.keywords.pop('await')\n            self.keywords.pop('async')\n")


def _methods_of(classdef):
    return {st.name: st for st in classdef.body if isinstance(st, ast.FunctionDef)}


def rule_COUPLE(ctx, floor=3):
    r = Rule('C43-COUPLE', 'a scanner counter whose 0<->1 transitions install/remove keywords is changed only by its transition methods, which install on 0->1 and remove exactly on 1->0 '
                           'the same key set; any other write is the constant 0 over a fresh table', floor)
    ix = ctx.index
    m = ix.mod('Scanning')
    trees = [(mm.rel, mm.tree) for mm in ix.modules.values() if mm.rel.startswith('Cython/Compiler/') and mm is not m]
    n_pairs = 0
    for cname, c in sorted(m.classes.items()):
        inst, viol, infos = couple_findings(cname, c.methods, m.tree, trees)
        # external writes inside the Scanning module itself (other classes / functions)
        for k, sample in inst:
            r.inst(k, sample=sample)
        n_pairs += 1 if inst else 0
        for k, line, rel, msg in viol:
            r.violate(k, rel or m.rel, line, msg)
        for i in infos:
            r.info(i)
    if not n_pairs:
        raise AnalysisError('no counter/table transition methods found in Scanning (enter_async/exit_async moved?)')
    bad = ast.parse(_COUPLE_BAD).body[0]
    good = ast.parse(_COUPLE_GOOD).body[0]
    _, vb, _ = couple_findings('S', _methods_of(bad), ast.parse('words = ["def", "class"]'), [])
    ig, vg, infg = couple_findings('S', _methods_of(good), ast.parse('words = ["def", "class"]'), [])
    r.positive_control(any(k.endswith('write in __init__') for k, _, _, _ in vb) and len(ig) >= 4 and not vg and not infg,
                       'counter copied from the parent scanner without installing the keywords / equivalent correct variant')
    return r


# ====================================================================================================== C43-EXCSHAPE
FIXED_BUILTIN_ARITY = {'UnicodeDecodeError': 5, 'UnicodeEncodeError': 5, 'UnicodeTranslateError': 4}


def _builtin_exc(name):
    o = getattr(builtins, name, None)
    return o if isinstance(o, type) and issubclass(o, BaseException) else None


class ExcModel:
    def __init__(self, ix):
        self.ix = ix
        self._exc = {}
        self._arity = {}

    def is_exception(self, c):
        if id(c) not in self._exc:
            self._exc[id(c)] = False
            r = any(_builtin_exc(b.split('.')[-1]) for b in c.unresolved_bases) or any(self.is_exception(b) for b in c.bases)
            self._exc[id(c)] = r
        return self._exc[id(c)]

    def builtin_attrs(self, c):
        out = set(dir(Exception))
        for k in self.ix.mro(c):
            for b in k.unresolved_bases:
                e = _builtin_exc(b.split('.')[-1])
                if e:
                    out |= set(dir(e))
        return out

    def init_arity(self, owner, fn, depth=0):
        """length of .args after running owner.__init__ (top-level statements only): int | UNKNOWN"""
        if depth > 6 or not fn.args.args:
            return UNKNOWN
        selfname = fn.args.args[0].arg
        arity = UNKNOWN
        for st in fn.body:
            if isinstance(st, ast.Assign) and any(is_self_attr(t, selfname) and t.attr == 'args' for t in st.targets):
                arity = len(st.value.elts) if isinstance(st.value, ast.Tuple) and not any(isinstance(e, ast.Starred) for e in st.value.elts) else UNKNOWN
            elif isinstance(st, ast.Expr) and isinstance(st.value, ast.Call) and isinstance(st.value.func, ast.Attribute) and st.value.func.attr == '__init__':
                c = st.value
                base = c.func.value
                args = list(c.args)
                if any(isinstance(a, ast.Starred) for a in args) or any(k.arg is None for k in c.keywords):
                    arity = UNKNOWN
                    continue
                if isinstance(base, ast.Call) and isinstance(base.func, ast.Name) and base.func.id == 'super':
                    nxt = None
                    mro = self.ix.mro(owner)
                    for k in mro[1:]:
                        if '__init__' in k.methods:
                            nxt = k
                            break
                    arity = self.init_arity(nxt, nxt.methods['__init__'], depth + 1) if nxt else len(args) + len(c.keywords)
                else:
                    if not (args and isinstance(args[0], ast.Name) and args[0].id == selfname):
                        continue
                    r = self.ix.resolve_expr(owner.module, base)
                    if r and r[0] == 'class':
                        f = self.ix.find_method(r[1], '__init__')
                        arity = self.init_arity(f[0], f[1], depth + 1) if f else len(args) - 1
                    elif isinstance(base, ast.Name) and _builtin_exc(base.id):
                        arity = len(args) - 1
                    else:
                        arity = UNKNOWN
            elif any(isinstance(n, ast.Attribute) and is_self_attr(n, selfname) and n.attr == 'args' and isinstance(n.ctx, ast.Store) for n in ast.walk(st)):
                arity = UNKNOWN       # conditional / nested rebinding of self.args
        return arity

    def arity(self, c):
        if id(c) not in self._arity:
            f = self.ix.find_method(c, '__init__')
            self._arity[id(c)] = self.init_arity(f[0], f[1]) if f else UNKNOWN
        return self._arity[id(c)]

    def cone(self, c):
        return [c] + self.ix.subclasses(c)


def held_error_sources(ix, model):
    """-> (set of (module short, function name) whose result / yielded value is a list of held errors, element classes)"""
    er = ix.mod('Errors')
    prim = set()
    for name, fn in er.functions.items():
        # returns (an alias of) a list that is pushed on / is the top of <...>.cython_errors_stack
        stackish = any(isinstance(n, ast.Attribute) and n.attr.endswith('errors_stack') for n in ast.walk(fn))
        rets = [n for n in walk_no_nested(fn) if isinstance(n, ast.Return) and n.value is not None]
        if stackish and rets and not any(isinstance(d, ast.Name) and d.id == 'contextmanager' for d in fn.decorator_list):
            prim.add(('Errors', name))
    if not prim:
        raise AnalysisError('Errors.hold_errors()/held_errors() not found')
    # element classes: what Errors hands to report_error()
    elems = set()
    for name, fn in er.functions.items():
        made = {}
        for n in walk_no_nested(fn):
            if isinstance(n, ast.Assign) and isinstance(n.value, ast.Call) and isinstance(n.value.func, ast.Name):
                rc = ix.resolve_name(er, n.value.func.id)
                if rc and rc[0] == 'class' and model.is_exception(rc[1]):
                    for t in n.targets:
                        if isinstance(t, ast.Name):
                            made[t.id] = rc[1]
        for n in walk_no_nested(fn):
            if isinstance(n, ast.Call) and isinstance(n.func, ast.Name) and n.func.id == 'report_error' and n.args and isinstance(n.args[0], ast.Name) and n.args[0].id in made:
                elems.add(made[n.args[0].id])
    if not elems:
        raise AnalysisError('Errors: no function constructs an exception and passes it to report_error()')

    known_ctx = set()

    def yields_held(m, fn, known):
        if not any((isinstance(d, ast.Name) and d.id == 'contextmanager') or (isinstance(d, ast.Attribute) and d.attr == 'contextmanager') for d in fn.decorator_list):
            return False
        held = set()
        for n in walk_no_nested(fn):
            if isinstance(n, ast.Assign) and isinstance(n.value, ast.Call):
                r = ix.resolve_expr(m, n.value.func)
                if r and r[0] == 'func' and (r[1].short, r[2].name) in known:
                    held |= {t.id for t in n.targets if isinstance(t, ast.Name)}
        for n in walk_no_nested(fn):
            if isinstance(n, (ast.With, ast.AsyncWith)):
                # built on top of another context manager that yields the held list
                for it in n.items:
                    if isinstance(it.context_expr, ast.Call) and isinstance(it.optional_vars, ast.Name):
                        r = ix.resolve_expr(m, it.context_expr.func)
                        if r and r[0] == 'func' and (r[1].short, r[2].name) in known_ctx:
                            held.add(it.optional_vars.id)
        for n in walk_no_nested(fn):
            if isinstance(n, ast.Yield) and n.value is not None:
                if isinstance(n.value, ast.Name) and n.value.id in held:
                    return True
                if isinstance(n.value, ast.Call):
                    r = ix.resolve_expr(m, n.value.func)
                    if r and r[0] == 'func' and (r[1].short, r[2].name) in known:
                        return True
        return False
    ctxs = known_ctx
    for _ in range(4):
        before = len(ctxs)
        for m in ix.modules.values():
            for name, fn in m.functions.items():
                if (m.short, name) not in ctxs and yields_held(m, fn, prim):
                    ctxs.add((m.short, name))
        if len(ctxs) == before:
            break
    return prim, ctxs, elems


def _reads_on(var_pred, scope_nodes, classes, how, out):
    """append (var text, classes, node, kind 'index'|'unpack'|'attr', detail, how) for the payload reads on the variables selected by var_pred"""
    for n in scope_nodes:
        for x in ast.walk(n):
            if isinstance(x, ast.Subscript) and isinstance(x.value, ast.Attribute) and x.value.attr == 'args' and var_pred(x.value.value) and isinstance(x.ctx, ast.Load):
                idx = x.slice
                if isinstance(idx, ast.UnaryOp) and isinstance(idx.op, ast.USub) and isinstance(idx.operand, ast.Constant) and isinstance(idx.operand.value, int):
                    out.append((_u(x.value.value), classes, x, 'index', -idx.operand.value, how))
                elif isinstance(idx, ast.Constant) and isinstance(idx.value, int):
                    out.append((_u(x.value.value), classes, x, 'index', idx.value, how))
            elif isinstance(x, ast.Assign) and isinstance(x.value, ast.Attribute) and x.value.attr == 'args' and var_pred(x.value.value) and \
                    isinstance(x.targets[0], (ast.Tuple, ast.List)) and not any(isinstance(e, ast.Starred) for e in x.targets[0].elts):
                out.append((_u(x.value.value), classes, x, 'unpack', len(x.targets[0].elts), how))
            elif isinstance(x, ast.Attribute) and isinstance(x.ctx, ast.Load) and var_pred(x.value) and x.attr != 'args' and not x.attr.startswith('__'):
                out.append((_u(x.value), classes, x, 'attr', x.attr, how))


def typed_parameters(ix, model, prim, ctxs, elems):
    """{(module, FunctionDef): {parameter: (classes, call sites)}} for the module-level functions of the compiler that are called with a nominally typed
    exception: a variable bound by `except C as v`, a local assigned `C(...)`, or an element of a held-error list."""
    out = {}
    for m in sorted(ix.modules.values(), key=lambda mm: mm.rel):
        if not m.rel.startswith('Cython/Compiler/'):
            continue
        for qn, owner, fn in ix.functions_of(m):
            nodes = [n for n in walk_no_nested(fn) if isinstance(n, (ast.ExceptHandler, ast.With, ast.AsyncWith, ast.For, ast.AsyncFor, ast.Assign))]
            if not any(isinstance(n, (ast.ExceptHandler, ast.With, ast.For)) or isinstance(n.value, ast.Call) for n in nodes):
                continue
            scopes = []         # (statements in which the binding holds, local name, classes)
            assigned = {}
            for n in nodes:
                if isinstance(n, ast.ExceptHandler) and n.name and n.type is not None and not isinstance(n.type, ast.Tuple):
                    r = ix.resolve_expr(m, n.type)
                    if r and r[0] == 'class' and model.is_exception(r[1]):
                        scopes.append((n.body, n.name, {r[1]}))
                elif isinstance(n, ast.Assign):
                    r = ix.resolve_expr(m, n.value.func) if isinstance(n.value, ast.Call) else None
                    for t in n.targets:
                        if isinstance(t, ast.Name):
                            assigned.setdefault(t.id, []).append(r[1] if r and r[0] == 'class' and model.is_exception(r[1]) else None)
            handler_names = {nm for _, nm, _ in scopes}
            for nm, srcs in assigned.items():
                if all(c is not None for c in srcs) and nm not in handler_names:
                    scopes.append((fn.body, nm, set(srcs)))
            held = set()
            for n in nodes:
                if isinstance(n, (ast.With, ast.AsyncWith)):
                    for it in n.items:
                        if isinstance(it.context_expr, ast.Call) and isinstance(it.optional_vars, ast.Name):
                            r = ix.resolve_expr(m, it.context_expr.func)
                            if r and r[0] == 'func' and (r[1].short, r[2].name) in ctxs:
                                held.add(it.optional_vars.id)
                elif isinstance(n, ast.Assign) and isinstance(n.value, ast.Call):
                    r = ix.resolve_expr(m, n.value.func)
                    if r and r[0] == 'func' and (r[1].short, r[2].name) in prim:
                        held |= {t.id for t in n.targets if isinstance(t, ast.Name)}
            for n in nodes:
                if isinstance(n, (ast.For, ast.AsyncFor)) and isinstance(n.iter, ast.Name) and n.iter.id in held and isinstance(n.target, ast.Name) \
                        and n.target.id not in handler_names and n.target.id not in assigned:
                    scopes.append((n.body, n.target.id, set(elems)))
            for body, nm, classes in scopes:
                for st in body:
                    for n in ast.walk(st):
                        if not isinstance(n, ast.Call):
                            continue
                        r = ix.resolve_expr(m, n.func)
                        if not (r and r[0] == 'func'):
                            continue
                        callee_mod, callee = r[1], r[2]
                        params = [a.arg for a in callee.args.posonlyargs + callee.args.args]
                        pairs = [(params[i], a) for i, a in enumerate(n.args) if i < len(params) and not isinstance(a, ast.Starred)]
                        pairs += [(k.arg, k.value) for k in n.keywords if k.arg in params]
                        for pname, a in pairs:
                            if isinstance(a, ast.Name) and a.id == nm:
                                ent = out.setdefault((callee_mod, callee), {}).setdefault(pname, (set(), set()))
                                ent[0].update(classes)
                                ent[1].add('%s.%s' % (m.short, qn))
    return {k: {p: (sorted(cl, key=lambda c: c.qual), sites) for p, (cl, sites) in v.items()} for k, v in out.items()}


def typed_exception_reads(ix, model, m, fn, prim, ctxs, elems):
    """reads on exception-typed variables of one function: [(var text, classes or builtin names, node, kind 'index'|'unpack'|'attr', detail, how)]"""
    out = []

    def reads_on(var_pred, scope_nodes, classes, how):
        _reads_on(var_pred, scope_nodes, classes, how, out)

    # (a) except C as e
    for n in walk_no_nested(fn):
        if isinstance(n, ast.ExceptHandler) and n.name and n.type is not None:
            types = n.type.elts if isinstance(n.type, ast.Tuple) else [n.type]
            classes = []
            for t in types:
                r = ix.resolve_expr(m, t)
                if r and r[0] == 'class' and model.is_exception(r[1]):
                    classes.append(r[1])
                elif isinstance(t, ast.Name) and _builtin_exc(t.id) and r is None:
                    classes.append(t.id)
                else:
                    classes = None
                    break
            if not classes:
                continue
            # getattr(e, ...) / hasattr-guarded attributes are not reads of a guaranteed attribute
            name = n.name
            reads_on(lambda v, name=name: isinstance(v, ast.Name) and v.id == name, n.body, classes, 'except %s as %s' % (_u(n.type), name))
    # (b) held error lists
    lists = set()
    for n in walk_no_nested(fn):
        if isinstance(n, (ast.With, ast.AsyncWith)):
            for it in n.items:
                if isinstance(it.context_expr, ast.Call) and isinstance(it.optional_vars, ast.Name):
                    r = ix.resolve_expr(m, it.context_expr.func)
                    if r and r[0] == 'func' and (r[1].short, r[2].name) in ctxs:
                        lists.add(it.optional_vars.id)
        elif isinstance(n, ast.Assign) and isinstance(n.value, ast.Call):
            r = ix.resolve_expr(m, n.value.func)
            if r and r[0] == 'func' and (r[1].short, r[2].name) in prim:
                lists |= {t.id for t in n.targets if isinstance(t, ast.Name)}
    if lists:
        elems_alias = set()
        for n in walk_no_nested(fn):
            if isinstance(n, ast.Assign) and isinstance(n.value, ast.Subscript) and isinstance(n.value.value, ast.Name) and n.value.value.id in lists \
                    and not isinstance(n.value.slice, ast.Slice):
                elems_alias |= {t.id for t in n.targets if isinstance(t, ast.Name)}
            elif isinstance(n, (ast.For, ast.AsyncFor)) and isinstance(n.iter, ast.Name) and n.iter.id in lists and isinstance(n.target, ast.Name):
                elems_alias.add(n.target.id)

        def pred(v):
            if isinstance(v, ast.Name) and v.id in elems_alias:
                return True
            return isinstance(v, ast.Subscript) and isinstance(v.value, ast.Name) and v.value.id in lists and not isinstance(v.slice, ast.Slice)
        reads_on(pred, fn.body, sorted(elems, key=lambda c: c.qual), 'held errors %s' % '/'.join(sorted(lists)))
    return out


def check_read(model, ix, classes, kind, detail):
    """-> (verdict 'ok'|'bad'|'unknown', message)"""
    worst = ('ok', '')
    for c in classes:
        if isinstance(c, str):
            if kind in ('index', 'unpack'):
                ar = FIXED_BUILTIN_ARITY.get(c)
                if ar is None:
                    return ('skip', '')
                cands = [(c, ar)]
            else:
                e = _builtin_exc(c)
                if detail not in dir(e):
                    return ('bad', 'builtin %s has no attribute %s' % (c, detail))
                continue
        else:
            if kind == 'attr':
                have = ix.defined_attrs(c) | model.builtin_attrs(c)
                if detail not in have:
                    return ('bad', '%s (and its bases) never define `%s`' % (c.qual, detail))
                continue
            cands = []
            for k in model.cone(c):
                if k is c or '__init__' in k.methods:
                    cands.append((k.qual, model.arity(k)))
        for label, ar in cands:
            if ar is UNKNOWN:
                if worst[0] == 'ok':
                    worst = ('unknown', '.args shape of %s not determined' % label)
                continue
            if kind == 'index':
                need = detail + 1 if detail >= 0 else -detail
                if ar < need:
                    return ('bad', '%s.__init__ leaves .args with %d element%s' % (label, ar, '' if ar == 1 else 's'))
            elif kind == 'unpack' and ar != detail:
                return ('bad', '%s.__init__ leaves .args with %d element%s, %d are unpacked' % (label, ar, '' if ar == 1 else 's', detail))
    return worst


_EXC_PC = ("class MyError(Exception):\n    def __init__(self, position=None, message=''):\n        self.position = position\n        Exception.__init__(self, format(message, position))\n")


def rule_EXCSHAPE(ctx, floor=7):
    r = Rule('C43-EXCSHAPE', 'every `.args[i]` / `.args` unpacking / attribute read on a variable of nominally known exception class fits the payload the class\' __init__ establishes',
             floor)
    ix = ctx.index
    model = ExcModel(ix)
    prim, ctxs, elems = held_error_sources(ix, model)
    n_idx = 0
    for m in sorted(ix.modules.values(), key=lambda mm: mm.rel):
        if not (m.rel.startswith('Cython/Compiler/') or m.rel.startswith('Cython/Build/') or m.rel.count('/') == 1):
            continue
        for qn, owner, fn in ix.functions_of(m):
            seen = {}
            for var, classes, node, kind, detail, how in typed_exception_reads(ix, model, m, fn, prim, ctxs, elems):
                verdict, why = check_read(model, ix, classes, kind, detail)
                if verdict == 'skip':
                    continue
                what = {'index': '%s.args[%d]' % (var, detail) if kind == 'index' else '', 'unpack': '%d names = %s.args' % (detail if kind == 'unpack' else 0, var),
                        'attr': '%s.%s' % (var, detail)}[kind]
                base = '%s.%s:%s' % (m.short, qn, what)
                seen[base] = seen.get(base, 0) + 1
                key = base if seen[base] == 1 else '%s#%d' % (base, seen[base])
                cl = '/'.join(c if isinstance(c, str) else c.name for c in classes)
                r.inst(key, sample='%s (%s: %s)' % (key, how, cl), nontrivial=kind != 'attr' or verdict != 'ok')
                n_idx += kind != 'attr'
                if verdict == 'bad':
                    r.violate(base, m.rel, node.lineno, '%s.%s reads %s of a %s (%s) but %s: the read raises %s inside the compiler, an internal traceback instead of a positioned error'
                              % (m.short, qn, what, cl, how, why, 'AttributeError' if kind == 'attr' else 'IndexError/ValueError'))
                elif verdict == 'unknown':
                    r.info('%s: %s' % (key, why))
    if n_idx < 4:
        raise AnalysisError('only %d .args reads on typed exception variables found (held-error lists no longer recognised?)' % n_idx)
    # (c) parameters that receive a nominally typed exception at some call site (Errors.report_error(err): err.reported, err.position ...)
    n_par = 0
    for (callee_mod, callee), per_param in sorted(typed_parameters(ix, model, prim, ctxs, elems).items(), key=lambda kv: (kv[0][0].rel, kv[0][1].name)):
        for pname, (classes, sites) in sorted(per_param.items()):
            stored = any(isinstance(n, ast.Name) and n.id == pname and isinstance(n.ctx, (ast.Store, ast.Del)) for n in walk_no_nested(callee))
            if stored:
                continue
            out = []
            _reads_on(lambda v, pname=pname: isinstance(v, ast.Name) and v.id == pname, callee.body, classes, 'argument of %s' % ', '.join(sorted(sites)[:3]), out)
            seen = set()
            for var, cls, node, kind, detail, how in out:
                verdict, why = check_read(model, ix, cls, kind, detail)
                if verdict == 'skip':
                    continue
                what = {'index': '%s.args[%s]' % (var, detail), 'unpack': '%s names = %s.args' % (detail, var), 'attr': '%s.%s' % (var, detail)}[kind]
                key = '%s.%s:%s' % (callee_mod.short, callee.name, what)
                if key in seen:
                    continue
                seen.add(key)
                n_par += 1
                cl = '/'.join(c if isinstance(c, str) else c.name for c in cls)
                r.inst(key, sample='%s (%s: %s)' % (key, how, cl), nontrivial=verdict != 'ok' or kind != 'attr')
                if verdict == 'bad':
                    r.violate(key, callee_mod.rel, node.lineno, '%s.%s reads %s of its parameter, which receives a %s (%s), but %s: the read raises %s inside the compiler, '
                              'an internal traceback instead of a positioned error' % (callee_mod.short, callee.name, what, cl, how, why,
                                                                                     'AttributeError' if kind == 'attr' else 'IndexError/ValueError'))
                elif verdict == 'unknown':
                    r.info('%s: %s' % (key, why))
    if n_par < 1:
        raise AnalysisError('only %d reads on parameters receiving typed exceptions found (Errors.report_error(err) no longer recognised?)' % n_par)
    # positive control: a class that only calls Exception.__init__(self, one_string) has a 1-tuple
    cd = ast.parse(_EXC_PC).body[0]

    class _Owner:
        pass
    o = _Owner()
    o.module = ix.mod('Errors')
    o.methods = {'__init__': cd.body[0]}
    r.positive_control(model.init_arity(o, cd.body[0]) == 1, 'exception class without an explicit self.args tuple: .args[1] is out of range')
    return r


# ====================================================================================================== C43-NONEORD
# A function that returns a value on one path and None on another hands its callers an Optional.  Ordering comparisons (< <= > >=), arithmetic /
# bitwise operators and unary minus raise TypeError on None -- inside the compiler that is an internal traceback
# instead of a positioned error.  Every such use of an Optional result must be guarded by a test that excludes None (on the path, or earlier in the
# same short-circuit expression).
from ..engine import pyflow

_BUILTIN_METHOD_NAMES = set()
for _t in (str, bytes, bytearray, list, dict, set, frozenset, tuple, int, float, complex, object):
    _BUILTIN_METHOD_NAMES |= set(dir(_t))
_ORDER_OPS = (ast.Lt, ast.LtE, ast.Gt, ast.GtE)


def _is_none(e):
    return isinstance(e, ast.Constant) and e.value is None


def _end_kinds(stmts, kinds):
    """kinds of the last simple statement executed on the paths that run off the end of `stmts`
    ('entry' nothing executed yet, 'plain', 'call' an expression statement that is a call and may not return); empty set: the end is not reached"""
    for st in stmts:
        if not kinds:
            return kinds
        if isinstance(st, (ast.Return, ast.Raise, ast.Break, ast.Continue)):
            return set()
        if isinstance(st, ast.If):
            kinds = _end_kinds(st.body, set(kinds)) | (_end_kinds(st.orelse, set(kinds)) if st.orelse else set(kinds))
        elif isinstance(st, (ast.For, ast.AsyncFor, ast.While)):
            infinite = isinstance(st, ast.While) and isinstance(st.test, ast.Constant) and bool(st.test.value)
            has_break = any(isinstance(x, ast.Break) for x in ast.walk(st))
            if infinite and not has_break:
                return set()
            body = _end_kinds(st.body, set(kinds))
            kinds = (set() if infinite else set(kinds)) | body | ({'plain'} if has_break else set())
            if st.orelse:
                kinds = _end_kinds(st.orelse, kinds) | ({'plain'} if has_break else set())
        elif isinstance(st, ast.Try):
            out = _end_kinds(st.body + st.orelse, set(kinds))
            for h in st.handlers:
                out |= _end_kinds(h.body, {'plain'})
            kinds = _end_kinds(st.finalbody, out) if st.finalbody else out
        elif isinstance(st, (ast.With, ast.AsyncWith)):
            kinds = _end_kinds(st.body, set(kinds))
        elif isinstance(st, ast.Match):
            out = set(kinds)
            for c in st.cases:
                out |= _end_kinds(c.body, set(kinds))
            kinds = out
        elif isinstance(st, ast.Expr) and isinstance(st.value, ast.Call):
            kinds = {'call'}
        elif isinstance(st, (ast.FunctionDef, ast.AsyncFunctionDef, ast.ClassDef, ast.Pass)) or (isinstance(st, ast.Expr) and isinstance(st.value, ast.Constant)):
            pass
        else:
            kinds = {'plain'}
    return kinds


def optional_result(fn):
    """'return None' | 'bare return' | 'end of body' if the function returns a value on some path and None on another; else None.
    A path that runs off the end right after an expression-statement call (an error reporter that may raise) is not counted."""
    rets, gen = [], False
    for n in walk_no_nested(fn):
        if isinstance(n, ast.Return):
            rets.append(n)
        elif isinstance(n, (ast.Yield, ast.YieldFrom)):
            gen = True
    if gen or not any(r.value is not None and not _is_none(r.value) for r in rets):
        return None
    if any(r.value is not None and _is_none(r.value) for r in rets):
        return 'return None'
    if any(r.value is None for r in rets):
        return 'bare return'
    ends = _end_kinds(fn.body, {'entry'})
    if ends & {'entry', 'plain'}:
        return 'end of body'
    return None


class OptionalModel:
    def __init__(self, ix):
        self.ix = ix
        self.by_name = {}
        for m in ix.modules.values():
            for qn, owner, fn in ix.functions_of(m):
                self.by_name.setdefault(fn.name, []).append((m, qn, owner, fn))
        self._opt = {}

    def opt(self, fn):
        if id(fn) not in self._opt:
            self._opt[id(fn)] = optional_result(fn)
        return self._opt[id(fn)]

    def callee(self, m, owner, call):
        """-> (label, how None is returned) when every definition the call can nominally reach returns an Optional; else None"""
        f = call.func
        if isinstance(f, ast.Name):
            r = self.ix.resolve_name(m, f.id) if m is not None else None
            if r and r[0] == 'func' and self.opt(r[2]):
                return ('%s.%s' % (r[1].short, r[2].name), self.opt(r[2]))
            return None
        if not isinstance(f, ast.Attribute):
            return None
        if isinstance(f.value, ast.Name) and f.value.id == 'self' and owner is not None:
            fm = self.ix.find_method(owner, f.attr)
            if fm and self.opt(fm[1]):
                return ('%s.%s' % (fm[0].name, f.attr), self.opt(fm[1]))
            return None
        r = self.ix.resolve_expr(m, f) if m is not None else None
        if r and r[0] == 'func':
            return ('%s.%s' % (r[1].short, r[2].name), self.opt(r[2])) if self.opt(r[2]) else None
        if f.attr in _BUILTIN_METHOD_NAMES:
            return None
        defs = [d for d in self.by_name.get(f.attr, ()) if d[2] is not None]
        if defs and all(self.opt(d[3]) for d in defs):
            d = defs[0]
            return ('%s.%s' % (d[2].name, f.attr), self.opt(d[3]))
        return None


def _none_sensitive_operands(n):
    """operands of n that must not be None: [(operand, what)]"""
    out = []
    if isinstance(n, ast.Compare):
        seq = [n.left] + list(n.comparators)
        for i, op in enumerate(n.ops):
            if isinstance(op, _ORDER_OPS):
                out += [(seq[i], 'ordering comparison'), (seq[i + 1], 'ordering comparison')]
    elif isinstance(n, ast.BinOp):
        if not (isinstance(n.op, ast.Mod) and isinstance(n.left, (ast.Constant, ast.JoinedStr)) and isinstance(getattr(n.left, 'value', ''), (str, bytes, list))):
            out.append((n.left, 'arithmetic'))
        if not isinstance(n.op, ast.Mod):
            out.append((n.right, 'arithmetic'))
    elif isinstance(n, ast.UnaryOp) and isinstance(n.op, (ast.USub, ast.UAdd, ast.Invert)):
        out.append((n.operand, 'arithmetic'))
    elif isinstance(n, ast.AugAssign):
        out.append((n.value, 'arithmetic'))
        out.append((n.target, 'arithmetic'))
    return out


def _excludes_none(test, truth, text):
    """does `test` having the truth value `truth` imply that the expression with source `text` is not None?"""
    if isinstance(test, ast.UnaryOp) and isinstance(test.op, ast.Not):
        return _excludes_none(test.operand, not truth, text)
    if isinstance(test, ast.BoolOp):
        if (isinstance(test.op, ast.And) and truth) or (isinstance(test.op, ast.Or) and not truth):
            return any(_excludes_none(v, truth, text) for v in test.values)
        return all(_excludes_none(v, truth, text) for v in test.values)
    if isinstance(test, ast.Compare) and len(test.ops) == 1:
        op, a, b = test.ops[0], test.left, test.comparators[0]
        for x, y in ((a, b), (b, a)):
            if _u(x) == text:
                if _is_none(y):
                    if isinstance(op, (ast.Is, ast.Eq)):
                        return not truth
                    if isinstance(op, (ast.IsNot, ast.NotEq)):
                        return truth
                elif isinstance(y, ast.Constant) and isinstance(op, (ast.Is, ast.Eq)):
                    return truth
                elif isinstance(op, _ORDER_OPS):
                    return True        # the comparison was evaluated without raising
        return False
    if isinstance(test, ast.Call) and isinstance(test.func, ast.Name) and test.func.id == 'isinstance' and len(test.args) == 2 and _u(test.args[0]) == text:
        return truth and 'None' not in _u(test.args[1])
    if _u(test) == text:
        return truth          # truthy => not None
    return False


def _sensitive_uses(node, guards=()):
    """(operator node, operand, what, guards) inside one statement / test; `guards` are the (test, truth) pairs the short-circuit evaluation
    establishes before the operand is evaluated"""
    if isinstance(node, (ast.FunctionDef, ast.AsyncFunctionDef, ast.ClassDef, ast.Lambda)):
        return
    for operand, what in _none_sensitive_operands(node):
        yield node, operand, what, guards
    if isinstance(node, ast.BoolOp):
        truth = isinstance(node.op, ast.And)
        g = tuple(guards)
        for v in node.values:
            yield from _sensitive_uses(v, g)
            g = g + ((v, truth),)
    elif isinstance(node, ast.IfExp):
        yield from _sensitive_uses(node.test, guards)
        yield from _sensitive_uses(node.body, tuple(guards) + ((node.test, True),))
        yield from _sensitive_uses(node.orelse, tuple(guards) + ((node.test, False),))
    elif isinstance(node, (ast.ListComp, ast.SetComp, ast.GeneratorExp, ast.DictComp)):
        g = tuple(guards)
        for comp in node.generators:
            yield from _sensitive_uses(comp.iter, g)
            for cond in comp.ifs:
                yield from _sensitive_uses(cond, g)
                g = g + ((cond, True),)
        for part in ([node.key, node.value] if isinstance(node, ast.DictComp) else [node.elt]):
            yield from _sensitive_uses(part, g)
    else:
        for ch in ast.iter_child_nodes(node):
            yield from _sensitive_uses(ch, guards)


def optional_uses(model, m, owner, fn):
    """-> {site key: (line, operand text, producer label, how None, what, unguarded?)} for one function"""
    # cheap filter: does anything in the function call an Optional-returning function?
    calls = {}
    for n in walk_no_nested(fn):
        if isinstance(n, ast.Call):
            c = model.callee(m, owner, n)
            if c:
                calls[id(n)] = c
    if not calls:
        return {}
    sites = {}

    def look(node, state):
        maybe = {f[1]: f[2:] for f in state if isinstance(f, tuple) and f and f[0] == 'OPT'}
        cleared = {f[1]: f[2:] for f in state if isinstance(f, tuple) and f and f[0] == 'OPT-CLEARED'}
        facts = [(f[1], f[2]) for f in state if isinstance(f, tuple) and f and f[0] == '?']
        for opnode, operand, what, guards in _sensitive_uses(node):
            if isinstance(operand, ast.Call) and id(operand) in calls:
                text, (label, how) = _u(operand), calls[id(operand)]
            elif isinstance(operand, ast.Name) and operand.id in maybe:
                text, (label, how) = operand.id, maybe[operand.id]
            elif isinstance(operand, ast.Name) and operand.id in cleared:
                text, (label, how) = operand.id, cleared[operand.id]
            else:
                continue
            ok = (isinstance(operand, ast.Name) and operand.id in cleared and operand.id not in maybe) or any(_excludes_none(t, truth, text) for t, truth in guards)
            if not ok:
                for ftext, truth in facts:
                    try:
                        e = ast.parse(ftext, mode='eval').body
                    except SyntaxError:
                        continue
                    if _excludes_none(e, truth, text):
                        ok = True
                        break
            k = (text, ' '.join(_u(opnode).split()))
            prev = sites.get(k)
            sites[k] = (opnode.lineno, text, label, how, what, (prev[5] if prev else False) or not ok)

    def tr(node, state):
        if isinstance(node, (ast.FunctionDef, ast.AsyncFunctionDef, ast.ClassDef)):
            return state
        look(node, state)
        s = set(state)
        if isinstance(node, (ast.Assign, ast.AnnAssign, ast.AugAssign)):
            targets = node.targets if isinstance(node, ast.Assign) else [node.target]
            names = {x.id for t in targets for x in ast.walk(t) if isinstance(x, ast.Name) and isinstance(x.ctx, ast.Store)}
            s = {f for f in s if not (isinstance(f, tuple) and f and f[0] in ('OPT', 'OPT-CLEARED') and f[1] in names)}
            v = getattr(node, 'value', None)
            if isinstance(node, (ast.Assign, ast.AnnAssign)) and isinstance(v, ast.Call) and id(v) in calls:
                for t in targets:
                    if isinstance(t, ast.Name):
                        s.add(('OPT', t.id) + calls[id(v)])
        elif isinstance(node, (ast.Name, ast.Tuple, ast.List)) and isinstance(getattr(node, 'ctx', None), ast.Store):
            names = {x.id for x in ast.walk(node) if isinstance(x, ast.Name)}
            s = {f for f in s if not (isinstance(f, tuple) and f and f[0] in ('OPT', 'OPT-CLEARED') and f[1] in names)}
        elif isinstance(node, ast.withitem) and node.optional_vars is not None:
            names = {x.id for x in ast.walk(node.optional_vars) if isinstance(x, ast.Name)}
            s = {f for f in s if not (isinstance(f, tuple) and f and f[0] in ('OPT', 'OPT-CLEARED') and f[1] in names)}
        return frozenset(s)

    def refine(test, truth, state):
        # a branch on which the variable is known to be None / not None
        out = set(state)
        for f in state:
            if isinstance(f, tuple) and f and f[0] == 'OPT' and _excludes_none(test, truth, f[1]):
                out.discard(f)
                out.add(('OPT-CLEARED',) + f[1:])
        return frozenset(out)
    try:
        pyflow.Flow(tr, refine=refine).run(fn)
    except pyflow.TooManyStates:
        return {('<function>', fn.name): (fn.lineno, fn.name, '', '', 'too many path states', None)}
    return sites


_NONEORD_BAD = ("class St:\n    def level(self):\n        if not self.states:\n            return None\n        return self.states[-1].level\n"
                "class Sc:\n    def close(self):\n        if self.depth < self.stack[-1].level():\n            self.err()\n")
_NONEORD_GOOD = ("class St:\n    def level(self):\n        if self.states:\n            return self.states[-1].level\n"
                 "class Sc:\n    def close(self):\n        lv = self.stack[-1].level()\n        if lv is None:\n            return self.err()\n        if self.depth < lv:\n            self.err()\n"
                 "    def close2(self):\n        lv = self.stack[-1].level()\n        if not (lv is not None and self.depth >= lv):\n            self.err()\n"
                 "    def close3(self):\n        if self.stack[-1].level() is None or self.depth < self.stack[-1].level():\n            self.err()\n"
                 "    def eq(self):\n        return self.stack[-1].level() == self.depth\n")


class _MiniIndex:
    """just enough of PyIndex for OptionalModel on an embedded example"""
    def __init__(self, src):
        self.tree = ast.parse(src)
        self.modules = {}
        self.classes = {c.name: c for c in self.tree.body if isinstance(c, ast.ClassDef)}

    def functions(self):
        for c in self.classes.values():
            for f in c.body:
                if isinstance(f, ast.FunctionDef):
                    yield c, f


def _mini_noneord(src):
    mi = _MiniIndex(src)

    class M(OptionalModel):
        def __init__(self):
            self.ix = None
            self._opt = {}
            self.by_name = {}
            for c, f in mi.functions():
                self.by_name.setdefault(f.name, []).append((None, f.name, c, f))

        def callee(self, m, owner, call):
            f = call.func
            if isinstance(f, ast.Attribute) and f.attr not in _BUILTIN_METHOD_NAMES:
                defs = self.by_name.get(f.attr, ())
                if defs and all(self.opt(d[3]) for d in defs):
                    return ('%s.%s' % (defs[0][2].name, f.attr), self.opt(defs[0][3]))
            return None
    model = M()
    res = {}
    for c, f in mi.functions():
        for k, v in optional_uses(model, None, c, f).items():
            res[(f.name,) + k] = v
    return res


def rule_NONEORD(ctx, floor=2):
    r = Rule('C43-NONEORD', 'the result of a function that returns None on one path and a value on another is an operand of an ordering comparison / arithmetic operator '
                            'only behind a test that excludes None (TypeError inside the compiler otherwise)', floor)
    ix = ctx.index
    model = OptionalModel(ix)
    n_opt = sum(1 for lst in model.by_name.values() for d in lst if model.opt(d[3]))
    if n_opt < 100:
        raise AnalysisError('only %d functions with an Optional result found in the package (return analysis broken?)' % n_opt)
    for m in sorted(ix.modules.values(), key=lambda mm: mm.rel):
        if not (m.rel.startswith('Cython/Compiler/') or m.rel.startswith('Cython/Plex/') or m.rel.startswith('Cython/Build/') or m.rel.count('/') == 1):
            continue
        for qn, owner, fn in ix.functions_of(m):
            for (text, optext), (line, _, label, how, what, bad) in sorted(optional_uses(model, m, owner, fn).items()):
                key = '%s.%s:%s' % (m.short, qn, optext if len(optext) <= 90 else optext[:87] + '...')
                if bad is None:
                    r.info('%s: %s' % (key, what))
                    continue
                r.inst(key, sample='%s (%s of the result of %s, which may be None: %s)' % (key, what, label, how))
                if bad:
                    r.violate(key, m.rel, line, '%s.%s uses `%s` in an %s (`%s`), but %s returns None on one of its paths (%s) and no test on the way excludes None: '
                              'the operator raises TypeError inside the compiler - an internal traceback instead of a positioned error or generated code'
                              % (m.short, qn, text, what, optext, label, how))
    bad = _mini_noneord(_NONEORD_BAD)
    good = _mini_noneord(_NONEORD_GOOD)
    r.positive_control(len(bad) == 1 and all(v[5] for v in bad.values()) and len(good) >= 3 and not any(v[5] for v in good.values()),
                       'ordering comparison with an unguarded Optional result / four guarded or None-tolerant forms')
    return r


# ====================================================================================================== C43-LEXCASE / C43-CPREFIX
# The lexer (Lexicon.make_lexicon) accepts the marker letters of an integer literal in character classes: Any("Xx"), Any("Oo"), Any("Bb"), Any("Uu"),
# Any("Ll").  Both spellings of a class denote the same literal (PEP 3127), so every function that inspects the literal *text* must treat them alike:
#   C43-LEXCASE  the function, partially evaluated for "the inspected character is c" and for "... is C" (c, C the two cases of a letter in one
#                lexer class), leaves the same residual program.  A test that knows only one case sends the other spelling down a different path
#                (0O17 copied into the C file, a 0X literal parsed as Py2 octal -> ValueError, `1L` counted as unsigned ...).
#   C43-CPREFIX  in the function that spells an IntNode for the C file, every path taken by a prefix letter that C99 does not have (6.4.4.1 knows
#                0x / 0X and the bare leading 0 only) rewrites the text before it is returned.
C99_PREFIX_LETTERS = frozenset('xX')       # ISO C99 6.4.4.1: hexadecimal-prefix is 0x or 0X; octal constants start with a bare 0
_STR_PREDICATES = ('isdigit', 'isalpha', 'isalnum', 'islower', 'isupper', 'isspace', 'isdecimal', 'isnumeric', 'isascii', 'isidentifier')
_TEXT_KEEPING_METHODS = ('strip', 'lstrip', 'rstrip', 'replace', 'removeprefix', 'removesuffix')
_CASE_FOLDING_METHODS = ('lower', 'upper', 'casefold', 'swapcase')


def int_literal_classes(ctx):
    """-> (all Any() classes reachable from the pattern of the INT token, the classes standing right after Str("0") i.e. the prefix classes)"""
    tree = ctx.parse('Cython/Compiler/Lexicon.py')
    mk = tables.find_function(tree, 'make_lexicon')
    if mk is None:
        raise AnalysisError('Lexicon.make_lexicon vanished')
    mod_strs = {}
    for st in tree.body:
        if isinstance(st, ast.Assign) and len(st.targets) == 1 and isinstance(st.targets[0], ast.Name):
            v = _fold_str(st.value, mod_strs)
            if v is not None:
                mod_strs[st.targets[0].id] = v
    env, funcs = {}, {}
    for st in mk.body:
        if isinstance(st, ast.Assign) and len(st.targets) == 1 and isinstance(st.targets[0], ast.Name):
            env[st.targets[0].id] = st.value
        elif isinstance(st, ast.FunctionDef):
            funcs[st.name] = st
    root = None
    for n in ast.walk(mk):
        if isinstance(n, ast.Tuple) and len(n.elts) == 2 and isinstance(n.elts[1], ast.Call) and any(
                k.arg == 'symbol' and isinstance(k.value, ast.Constant) and k.value.value == 'INT' for k in n.elts[1].keywords):
            root = n.elts[0]
    if root is None:
        raise AnalysisError("Lexicon: no token-table row (pattern, Method(..., symbol='INT')) found")

    def reach(node, seen, out):
        for x in ast.walk(node):
            if isinstance(x, ast.Call) and isinstance(x.func, ast.Name) and x.func.id == 'Any' and len(x.args) == 1:
                s = _fold_str(x.args[0], mod_strs)
                if s is None:
                    raise AnalysisError('Lexicon: Any(%s) is not a constant string' % _u(x.args[0]))
                out.append(s)
            elif isinstance(x, ast.Name) and x.id in env and x.id not in seen:
                seen.add(x.id)
                reach(env[x.id], seen, out)
            elif isinstance(x, ast.Call) and isinstance(x.func, ast.Name) and x.func.id in funcs and ('fn:' + x.func.id) not in seen:
                seen.add('fn:' + x.func.id)
                for st in ast.walk(funcs[x.func.id]):
                    if isinstance(st, ast.Return) and st.value is not None:
                        reach(st.value, seen, out)
        return out
    classes = reach(root, set(), [])
    prefix = []
    seen = set()
    todo = [root]
    while todo:
        node = todo.pop()
        for x in ast.walk(node):
            if isinstance(x, ast.Name) and x.id in env and x.id not in seen:
                seen.add(x.id)
                todo.append(env[x.id])
            if isinstance(x, ast.BinOp) and isinstance(x.op, ast.Add) and isinstance(x.left, ast.Call) and isinstance(x.left.func, ast.Name) and x.left.func.id == 'Str' \
                    and [tables.literal(a) for a in x.left.args] == ['0']:
                for s in reach(x.right, set(), []):
                    if s and all(ch.isalpha() for ch in s):
                        prefix.append(s)
    if not any(len(k) == 2 and k[0].isalpha() and k[0].swapcase() == k[1] for k in classes):
        raise AnalysisError('Lexicon: the INT pattern has no two-case marker class (Any("Xx") ...): pattern extraction broken')
    if not prefix:
        raise AnalysisError('Lexicon: no prefix class after Str("0") found in the INT pattern')
    return classes, prefix


def _fold_str(node, env):
    if isinstance(node, ast.Constant) and isinstance(node.value, str):
        return node.value
    if isinstance(node, ast.Name) and node.id in env:
        return env[node.id]
    if isinstance(node, ast.BinOp) and isinstance(node.op, ast.Add):
        a, b = _fold_str(node.left, env), _fold_str(node.right, env)
        if a is not None and b is not None:
            return a + b
    return None


def case_pairs(classes):
    """{lowercase letter: class text} for the letters whose two cases stand in one lexer class"""
    out = {}
    for k in classes:
        for ch in k:
            if ch.isalpha() and ch.islower() and ch.upper() in k and ch.upper() != ch:
                out.setdefault(ch, k)
    return out


class LiteralText:
    """which expressions of a function denote (parts of) the unmodified text of an integer literal token"""

    def __init__(self, fn, roots):
        self.fn = fn
        self.roots = set(roots)          # expression texts: 'self.value', parameter names ...
        self.names = set(r for r in roots if r.isidentifier())
        self.folded = set()
        changed = True
        while changed:
            changed = False
            for n in walk_no_nested(fn):
                if isinstance(n, (ast.Assign, ast.AnnAssign)) and getattr(n, 'value', None) is not None:
                    tg = n.targets if isinstance(n, ast.Assign) else [n.target]
                    for t in tg:
                        if isinstance(t, ast.Name):
                            if t.id not in self.names and self.is_text(n.value):
                                self.names.add(t.id)
                                changed = True
                            if t.id not in self.folded and self.is_folded(n.value):
                                self.folded.add(t.id)
                                changed = True

    def is_text(self, e):
        if _u(e) in self.roots:
            return True
        if isinstance(e, ast.Name):
            return e.id in self.names
        if isinstance(e, ast.Subscript):
            return self.is_text(e.value)
        if isinstance(e, ast.IfExp):
            return self.is_text(e.body) or self.is_text(e.orelse)
        if isinstance(e, ast.Call):
            f = e.func
            if isinstance(f, ast.Attribute) and f.attr in _TEXT_KEEPING_METHODS:
                return self.is_text(f.value)
            if isinstance(f, ast.Attribute) and f.attr == 'cast' and len(e.args) == 2:
                return self.is_text(e.args[1])
            if isinstance(f, ast.Name) and f.id == 'str' and len(e.args) == 1 and isinstance(e.args[0], (ast.Name, ast.Attribute)):
                return self.is_text(e.args[0])
        return False

    def is_folded(self, e):
        if isinstance(e, ast.Name):
            return e.id in self.folded
        if isinstance(e, ast.Subscript):
            return self.is_folded(e.value)
        if isinstance(e, ast.Call) and isinstance(e.func, ast.Attribute):
            if e.func.attr in _CASE_FOLDING_METHODS:
                return self.is_text(e.func.value) or self.is_folded(e.func.value)
            if e.func.attr in _TEXT_KEEPING_METHODS:
                return self.is_folded(e.func.value)
        return False


def _const_letters(e):
    """the characters a constant operand of a character test offers: str for a constant string / tuple-list-set of strings; None otherwise"""
    if isinstance(e, ast.Constant) and isinstance(e.value, str):
        return e.value
    if isinstance(e, (ast.Tuple, ast.List, ast.Set)) and e.elts and all(isinstance(x, ast.Constant) and isinstance(x.value, str) for x in e.elts):
        return ''.join(x.value for x in e.elts)
    return None


def char_tests(fn, lt):
    """[(tested expression text, letters of the constant, Compare node, folded?)] for the comparisons of literal text with constant characters"""
    out = []
    for n in walk_no_nested(fn):
        if isinstance(n, ast.Compare) and len(n.ops) == 1:
            op, a, b = n.ops[0], n.left, n.comparators[0]
            if isinstance(op, (ast.In, ast.NotIn)):
                cands = [(a, b)]
            elif isinstance(op, (ast.Eq, ast.NotEq)):
                cands = [(a, b), (b, a)]
            else:
                continue
            for x, c in cands:
                letters = _const_letters(c)
                if letters is None or isinstance(x, ast.Constant):
                    continue
                if isinstance(x, ast.Subscript) and not isinstance(x.slice, ast.Slice) and (lt.is_text(x) or lt.is_folded(x)):
                    out.append((_u(x), letters, n, lt.is_folded(x)))
                elif isinstance(x, ast.Name) and (x.id in lt.names or x.id in lt.folded) and _char_alias(fn, x.id, lt):
                    out.append((x.id, letters, n, x.id in lt.folded and x.id not in lt.names))
    return out


def _char_alias(fn, name, lt):
    """is the local `name` assigned a single character of the literal text (value[1]) somewhere?"""
    for n in walk_no_nested(fn):
        if isinstance(n, ast.Assign) and any(isinstance(t, ast.Name) and t.id == name for t in n.targets):
            v = n.value
            while isinstance(v, ast.Call) and isinstance(v.func, ast.Attribute) and v.func.attr in _CASE_FOLDING_METHODS + _TEXT_KEEPING_METHODS:
                v = v.func.value
            if isinstance(v, ast.Subscript) and (not isinstance(v.slice, ast.Slice) or _one_char_slice(v.slice) is not None) and (lt.is_text(v) or lt.is_folded(v)):
                return True
    return False


def _one_char_slice(sl):
    """k for a slice [k:k+1] with constant bounds, else None"""
    if isinstance(sl, ast.Slice) and sl.step is None and isinstance(sl.lower, ast.Constant) and isinstance(sl.upper, ast.Constant) \
            and isinstance(sl.lower.value, int) and isinstance(sl.upper.value, int) and sl.upper.value == sl.lower.value + 1:
        return sl.lower.value
    return None


class Specialiser:
    """partial evaluation of a function body under the assumption `<etext> == letter` (a one-character string)"""

    def __init__(self, etext, letter):
        self.etext, self.letter = etext, letter
        self.names = {x.id for x in ast.walk(ast.parse(etext, mode='eval')) if isinstance(x, ast.Name)}
        self.alive = True
        self.examined = False

    # ---- expressions
    def truth(self, e):
        """True / False / None (not decided by the assumption)"""
        if isinstance(e, ast.Constant):
            return bool(e.value)
        if isinstance(e, ast.UnaryOp) and isinstance(e.op, ast.Not):
            t = self.truth(e.operand)
            return None if t is None else not t
        if isinstance(e, ast.BoolOp):
            is_and = isinstance(e.op, ast.And)
            unknown = False
            for v in e.values:
                t = self.truth(v)
                if t is None:
                    unknown = True
                elif t != is_and:
                    return t
            return None if unknown else is_and
        if not self.alive:
            return None
        if isinstance(e, ast.Compare) and len(e.ops) == 1:
            op, a, b = e.ops[0], e.left, e.comparators[0]
            for x, c in ((a, b), (b, a)):
                if _u(x) != self.etext:
                    continue
                letters = _const_letters(c)
                if letters is None:
                    continue
                if isinstance(op, (ast.In, ast.NotIn)) and x is a:
                    if isinstance(c, ast.Constant):
                        r = self.letter in letters
                    else:
                        r = self.letter in [y.value for y in c.elts]
                    self.examined = True
                    return r if isinstance(op, ast.In) else not r
                if isinstance(op, (ast.Eq, ast.NotEq)) and isinstance(c, ast.Constant):
                    self.examined = True
                    r = self.letter == c.value
                    return r if isinstance(op, ast.Eq) else not r
        if isinstance(e, ast.Call) and isinstance(e.func, ast.Attribute) and e.func.attr in _STR_PREDICATES and not e.args and not e.keywords \
                and _u(e.func.value) == self.etext:
            self.examined = True
            return bool(getattr(self.letter, e.func.attr)())      # a str predicate of the interpreter on a one-character string
        return None

    def residual_expr(self, e):
        sp = self

        class T(ast.NodeTransformer):
            def visit_IfExp(self, n):
                t = sp.truth(n.test)
                if t is None:
                    return self.generic_visit(n)
                return self.visit(n.body if t else n.orelse)

            def visit_BoolOp(self, n):
                t = sp.truth(n)
                if t is not None:
                    return ast.Constant(value=t)
                is_and = isinstance(n.op, ast.And)
                vals = []
                for v in n.values:
                    tv = sp.truth(v)
                    if tv is None:
                        vals.append(self.visit(v))
                    # a decided operand that does not decide the whole is the neutral element: dropped
                if len(vals) == 1:
                    return vals[0]
                return ast.BoolOp(op=n.op, values=vals)

            def visit_Compare(self, n):
                t = sp.truth(n)
                return ast.Constant(value=t) if t is not None else self.generic_visit(n)

            def visit_UnaryOp(self, n):
                t = sp.truth(n)
                return ast.Constant(value=t) if t is not None else self.generic_visit(n)

            def visit_Call(self, n):
                t = sp.truth(n)
                return ast.Constant(value=t) if t is not None else self.generic_visit(n)
        import copy
        return ast.dump(T().visit(copy.deepcopy(e)))

    # ---- statements
    def _assigned(self, node):
        out = set()
        for n in ast.walk(node):
            if isinstance(n, ast.Name) and isinstance(n.ctx, (ast.Store, ast.Del)):
                out.add(n.id)
        return out

    def _kill_if_assigned(self, node):
        # a subscript of the text (`value[-1]`) is assumed to be the letter where it is first tested; assignments to its base before that point
        # only prepare the text, assignments after it end the assumption
        if self.alive and (self.examined or self.etext.isidentifier()) and self._assigned(node) & self.names:
            self.alive = False

    def block(self, stmts):
        out = []
        for st in stmts:
            x_before = self.examined
            if isinstance(st, ast.If):
                t = self.truth(st.test)
                if self.examined and not x_before:
                    out.append(('examined',))
                if t is True:
                    out += self.block(st.body)
                elif t is False:
                    out += self.block(st.orelse)
                else:
                    test = self.residual_expr(st.test)
                    a0, x0 = self.alive, self.examined
                    body = self.block(st.body)
                    a1 = self.alive
                    self.alive, self.examined = a0, x0
                    orelse = self.block(st.orelse)
                    self.alive = self.alive and a1
                    self.examined = x0          # per path: the branches carry their own ('examined',) markers
                    out.append(('if', test, body, orelse, st))
            elif isinstance(st, (ast.While, ast.For, ast.AsyncFor)):
                head = []
                if isinstance(st, ast.While):
                    t = self.truth(st.test)
                    if t is False:
                        out += self.block(st.orelse)
                        continue
                    if t is True:
                        # the first iteration sees the assumed character
                        head = self.block(st.body)
                self._kill_if_assigned(st)
                hdr = self.residual_expr(st.test) if isinstance(st, ast.While) else ast.dump(st.target) + ast.dump(st.iter)
                out.append(('loop', hdr, head, self.block(st.body), self.block(st.orelse), st))
            elif isinstance(st, ast.Try):
                parts = [self.block(st.body)]
                self._kill_if_assigned(st)
                parts += [self.block(h.body) for h in st.handlers] + [self.block(st.orelse), self.block(st.finalbody)]
                out.append(('try', tuple(ast.dump(h.type) if h.type is not None else '' for h in st.handlers), parts, st))
            elif isinstance(st, (ast.With, ast.AsyncWith)):
                hdr = ''.join(ast.dump(i) for i in st.items)
                self._kill_if_assigned(ast.Module(body=[ast.Expr(i.optional_vars) for i in st.items if i.optional_vars is not None], type_ignores=[]))
                out.append(('with', hdr, self.block(st.body), st))
            elif isinstance(st, (ast.FunctionDef, ast.AsyncFunctionDef, ast.ClassDef)):
                out.append(('def', ast.dump(st), st))
            else:
                out.append(('s', self.residual_expr(st), st))
                if self.examined and not x_before:
                    out.append(('examined',))
                defines = isinstance(st, ast.Assign) and any(isinstance(t, ast.Name) and t.id == self.etext for t in st.targets)
                if defines:
                    self.alive = True
                    if not self.examined:
                        self.examined = True
                        out.append(('examined',))
                else:
                    self._kill_if_assigned(st)
        return out


def _strip_nodes(res):
    """the residual without the AST nodes / flags it carries, for comparison"""
    out = []
    for item in res:
        k = item[0]
        if k == 'examined':
            continue
        if k == 'if':
            out.append(('if', item[1], _strip_nodes(item[2]), _strip_nodes(item[3])))
        elif k == 'loop':
            out.append(('loop', item[1], _strip_nodes(item[2]), _strip_nodes(item[3]), _strip_nodes(item[4])))
        elif k == 'try':
            out.append(('try', item[1], tuple(tuple(_strip_nodes(p)) for p in item[2])))
        elif k == 'with':
            out.append(('with', item[1], _strip_nodes(item[2])))
        else:
            out.append((k, item[1]))
    return out


def _first_difference(a, b):
    """source line of the first statement at which two residuals differ"""
    a, b = [x for x in a if x[0] != 'examined'], [y for y in b if y[0] != 'examined']
    for x, y in zip(a, b):
        if _strip_nodes([x]) != _strip_nodes([y]):
            if x[0] == y[0] == 'if' and x[1] == y[1]:
                return _first_difference(x[2], y[2]) or _first_difference(x[3], y[3]) or x[-1].lineno
            node = x[2] if x[0] in ('s', 'def') else x[-1]
            return getattr(node, 'lineno', None)
    if len(a) != len(b):
        rest = a[len(b):] or b[len(a):]
        node = rest[0][2] if rest[0][0] in ('s', 'def') else rest[0][-1]
        return getattr(node, 'lineno', None)
    return None


def specialise(fn, etext, letter):
    sp = Specialiser(etext, letter)
    # the assumption starts to hold where the tested expression is (re)defined; for a subscript of the text it holds from the entry
    sp.alive = not etext.isidentifier()
    return sp.block(fn.body), sp


def lexcase_findings(fn, lt, pairs):
    """-> [(key suffix, sample, lineno, problem or None)] for one function: one obligation per (tested expression, two-case letter)"""
    tests = char_tests(fn, lt)
    out = []
    seen = set()
    for etext, letters, node, folded in tests:
        for low in sorted({ch.lower() for ch in letters if ch.lower() in pairs}):
            if (etext, low) in seen:
                continue
            seen.add((etext, low))
            k = '%s~%s%s' % (etext, low, low.upper())
            if folded:
                out.append((k, '%s is case-folded before the test' % etext, node.lineno, None, True))
                continue
            ra, _ = specialise(fn, etext, low)
            rb, _ = specialise(fn, etext, low.upper())
            if _strip_nodes(ra) == _strip_nodes(rb):
                out.append((k, "%s == %r and == %r leave the same residual program" % (etext, low, low.upper()), node.lineno, None, False))
            else:
                line = _first_difference(ra, rb) or node.lineno
                out.append((k, 'differ', line, (low, low.upper()), False))
    return out


def literal_text_functions(ix):
    """functions that see the text of an INT token: [(module, qualname, owner, fn, LiteralText)]
    roots: self.value in the methods of ExprNodes.IntNode; the variable a parser function passes as IntNode(value=...) when it derives from <scanner>.systring;
    parameters that receive such text in a call (transitively)."""
    en = ix.mod('ExprNodes')
    intnode = ix.cls('ExprNodes', 'IntNode')
    if intnode is None:
        raise AnalysisError('ExprNodes.IntNode vanished')
    work = {}       # id(fn) -> [m, qn, owner, fn, roots]
    for name, fn in intnode.methods.items():
        if fn.args.args:
            work[id(fn)] = [en, 'IntNode.' + name, intnode, fn, {fn.args.args[0].arg + '.value'}]
    pa = ix.mod('Parsing')
    for qn, owner, fn in ix.functions_of(pa):
        for n in walk_no_nested(fn):
            if isinstance(n, ast.Call):
                r = ix.resolve_expr(pa, n.func)
                if r and r[0] == 'class' and r[1] is intnode:
                    for kw in n.keywords:
                        if kw.arg == 'value' and isinstance(kw.value, ast.Name):
                            # does the variable derive from <x>.systring ?
                            for a in walk_no_nested(fn):
                                if isinstance(a, (ast.Assign, ast.AnnAssign)) and getattr(a, 'value', None) is not None and \
                                        any(isinstance(t, ast.Name) and t.id == kw.value.id for t in (a.targets if isinstance(a, ast.Assign) else [a.target])) and \
                                        any(isinstance(x, ast.Attribute) and x.attr == 'systring' for x in ast.walk(a.value)):
                                    work.setdefault(id(fn), [pa, qn, owner, fn, set()])[4].add(kw.value.id)
    if not any(w[0] is pa for w in work.values()):
        raise AnalysisError('Parsing: no function builds ExprNodes.IntNode(value=<text derived from .systring>)')
    # parameters receiving literal text
    for _ in range(4):
        added = False
        for m, qn, owner, fn, roots in list(work.values()):
            lt = LiteralText(fn, roots)
            for n in walk_no_nested(fn):
                if not isinstance(n, ast.Call):
                    continue
                r = ix.resolve_expr(m, n.func)
                if not (r and r[0] == 'func'):
                    continue
                callee = r[2]
                params = [a.arg for a in callee.args.posonlyargs + callee.args.args]
                for i, a in enumerate(n.args):
                    if i < len(params) and isinstance(a, (ast.Name, ast.Attribute)) and lt.is_text(a):
                        w = work.setdefault(id(callee), [r[1], callee.name, None, callee, set()])
                        if params[i] not in w[4]:
                            w[4].add(params[i])
                            added = True
        if not added:
            break
    return [(m, qn, owner, fn, LiteralText(fn, roots)) for m, qn, owner, fn, roots in sorted(work.values(), key=lambda w: (w[0].rel, w[1]))]


_LEXCASE_BAD = ("def spell(value):\n    if value[0] == '0':\n        kind = value[1]\n        if kind in 'xX':\n            return value\n        elif kind == 'o':\n            value = '0' + value[2:]\n"
                "        elif kind in 'bB':\n            value = str(int(value[2:], 2))\n    return value\n")
_LEXCASE_GOOD = ("def spell(value):\n    if value[0] != '0':\n        return value\n    kind = value[1]\n    if not (kind != 'o' and kind != 'O'):\n        return '0' + value[2:]\n"
                 "    if kind == 'b':\n        return str(int(value[2:], 2))\n    elif kind == 'B':\n        return str(int(value[2:], 2))\n    return value if kind in ('x', 'X') else value\n")


def rule_LEXCASE(ctx, floor=7):
    r = Rule('C43-LEXCASE', 'a function that inspects the text of an integer literal treats the two cases of a marker letter the lexer accepts in one class (Any("Oo") ...) alike: '
                            'partially evaluated for either spelling it leaves the same residual program', floor)
    classes, prefix = int_literal_classes(ctx)
    pairs = case_pairs(classes)
    n_fn = 0
    for m, qn, owner, fn, lt in literal_text_functions(ctx.index):
        res = lexcase_findings(fn, lt, pairs)
        n_fn += bool(res)
        for k, sample, line, problem, folded in res:
            key = '%s.%s:%s' % (m.short, qn, k)
            r.inst(key, sample='%s: %s' % (key, sample), nontrivial=not folded)
            if problem:
                low, up = problem
                r.violate(key, m.rel, line, '%s.%s treats an integer literal differently when the character it inspects (`%s`) is %r than when it is %r, although the lexer accepts '
                          'both in the class Any(%r) and both spell the same literal: one spelling takes a path written for something else (text copied unconverted into the C file, '
                          'a ValueError/KeyError inside the compiler, or a different value)' % (m.short, qn, k.split('~')[0], low, up, pairs[low]))
    if n_fn < 3:
        raise AnalysisError('only %d functions with character tests on integer-literal text found' % n_fn)
    bad_fn, good_fn = ast.parse(_LEXCASE_BAD).body[0], ast.parse(_LEXCASE_GOOD).body[0]
    pb = lexcase_findings(bad_fn, LiteralText(bad_fn, {'value'}), pairs)
    pg = lexcase_findings(good_fn, LiteralText(good_fn, {'value'}), pairs)
    r.positive_control([k for k, _, _, p, _ in pb if p] == ['kind~oO'] and len(pg) == 3 and not any(p for _, _, _, p, _ in pg),
                       "`kind == 'o'` next to `kind in 'xX'` / De Morgan, early-return, duplicated-branch and tuple forms of the correct tests")
    return r


# ------------------------------------------------------------------------------------------------ C43-CPREFIX
def _keeps_prefix(value, var):
    """does the expression hand on the first two characters of `var` (not under a slice that cuts them off, not through a converting call)?"""
    if isinstance(value, ast.Name):
        return value.id == var
    if isinstance(value, ast.Subscript):
        if isinstance(value.value, ast.Name) and value.value.id == var and isinstance(value.slice, ast.Slice):
            lo = value.slice.lower
            if lo is None:
                return True
            return not (isinstance(lo, ast.Constant) and isinstance(lo.value, int) and lo.value >= 2)
        return False
    if isinstance(value, ast.BinOp) and isinstance(value.op, ast.Add):
        # only the leftmost operand supplies the first characters
        return _keeps_prefix(value.left, var)
    if isinstance(value, ast.IfExp):
        return _keeps_prefix(value.body, var) or _keeps_prefix(value.orelse, var)
    if isinstance(value, ast.Call) and isinstance(value.func, ast.Attribute) and value.func.attr in _TEXT_KEEPING_METHODS + _CASE_FOLDING_METHODS:
        return _keeps_prefix(value.func.value, var)
    return False


def unconverted_returns(res, lt):
    """walk every path of a residual: [(line, variable)] for the returns that are reached after the prefix character was examined and whose value still
    begins with the unmodified literal text.  Path state: (examined?, the locals that still carry the original first characters)."""
    bad = []

    def hands_on(e, keeps):
        """the variable / root through which the expression still starts with the original text, or None"""
        parts = []

        def flat(x):
            if isinstance(x, ast.BinOp) and isinstance(x.op, ast.Add):
                flat(x.left)
                flat(x.right)
            else:
                parts.append(x)
        flat(e)
        # a leading sign variable does not change what follows it: every '+'-operand may be the one that supplies the prefix
        for p in parts:
            if _u(p) in lt.roots:
                return _u(p)
            for v in keeps:
                if _keeps_prefix(p, v):
                    return v
        return None

    def walk(items, states):
        """states: set of (examined, frozenset(keeps)); -> states that reach the end of the items"""
        for it in items:
            if not states:
                return states
            k = it[0]
            if k == 'examined':
                states = {(True, ks) for _, ks in states}
            elif k == 's':
                st = it[2]
                if isinstance(st, ast.Return):
                    if st.value is not None:
                        for ex, ks in states:
                            c = hands_on(st.value, ks) if ex else None
                            if c:
                                bad.append((st.lineno, c))
                    return set()
                if isinstance(st, ast.Raise):
                    return set()
                if isinstance(st, ast.Assign):
                    new = set()
                    for ex, ks in states:
                        ks2 = set(ks)
                        for t in st.targets:
                            if isinstance(t, ast.Name):
                                ks2.discard(t.id)
                                if hands_on(st.value, ks) is not None:
                                    ks2.add(t.id)
                        new.add((ex, frozenset(ks2)))
                    states = new
            elif k == 'if':
                states = walk(it[2], set(states)) | walk(it[3], set(states))
            elif k == 'loop':
                after_head = walk(it[2], set(states)) if it[2] else set(states)
                states = after_head | walk(it[3], set(after_head))
                if it[4]:
                    states = walk(it[4], states)
            elif k == 'try':
                out = set()
                for p in it[2][:-1]:
                    out |= walk(p, set(states))
                states = walk(it[2][-1], out) if it[2][-1] else out
            elif k == 'with':
                states = walk(it[2], states)
        return states
    walk(res, {(False, frozenset())})
    return sorted(set(bad))


def c_spelling_functions(ix):
    """methods of ExprNodes.IntNode that build the C spelling: reachable from get_constant_c_result_code / calculate_result_code / generate_evaluation_code
    through self.<method>() calls, returning an expression that contains the literal text"""
    intnode = ix.cls('ExprNodes', 'IntNode')
    start = [n for n in ('get_constant_c_result_code', 'generate_evaluation_code', 'calculate_result_code') if ix.find_method(intnode, n)]
    if not start:
        raise AnalysisError('IntNode.get_constant_c_result_code vanished')
    seen, todo = set(), list(start)
    while todo:
        nm = todo.pop()
        if nm in seen:
            continue
        seen.add(nm)
        f = ix.find_method(intnode, nm)
        if not f or f[0] is not intnode:
            continue
        for n in walk_no_nested(f[1]):
            if isinstance(n, ast.Call) and is_self_attr(n.func) and n.func.attr not in seen:
                todo.append(n.func.attr)
    out = []
    for nm in sorted(seen):
        fn = intnode.methods.get(nm)
        if fn is None or not fn.args.args:
            continue
        lt = LiteralText(fn, {fn.args.args[0].arg + '.value'})
        rets = [n for n in walk_no_nested(fn) if isinstance(n, ast.Return) and n.value is not None]
        if any(lt.is_text(x) for rt in rets for x in ast.walk(rt.value) if isinstance(x, (ast.Name, ast.Attribute))) and \
                any(isinstance(n, ast.Subscript) and lt.is_text(n) for n in walk_no_nested(fn)):
            out.append((nm, fn, lt))
    return intnode, out


def prefix_expression(fn, lt):
    """the expression through which the function looks at the character after the leading '0': a local assigned <text>[1], else the text '<text>[1]' itself"""
    for n in walk_no_nested(fn):
        if isinstance(n, ast.Assign) and isinstance(n.value, ast.Subscript) and lt.is_text(n.value) and \
                ((isinstance(n.value.slice, ast.Constant) and n.value.slice.value == 1) or _one_char_slice(n.value.slice) == 1):
            for t in n.targets:
                if isinstance(t, ast.Name):
                    return t.id
    for n in walk_no_nested(fn):
        if isinstance(n, ast.Subscript) and isinstance(n.slice, ast.Constant) and n.slice.value == 1 and lt.is_text(n):
            return _u(n)
    return None


def cprefix_findings(fn, lt, letters):
    """-> [(letter, verdict 'ok'|'unexamined'|'verbatim', line, detail)]"""
    e = prefix_expression(fn, lt)
    out = []
    for ch in letters:
        if e is None:
            out.append((ch, 'unexamined', fn.lineno, 'the function never looks at the character after the leading 0'))
            continue
        res, sp = specialise(fn, e, ch)
        bad = unconverted_returns(res, lt)
        if bad:
            out.append((ch, 'verbatim', bad[0][0], 'returns `%s` still starting with the original text' % bad[0][1]))
        else:
            out.append((ch, 'ok', fn.lineno, ''))
    return out


_CPREFIX_BAD = ("def spell(self):\n    value = self.value\n    if len(value) <= 2:\n        return value\n    sign = ''\n    if value[0] == '-':\n        sign = '-'\n        value = value[1:]\n"
                "    if value[0] == '0':\n        kind = value[1]\n        if sign and kind in 'oOxX' and value[2:].isdigit():\n            value = str(number(value))\n"
                "        elif kind in 'bB':\n            value = str(int(value[2:], 2))\n    return sign + value\n")
_CPREFIX_GOOD = _CPREFIX_BAD.replace("        elif kind in 'bB':", "        elif kind in 'oO':\n            value = '0' + value[2:]\n        elif kind in 'bB':")


def rule_CPREFIX(ctx, floor=3):
    r = Rule('C43-CPREFIX', 'the C spelling of an integer literal never starts with a prefix C99 does not have: on every path of the spelling function taken by a '
                            'Python-only prefix letter (the lexer\'s prefix classes minus x/X) the text is converted before it is returned', floor)
    classes, prefix = int_literal_classes(ctx)
    letters = sorted({ch for k in prefix for ch in k} - C99_PREFIX_LETTERS)
    if not letters:
        raise AnalysisError('Lexicon: no Python-only integer prefix (0o / 0b) found')
    intnode, fns = c_spelling_functions(ctx.index)
    if not fns:
        raise AnalysisError('IntNode: no method reachable from get_constant_c_result_code returns the literal text')
    for nm, fn, lt in fns:
        for ch, verdict, line, detail in cprefix_findings(fn, lt, letters):
            key = 'ExprNodes.IntNode.%s:prefix 0%s' % (nm, ch)
            r.inst(key, sample='%s: %s %s' % (key, verdict, detail))
            if verdict != 'ok':
                r.violate(key, intnode.module.rel, line, 'IntNode.%s %s for a literal written 0%s...: the lexer accepts the prefix (Lexicon Any(%r)) but C99 has no such '
                          'integer prefix, so the generated C file is rejected by the C compiler (`invalid suffix "%s..." on integer constant`) although Cython reports success'
                          % (nm, detail, ch, [k for k in prefix if ch in k][0], ch))
    bad_fn, good_fn = ast.parse(_CPREFIX_BAD).body[0], ast.parse(_CPREFIX_GOOD).body[0]
    vb = [(c, v) for c, v, _, _ in cprefix_findings(bad_fn, LiteralText(bad_fn, {'self.value'}), ['o', 'O', 'b', 'B'])]
    vg = [(c, v) for c, v, _, _ in cprefix_findings(good_fn, LiteralText(good_fn, {'self.value'}), ['o', 'O', 'b', 'B'])]
    r.positive_control(vb == [('o', 'verbatim'), ('O', 'verbatim'), ('b', 'ok'), ('B', 'ok')] and all(v == 'ok' for _, v in vg),
                       'spelling function without the 0o branch (positive literals reach the return unconverted) / complete variant')
    return r


# ====================================================================================================== C43-PAIR
# The counter of C43-COUPLE is a nesting depth: whoever calls the increment method (enter_async) must call the decrement method (exit_async) on the
# same object before it returns normally, and must not call the decrement without the increment.  A missing exit leaves `async`/`await` reserved for
# the rest of the file (valid code rejected); an exit without enter trips the assertion / deletes missing keys.
def pair_findings(fn, up, down):
    """-> [(receiver text, kind 'unbalanced-enter'|'exit-without-enter', line)] over every normal path (branch correlation by pyflow)"""
    calls = [n for n in walk_no_nested(fn) if isinstance(n, ast.Call) and isinstance(n.func, ast.Attribute) and n.func.attr in (up, down)]
    if not calls:
        return None
    first = {}

    def tr(node, state):
        if isinstance(node, (ast.FunctionDef, ast.AsyncFunctionDef, ast.ClassDef)):
            return state
        s = set(state)
        for c in pyflow.calls_in(node):
            if isinstance(c.func, ast.Attribute) and c.func.attr in (up, down):
                recv = _u(c.func.value)
                first.setdefault(recv, c.lineno)
                depth = [f for f in s if isinstance(f, tuple) and f[:2] == ('DEPTH', recv)]
                d = depth[0][2] if depth else 0
                for f in depth:
                    s.discard(f)
                d = d + 1 if c.func.attr == up else d - 1
                if d < 0:
                    s.add(('UNDER', recv))
                    d = 0
                if d:
                    s.add(('DEPTH', recv, min(d, 3)))
        return frozenset(s)
    try:
        o = pyflow.Flow(tr).run(fn)
    except pyflow.TooManyStates:
        return 'too many path states'
    out = set()
    for st in o.normal | o.returns:
        for f in st:
            if isinstance(f, tuple) and f[0] == 'DEPTH':
                out.add((f[1], 'unbalanced-enter', first.get(f[1], fn.lineno)))
            elif isinstance(f, tuple) and f[0] == 'UNDER':
                out.add((f[1], 'exit-without-enter', first.get(f[1], fn.lineno)))
    return sorted(out)


_PAIR_BAD = ("def p_def(s, decorators, is_async_def):\n    if is_async_def:\n        s.enter_async()\n    s.next()\n    body = p_suite(s)\n    if decorators:\n        s.exit_async()\n    return body\n")
_PAIR_GOOD = ("def p_def(s, decorators, is_async_def):\n    entered = is_async_def\n    if entered:\n        s.enter_async()\n    s.next()\n    try:\n        body = p_suite(s)\n    finally:\n"
              "        if entered:\n            s.exit_async()\n    return body\n")


def rule_PAIR(ctx, floor=1):
    r = Rule('C43-PAIR', 'every function that calls the increment method of a counted scanner feature (enter_async) calls the decrement method (exit_async) on every normal path, '
                         'and never the decrement without the increment', floor)
    ix = ctx.index
    m = ix.mod('Scanning')
    pairs = set()
    for cname, c in sorted(m.classes.items()):
        trans = find_transitions(cname, c.methods)
        ups = sorted({t.name for t in trans if t.delta > 0 and t.added})
        downs = sorted({t.name for t in trans if t.delta < 0 and t.removed})
        by = {}
        for t in trans:
            by.setdefault((t.counter, t.table), []).append(t)
        for (counter, table), ts in by.items():
            u = sorted({t.name for t in ts if t.delta > 0 and t.added})
            d = sorted({t.name for t in ts if t.delta < 0 and t.removed})
            if len(u) == 1 and len(d) == 1:
                pairs.add((cname, u[0], d[0]))
    if not pairs:
        raise AnalysisError('no increment/decrement method pair found in Scanning (enter_async/exit_async moved?)')
    n = 0
    for cname, up, down in sorted(pairs):
        for mm in sorted(ix.modules.values(), key=lambda x: x.rel):
            if not mm.rel.startswith('Cython/Compiler/'):
                continue
            for qn, owner, fn in ix.functions_of(mm):
                if owner is not None and owner.name == cname:
                    continue          # the class that owns the counter establishes its own initial level (C43-COUPLE checks its writes)
                res = pair_findings(fn, up, down)
                if res is None:
                    continue
                key = '%s.%s:%s/%s' % (mm.short, qn, up, down)
                if isinstance(res, str):
                    r.info('%s: %s' % (key, res))
                    continue
                n += 1
                r.inst(key, sample='%s: %s' % (key, 'balanced on every normal path' if not res else res))
                for recv, kind, line in res:
                    if kind == 'unbalanced-enter':
                        r.violate('%s:%s' % (key, kind), mm.rel, line, '%s.%s calls %s.%s() but on some normal path returns without %s.%s(): the counted feature of %s stays switched on '
                                  '(its keywords remain reserved for the rest of the file, valid code using them as names is rejected)' % (mm.short, qn, recv, up, recv, down, cname))
                    else:
                        r.violate('%s:%s' % (key, kind), mm.rel, line, '%s.%s calls %s.%s() on a path on which it did not call %s.%s(): the counter goes below the level the caller established '
                                  '(AssertionError / KeyError inside the parser, or the enclosing construct loses its keywords)' % (mm.short, qn, recv, down, recv, up))
    if not n:
        raise AnalysisError('no caller of %s found in the compiler' % ', '.join('%s/%s' % (u, d) for _, u, d in sorted(pairs)))
    bad = pair_findings(ast.parse(_PAIR_BAD).body[0], 'enter_async', 'exit_async')
    good = pair_findings(ast.parse(_PAIR_GOOD).body[0], 'enter_async', 'exit_async')
    r.positive_control({k for _, k, _ in bad} == {'unbalanced-enter', 'exit-without-enter'} and good == [],
                       'exit guarded by a different flag than enter / flag copied to a local, exit in a finally block')
    return r


# ====================================================================================================== C43-HOLD
# Errors.hold_errors() pushes a list on the thread-local error stack, release_errors() pops it.  While a list is on the stack every error of the
# compilation is appended to it instead of being printed and counted.  A push must therefore be undone on *every* exit of the function that made it,
# exceptional exits included: the statement after the push is a try whose finally block pops unconditionally.
def stack_functions(ix):
    er = ix.mod('Errors')
    push, pop = set(), set()
    for name, fn in er.functions.items():
        for n in walk_no_nested(fn):
            if isinstance(n, ast.Call) and isinstance(n.func, ast.Attribute) and isinstance(n.func.value, ast.Attribute) and n.func.value.attr.endswith('errors_stack'):
                if n.func.attr == 'append':
                    push.add(name)
                elif n.func.attr == 'pop':
                    pop.add(name)
    if not push or not pop:
        raise AnalysisError('Errors: no function pushes on / pops from the error stack (hold_errors / release_errors moved?)')
    return er, push, pop


def hold_findings(ix, m, fn, push, pop):
    """-> [(line, problem or None)] one per push call of the function"""
    def is_call_to(n, names):
        if not isinstance(n, ast.Call):
            return False
        nm = n.func.attr if isinstance(n.func, ast.Attribute) else n.func.id if isinstance(n.func, ast.Name) else None
        if nm not in names:
            return False
        r = ix.resolve_expr(m, n.func) if m is not None else None
        if r and r[0] == 'func' and r[1].short == 'Errors':
            return r[2].name in names
        return m is None and isinstance(n.func, ast.Name) and n.func.id in names
    out = []

    def visit(stmts):
        for i, st in enumerate(stmts):
            has_push = not isinstance(st, (ast.FunctionDef, ast.AsyncFunctionDef, ast.ClassDef)) and isinstance(st, (ast.Assign, ast.Expr, ast.AnnAssign)) and \
                any(is_call_to(n, push) for n in ast.walk(st))
            if has_push:
                nxt = stmts[i + 1] if i + 1 < len(stmts) else None
                if not isinstance(nxt, ast.Try) or not nxt.finalbody:
                    out.append((st.lineno, 'is not followed by a try/finally: an exception between the push and the pop leaves the list on the error stack'))
                elif not any(isinstance(s2, ast.Expr) and is_call_to(s2.value, pop) for s2 in nxt.finalbody):
                    out.append((st.lineno, 'is followed by a try whose finally block does not pop unconditionally (the pop is elsewhere or under a condition)'))
                else:
                    out.append((st.lineno, None))
            for fld in ('body', 'orelse', 'finalbody'):
                sub = getattr(st, fld, None)
                if isinstance(sub, list) and not isinstance(st, (ast.FunctionDef, ast.AsyncFunctionDef, ast.ClassDef)):
                    visit(sub)
            for h in getattr(st, 'handlers', []) or []:
                visit(h.body)
    visit(fn.body)
    return out


_HOLD_BAD = "def tentative(s):\n    errors = hold_errors()\n    try:\n        yield errors\n    except CompileError:\n        pass\n    release_errors(ignore=True)\n"
_HOLD_GOOD = "def tentative(s):\n    errors = hold_errors()\n    try:\n        try:\n            yield errors\n        except CompileError:\n            pass\n    finally:\n        release_errors(ignore=True)\n"


def rule_HOLD(ctx, floor=1):
    r = Rule('C43-HOLD', 'a list pushed on the error stack (Errors.hold_errors) is popped in a finally block that directly follows the push: no exit of the function, '
                         'exceptional ones included, leaves later errors swallowed', floor)
    ix = ctx.index
    er, push, pop = stack_functions(ix)
    for m in sorted(ix.modules.values(), key=lambda x: x.rel):
        if not (m.rel.startswith('Cython/Compiler/') or m.rel.startswith('Cython/Build/') or m.rel.count('/') == 1):
            continue
        for qn, owner, fn in ix.functions_of(m):
            if m is er and fn.name in push | pop:
                continue
            res = hold_findings(ix, m, fn, push, pop)
            seen = 0
            for line, problem in res:
                seen += 1
                key = '%s.%s:%s' % (m.short, qn, '/'.join(sorted(push))) + ('' if seen == 1 else '#%d' % seen)
                r.inst(key, sample='%s: %s' % (key, problem or 'popped in the finally block that follows'))
                if problem:
                    r.violate(key, m.rel, line, '%s.%s pushes a held-error list (%s) which %s: from then on every error is appended to a list nobody reads - '
                              'the compiler reports success (or fails later) without a positioned message' % (m.short, qn, '/'.join(sorted(push)), problem))
    bad = hold_findings(ix, None, ast.parse(_HOLD_BAD).body[0], {'hold_errors'}, {'release_errors'})
    good = hold_findings(ix, None, ast.parse(_HOLD_GOOD).body[0], {'hold_errors'}, {'release_errors'})
    r.positive_control(len(bad) == 1 and bad[0][1] and len(good) == 1 and not good[0][1], 'release after the try instead of in a finally block / nested try form')
    return r


# ====================================================================================================== C43-LEXSUFFIX / C43-OCTDIGIT
# "token language within the converter's domain" for the numeric tokens: the lexer admits trailing marker letters (INT: [Uu][Ll][Ll], IMAG: [jJ]) and Py2-style
# decimal text with a leading zero; the converters (int(text, 0) / int(text, 8) / float(text)) do not.  The parser function that turns the token into a node
# must strip every suffix letter and reject every digit the converter's base does not have -- otherwise ValueError inside the compiler.
def _lexicon_env(ctx):
    tree = ctx.parse('Cython/Compiler/Lexicon.py')
    mk = tables.find_function(tree, 'make_lexicon')
    if mk is None:
        raise AnalysisError('Lexicon.make_lexicon vanished')
    mod_strs = {}
    for st in tree.body:
        if isinstance(st, ast.Assign) and len(st.targets) == 1 and isinstance(st.targets[0], ast.Name):
            v = _fold_str(st.value, mod_strs)
            if v is not None:
                mod_strs[st.targets[0].id] = v
    env = {}
    for st in mk.body:
        if isinstance(st, ast.Assign) and len(st.targets) == 1 and isinstance(st.targets[0], ast.Name):
            env[st.targets[0].id] = st.value
    roots = {}
    for n in ast.walk(mk):
        if isinstance(n, ast.Tuple) and len(n.elts) == 2 and isinstance(n.elts[1], ast.Call):
            for k in n.elts[1].keywords:
                if k.arg == 'symbol' and isinstance(k.value, ast.Constant):
                    roots[k.value.value] = n.elts[0]
    return env, mod_strs, roots


def _suffix_shape(e, env, mod_strs, depth=0):
    """(letters, min count, max count) if the pattern consists of letter classes only (Any / Opt / + / |), else None"""
    if depth > 8:
        return None
    if isinstance(e, ast.Name) and e.id in env:
        return _suffix_shape(env[e.id], env, mod_strs, depth + 1)
    if isinstance(e, ast.Call) and isinstance(e.func, ast.Name):
        if e.func.id == 'Any' and len(e.args) == 1:
            s = _fold_str(e.args[0], mod_strs)
            if s and all(ch.isalpha() for ch in s):
                return set(s), 1, 1
            return None
        if e.func.id == 'Opt' and len(e.args) == 1:
            r = _suffix_shape(e.args[0], env, mod_strs, depth + 1)
            return (r[0], 0, r[2]) if r else None
        return None
    if isinstance(e, ast.BinOp) and isinstance(e.op, (ast.Add, ast.BitOr)):
        a, b = _suffix_shape(e.left, env, mod_strs, depth + 1), _suffix_shape(e.right, env, mod_strs, depth + 1)
        if a is None or b is None:
            return None
        if isinstance(e.op, ast.Add):
            return a[0] | b[0], a[1] + b[1], a[2] + b[2]
        return a[0] | b[0], min(a[1], b[1]), max(a[2], b[2])
    return None


def token_suffix(ctx, symbol):
    """the trailing letter-only part of the pattern of a token: (letters, min, max); (set(), 0, 0) if the pattern has none"""
    env, mod_strs, roots = _lexicon_env(ctx)
    if symbol not in roots:
        raise AnalysisError("Lexicon: no token-table row with symbol=%r" % symbol)
    e = roots[symbol]
    for _ in range(8):
        if isinstance(e, ast.Name) and e.id in env:
            e = env[e.id]
        else:
            break
    letters, lo, hi = set(), 0, 0
    while isinstance(e, ast.BinOp) and isinstance(e.op, ast.Add):
        r = _suffix_shape(e.right, env, mod_strs)
        if r is None:
            break
        letters |= r[0]
        lo += r[1]
        hi += r[2]
        e = e.left
    return letters, lo, hi


def stripped_letters(fn, var):
    """letters removed from the end of the string variable: while var[-1] in S: ... var = var[:-1]   |   var = var.rstrip(S)   -> (set, recognised?)"""
    out, seen = set(), False
    for n in walk_no_nested(fn):
        if isinstance(n, ast.While) and isinstance(n.test, ast.Compare) and len(n.test.ops) == 1 and isinstance(n.test.ops[0], ast.In):
            a, b = n.test.left, n.test.comparators[0]
            letters = _const_letters(b)
            if letters is not None and isinstance(a, ast.Subscript) and _u(a.value) == var and _u(a.slice) == '-1':
                cuts = any(isinstance(x, ast.Assign) and any(_u(t) == var for t in x.targets) and isinstance(x.value, ast.Subscript) and _u(x.value.value) == var
                           and isinstance(x.value.slice, ast.Slice) and x.value.slice.lower is None and x.value.slice.upper is not None and _u(x.value.slice.upper) == '-1'
                           for x in ast.walk(n))
                if cuts:
                    out |= set(letters)
                    seen = True
        elif isinstance(n, ast.Assign) and any(_u(t) == var for t in n.targets) and isinstance(n.value, ast.Call) and isinstance(n.value.func, ast.Attribute) \
                and n.value.func.attr in ('rstrip', 'strip') and _u(n.value.func.value) == var and len(n.value.args) == 1:
            letters = _const_letters(n.value.args[0])
            if letters is not None:
                out |= set(letters)
                seen = True
    return out, seen


def _block_of(fn, target):
    """the statement list that contains the statement holding `target`, and the index of that statement"""
    def rec(stmts):
        for i, st in enumerate(stmts):
            if isinstance(st, (ast.FunctionDef, ast.AsyncFunctionDef, ast.ClassDef)):
                continue
            subs = [getattr(st, f) for f in ('body', 'orelse', 'finalbody') if isinstance(getattr(st, f, None), list)] + [h.body for h in getattr(st, 'handlers', []) or []]
            if subs:
                for sub in subs:
                    r = rec(sub)
                    if r:
                        return r
                # the target may sit in the header (test / iter)
                hdr = [getattr(st, f) for f in ('test', 'iter') if getattr(st, f, None) is not None]
                if any(target is x for h in hdr for x in ast.walk(h)):
                    return stmts, i
            elif any(x is target for x in ast.walk(st)):
                return stmts, i
        return None
    return rec(fn.body)


def suffix_findings(ctx):
    """-> [(key, sample, rel, line, problem or None, info?)]"""
    ix = ctx.index
    pa = ix.mod('Parsing')
    out = []
    # INT: the variable handed to IntNode(value=...)
    letters, lo, hi = token_suffix(ctx, 'INT')
    if not letters:
        raise AnalysisError('Lexicon: the INT pattern has no letter suffix (intsuffix vanished?)')
    n_int = 0
    intnode = ix.cls('ExprNodes', 'IntNode')
    for m, qn, owner, fn, lt in literal_text_functions(ix):
        if m is not pa:
            continue
        builds = False
        for c in walk_no_nested(fn):
            if isinstance(c, ast.Call):
                rr = ix.resolve_expr(pa, c.func)
                if rr and rr[0] == 'class' and rr[1] is intnode:
                    builds = True
        if not builds:
            # a helper that only receives the text (a probe, a validator): the stripping obligation belongs to the function that builds the node from it
            out.append(('Parsing.%s:INT suffix' % qn, 'receives INT text, builds no IntNode', m.rel, fn.lineno, 'receives the text of an INT token but builds no IntNode from it; decided at the function that does', True))
            continue
        for var in sorted(lt.roots):
            n_int += 1
            got, seen = stripped_letters(fn, var)
            key = 'Parsing.%s:INT suffix' % qn
            missing = sorted(letters - got)
            if not seen:
                out.append((key, 'no strip loop recognised', m.rel, fn.lineno, 'never strips the suffix letters %s the lexer accepts at the end of an INT token' % sorted(letters), False))
            elif missing:
                out.append((key, 'strips %s' % sorted(got), m.rel, fn.lineno, 'strips %s from the end of the INT token but the lexer also accepts %s there' % (sorted(got), missing), False))
            else:
                out.append((key, 'strips %s, lexer suffix letters %s' % (sorted(got), sorted(letters)), m.rel, fn.lineno, None, False))
    if not n_int:
        raise AnalysisError('no parser function hands INT token text to IntNode')
    # IMAG: the expression handed to ImagNode(value=...)
    letters, lo, hi = token_suffix(ctx, 'IMAG')
    imag = ix.cls('ExprNodes', 'ImagNode')
    if imag is None or not letters:
        raise AnalysisError('ExprNodes.ImagNode / the IMAG suffix class vanished')
    n_imag = 0
    seen_keys = {}
    for qn, owner, fn in ix.functions_of(pa):
        for n in sorted((x for x in walk_no_nested(fn) if isinstance(x, ast.Call)), key=lambda x: (x.lineno, x.col_offset)):
            if not isinstance(n, ast.Call):
                continue
            r = ix.resolve_expr(pa, n.func)
            if not (r and r[0] == 'class' and r[1] is imag):
                continue
            val = [k.value for k in n.keywords if k.arg == 'value']
            if not val:
                continue
            n_imag += 1
            seen_keys['Parsing.%s:IMAG suffix' % qn] = seen_keys.get('Parsing.%s:IMAG suffix' % qn, 0) + 1
            key = 'Parsing.%s:IMAG suffix' % qn + ('' if seen_keys['Parsing.%s:IMAG suffix' % qn] == 1 else '#%d' % seen_keys['Parsing.%s:IMAG suffix' % qn])
            parts = []

            def flat(x):
                if isinstance(x, ast.BinOp) and isinstance(x.op, ast.Add):
                    flat(x.left)
                    flat(x.right)
                else:
                    parts.append(x)
            flat(val[0])
            traced = []
            untraced = False
            for e in parts:
                got, seen = set(), False
                if isinstance(e, ast.Name):
                    blk = _block_of(fn, n)
                    src = None
                    if blk:
                        stmts, i = blk
                        for st in reversed(stmts[:i]):
                            if isinstance(st, ast.Assign) and any(_u(t) == e.id for t in st.targets):
                                src = st.value
                                break
                    if src is None:
                        untraced = True
                        continue
                    got, seen = stripped_letters(fn, e.id)
                    e = src
                while isinstance(e, ast.Call) and isinstance(e.func, ast.Attribute) and e.func.attr == 'cast' and len(e.args) == 2:
                    e = e.args[1]
                if any(isinstance(x, ast.Attribute) and x.attr == 'systring' for x in ast.walk(e)):
                    traced.append((e, got, seen))
            if not traced:
                if untraced:
                    out.append((key, 'value not traced', pa.rel, n.lineno, 'the value handed to ImagNode is not assigned in the same block', True))
                else:
                    out.append((key, 'not token text: %s' % _u(val[0]), pa.rel, n.lineno, None, False))
                continue
            for e, got, seen in traced:
                cut = 0
                if isinstance(e, ast.Subscript) and isinstance(e.slice, ast.Slice) and e.slice.lower is None and isinstance(e.slice.upper, ast.UnaryOp) \
                        and isinstance(e.slice.upper.op, ast.USub) and isinstance(e.slice.upper.operand, ast.Constant):
                    cut = e.slice.upper.operand.value
                elif isinstance(e, ast.Call) and isinstance(e.func, ast.Attribute) and e.func.attr == 'rstrip' and len(e.args) == 1 and _const_letters(e.args[0]) is not None:
                    got = got | set(_const_letters(e.args[0]))
                    seen = True
                elif not isinstance(e, ast.Attribute):
                    out.append((key, 'form not modelled: %s' % _u(e), pa.rel, n.lineno, 'the text handed to ImagNode is computed by `%s`' % _u(e), True))
                    continue
                if lo == hi and cut == lo:
                    out.append((key, 'cuts %d character(s), lexer suffix %s x%d' % (cut, sorted(letters), lo), pa.rel, n.lineno, None, False))
                elif seen and letters <= got:
                    out.append((key, 'strips %s' % sorted(got), pa.rel, n.lineno, None, False))
                else:
                    out.append((key, 'cuts %d, strips %s' % (cut, sorted(got)), pa.rel, n.lineno,
                                'hands `%s` to ImagNode: the lexer puts %d suffix letter(s) from %s at the end of an IMAG token, %d are cut off' % (_u(e), lo, sorted(letters), cut), False))
    if not n_imag:
        raise AnalysisError('no parser function builds ExprNodes.ImagNode(value=...)')
    return out


def rule_LEXSUFFIX(ctx, floor=4):
    r = Rule('C43-LEXSUFFIX', 'the parser strips every suffix letter the lexer accepts at the end of an INT / IMAG token before the text reaches the node whose converter '
                              '(int(text, base) / float(text)) rejects it', floor)
    for key, sample, rel, line, problem, info in suffix_findings(ctx):
        if info:
            r.info('%s: %s' % (key, problem))
            continue
        r.inst(key, sample='%s: %s' % (key, sample))
        if problem:
            r.violate(key, rel, line, '%s %s: the letter stays in the node value and the conversion of the literal raises ValueError inside the compiler' % (key.split(':')[0], problem))
    # positive control on the extraction helpers
    fn = ast.parse('def p(s):\n    value = s.systring\n    while value[-1] in "Ll":\n        value = value[:-1]\n    return value\n').body[0]
    got, seen = stripped_letters(fn, 'value')
    r.positive_control(seen and got == {'L', 'l'} and token_suffix(ctx, 'INT')[0] - got, 'strip loop that forgets the unsigned suffix')
    return r


def octal_guard_findings(ctx):
    """-> (bad digits, [(digit, ok?, guard text)], recognised?, fn)"""
    ix = ctx.index
    classes, _ = int_literal_classes(ctx)
    digits = set()
    for k in classes:
        if k and all(ch.isdigit() for ch in k):
            digits |= set(k)
    ut = ix.mod('Utils')
    conv = ut.functions.get('str_to_number')
    if conv is None:
        raise AnalysisError('Utils.str_to_number vanished')
    params = [a.arg for a in conv.args.args]
    base = None
    for n in walk_no_nested(conv):
        if isinstance(n, ast.Call) and isinstance(n.func, ast.Name) and n.func.id == 'int' and len(n.args) == 2 and isinstance(n.args[1], ast.Constant) \
                and isinstance(n.args[0], ast.Name) and n.args[0].id in params and isinstance(n.args[1].value, int) and 2 <= n.args[1].value < 10:
            base = n.args[1].value          # the whole text converted in a base below ten: the Py2-style leading-zero branch
    if base is None:
        return set(), [], True, None
    bad = sorted(digits - {str(i) for i in range(base)})
    pa = ix.mod('Parsing')
    res, recognised, where = [], False, None
    intnode = ix.cls('ExprNodes', 'IntNode')
    for m, qn, owner, fn, lt in literal_text_functions(ix):
        if m is not pa:
            continue
        if not any(isinstance(c, ast.Call) and (ix.resolve_expr(pa, c.func) or (None, None))[:2] == ('class', intnode) for c in walk_no_nested(fn)):
            continue        # a helper that only receives the text and builds no IntNode: the guard obligation is the builder's
        where = fn
        guards = []
        for n in walk_no_nested(fn):
            if isinstance(n, ast.If) and any(isinstance(c, ast.Call) and ((isinstance(c.func, ast.Name) and c.func.id == 'error') or (isinstance(c.func, ast.Attribute) and c.func.attr == 'error'))
                                             for st in n.body for c in ast.walk(st)):
                atoms = [x for x in ast.walk(n.test) if isinstance(x, ast.Compare) and len(x.ops) == 1 and isinstance(x.ops[0], (ast.In, ast.NotIn))
                         and isinstance(x.left, ast.Constant) and isinstance(x.left.value, str) and len(x.left.value) == 1 and x.left.value.isdigit()
                         and lt.is_text(x.comparators[0])]
                if atoms:
                    guards.append(n.test)
        recognised = recognised or bool(guards)
        for d in bad:
            def truth(e):
                if isinstance(e, ast.Compare) and len(e.ops) == 1 and isinstance(e.ops[0], (ast.In, ast.NotIn)) and isinstance(e.left, ast.Constant) \
                        and isinstance(e.left.value, str) and e.left.value in bad and lt.is_text(e.comparators[0]):
                    v = e.left.value == d
                    return v if isinstance(e.ops[0], ast.In) else not v
                if isinstance(e, ast.UnaryOp) and isinstance(e.op, ast.Not):
                    t = truth(e.operand)
                    return None if t is None else not t
                if isinstance(e, ast.BoolOp):
                    is_and = isinstance(e.op, ast.And)
                    unknown = False
                    for v in e.values:
                        t = truth(v)
                        if t is None:
                            unknown = True
                        elif t != is_and:
                            return t
                    return None if unknown else is_and
                return None
            ok = [g for g in guards if truth(g) is not False]
            res.append((d, bool(ok), _u((ok or guards or [ast.Constant(value=None)])[0])))
    return set(bad), res, recognised, where


def rule_OCTDIGIT(ctx, floor=2):
    r = Rule('C43-OCTDIGIT', 'every digit the lexer accepts in a leading-zero decimal literal but the base of the converter (int(text, 8)) does not have is rejected by an '
                             'error guard of the parser: the guard is evaluated for a literal containing exactly that digit', floor)
    bad, res, recognised, fn = octal_guard_findings(ctx)
    if fn is None and not bad:
        r.inst('Utils.str_to_number:no-small-base', sample='str_to_number converts no whole literal in a base below ten')
        r.inst('Utils.str_to_number:no-small-base#2', nontrivial=False)
        return r
    if not recognised:
        r.info('Parsing: no error guard with `<digit> in <text>` tests found; the digit guard is not decided here (LEX1 still checks that a guard exists)')
        for d in sorted(bad):
            r.inst('Parsing:digit %s' % d, nontrivial=False)
        return r
    for d, ok, guard in res:
        key = 'Parsing.%s:digit %s' % (fn.name, d)
        r.inst(key, sample='%s: guard `%s` %s' % (key, guard, 'can fire' if ok else 'is false'))
        if not ok:
            r.violate(key, 'Cython/Compiler/Parsing.py', fn.lineno, 'Parsing.%s: for a leading-zero literal that contains the digit %s (and no other non-octal digit) the error guard `%s` is false: '
                      'the literal reaches Utils.str_to_number, int(text, 8) raises ValueError inside the compiler (e.g. `x = 0%s`)' % (fn.name, d, guard, d))
    return r
