"""C43, strengthening: two representation invariants whose violation surfaces as an internal exception / a rejected valid program.

  C43-COUPLE    coupled scanner state.  A counter attribute whose 0<->1 transitions add / remove constant keys of a table attribute
                (PyrexScanner.async_enabled  <->  'async' / 'await' in PyrexScanner.keywords; discovered from the transition methods, not
                named here) obeys:  (a) the increment method installs the keys on the 0->1 transition, the decrement method removes them
                exactly on the 1->0 transition (truth table of the extracted guard over the complete abstraction {0, 1, >=2} of the counter);
                (b) the key sets installed and removed agree;  (c) every other write of the counter, in the class or anywhere in the compiler,
                is the constant 0 in __init__ over a freshly built table that cannot hold the keys.  A scanner with counter > 0 and no keys
                parses `await x` as two identifiers (valid code rejected); keys without counter die with KeyError in the decrement method.
  C43-EXCSHAPE  writer/reader agreement on the payload of compiler exceptions.  For every variable whose exception class is nominally known
                (`except <Class> as e`, elements of held-error lists obtained from Errors.hold_errors()/held_errors() or a context manager
                that yields them) each `e.args[i]`, `a, b = e.args` and `e.<attribute>` read is checked against the shape the class'
                __init__ establishes (explicit `self.args = (...)` tuple, else the arguments handed to Exception.__init__; attributes assigned
                in the MRO).  An index past the tuple is an IndexError inside the parser's error path, i.e. a traceback instead of a
                positioned error.
"""
import ast, builtins

from ..core import Rule, AnalysisError
from ..engine import tables
from ..engine.pyindex import walk_no_nested, is_self_attr

UNKNOWN = None


def _u(n):
    return ast.unparse(n)


# ====================================================================================================== C43-COUPLE
class Transition:
    def __init__(self, cls, name, fn, counter, table, delta, guard, aug_first, added, removed):
        self.cls, self.name, self.fn, self.counter, self.table = cls, name, fn, counter, table
        self.delta, self.guard, self.aug_first, self.added, self.removed = delta, guard, aug_first, added, removed


def _table_effects(stmts, selfname):
    """constant keys stored into / deleted from a self.<table> by the statements (recursively): {table: (added, removed)}"""
    eff = {}

    def note(tab, key, add):
        a, d = eff.setdefault(tab, (set(), set()))
        (a if add else d).add(key)
    for st in stmts:
        for n in ast.walk(st):
            if isinstance(n, ast.Assign):
                for t in n.targets:
                    if isinstance(t, ast.Subscript) and is_self_attr(t.value, selfname) and isinstance(t.slice, ast.Constant):
                        note(t.value.attr, t.slice.value, True)
            elif isinstance(n, ast.Delete):
                for t in n.targets:
                    if isinstance(t, ast.Subscript) and is_self_attr(t.value, selfname) and isinstance(t.slice, ast.Constant):
                        note(t.value.attr, t.slice.value, False)
            elif isinstance(n, ast.Call) and isinstance(n.func, ast.Attribute) and is_self_attr(n.func.value, selfname):
                if n.func.attr == 'update' and n.args and isinstance(n.args[0], ast.Dict):
                    for k in n.args[0].keys:
                        if isinstance(k, ast.Constant):
                            note(n.func.value.attr, k.value, True)
                elif n.func.attr == 'update' and n.keywords and not n.args:
                    for kw in n.keywords:
                        if kw.arg:
                            note(n.func.value.attr, kw.arg, True)
                elif n.func.attr == 'pop' and n.args and isinstance(n.args[0], ast.Constant):
                    note(n.func.value.attr, n.args[0].value, False)
    return eff


def find_transitions(cls_name, methods):
    """methods: {name: FunctionDef}.  A transition method changes self.<counter> by +-1 (augmented assignment at the top level of its body)
    and, under a top-level `if` that tests the counter, stores / deletes constant keys of self.<table>."""
    out = []
    for name, fn in sorted(methods.items()):
        if not fn.args.args:
            continue
        selfname = fn.args.args[0].arg
        augs = [(i, st) for i, st in enumerate(fn.body) if isinstance(st, ast.AugAssign) and is_self_attr(st.target, selfname) and isinstance(st.op, (ast.Add, ast.Sub))
                and isinstance(st.value, ast.Constant) and st.value.value == 1]
        if len(augs) != 1:
            continue
        ai, aug = augs[0]
        counter = aug.target.attr
        for i, st in enumerate(fn.body):
            if not isinstance(st, ast.If):
                continue
            if not any(is_self_attr(x, selfname) and x.attr == counter for x in ast.walk(st.test)):
                continue
            for tab, (added, removed) in sorted(_table_effects(st.body, selfname).items()):
                if tab == counter:
                    continue
                out.append(Transition(cls_name, name, fn, counter, tab, +1 if isinstance(aug.op, ast.Add) else -1, st.test, ai < i, added, removed))
    return out


def eval_guard(e, counter, value, selfname='self'):
    """truth of a guard for the counter value 0, 1 or 2 (2 stands for every value >= 2): True / False / UNKNOWN"""
    def is_counter(x):
        return is_self_attr(x, selfname) and x.attr == counter

    def val(x):
        if is_counter(x):
            return ('v', value)
        if isinstance(x, ast.Constant) and (isinstance(x.value, (int, bool)) or x.value is None):
            return ('v', x.value)
        if isinstance(x, ast.UnaryOp) and isinstance(x.op, ast.Not):
            v = val(x.operand)
            return UNKNOWN if v is UNKNOWN else ('v', not v[1])
        if isinstance(x, ast.BoolOp):
            is_and = isinstance(x.op, ast.And)
            unknown = False
            for y in x.values:
                v = val(y)
                if v is UNKNOWN:
                    unknown = True
                elif is_and and not v[1]:
                    return ('v', False)
                elif not is_and and v[1]:
                    return ('v', True)
            return UNKNOWN if unknown else ('v', is_and)
        if isinstance(x, ast.Compare) and len(x.ops) == 1:
            op, l, rr = x.ops[0], x.left, x.comparators[0]
            a, b = val(l), val(rr)
            if a is UNKNOWN or b is UNKNOWN or a[1] is None or b[1] is None:
                return UNKNOWN
            if value == 2 and (is_counter(l) != is_counter(rr)):
                c = b[1] if is_counter(l) else a[1]
                if isinstance(c, bool) or c > 2:
                    return UNKNOWN
                if c == 2:
                    # counter >= 2 against the constant 2: only `>= 2` / `< 2` (counter on the left) are decided
                    decided = (ast.GtE, ast.Lt) if is_counter(l) else (ast.LtE, ast.Gt)
                    if not isinstance(op, decided):
                        return UNKNOWN
            a, b = a[1], b[1]
            table = {ast.Eq: a == b, ast.NotEq: a != b, ast.Lt: a < b, ast.LtE: a <= b, ast.Gt: a > b, ast.GtE: a >= b, ast.Is: a == b, ast.IsNot: a != b}
            if type(op) in table:
                return ('v', table[type(op)])
        return UNKNOWN
    v = val(e)
    return UNKNOWN if v is UNKNOWN else bool(v[1])


def check_transition(t):
    """-> [(kind, message)].  The guard is evaluated on the complete abstraction {0, 1, >=2} of the counter: for the increment method the old
    values 0, 1, >=2; for the decrement method the old values 1, 2, >=3 (0 is excluded by the counter being a nesting depth)."""
    problems = []
    selfname = t.fn.args.args[0].arg

    def ab(n):
        return min(n, 2)
    keys = t.added if t.delta > 0 else t.removed
    for old in ((0, 1, 2) if t.delta > 0 else (1, 2, 3)):
        new = old + t.delta
        g = eval_guard(t.guard, t.counter, ab(new) if t.aug_first else ab(old), selfname)
        if g is UNKNOWN:
            if not any(k == 'unmodelled' for k, _ in problems):
                problems.append(('unmodelled', 'guard `%s` not decided for the old counter value %s' % (_u(t.guard), '>= 2' if old >= 2 else old)))
            continue
        if t.delta > 0:
            if old == 0 and not g:
                problems.append(('enter', '%s.%s does not install %s in self.%s on the 0 -> 1 transition of self.%s (guard `%s` is false there): the feature is switched on '
                                 'but its keywords are still identifiers' % (t.cls, t.name, sorted(keys), t.table, t.counter, _u(t.guard))))
        else:
            if new == 0 and not g:
                problems.append(('exit', '%s.%s keeps %s in self.%s on the 1 -> 0 transition of self.%s (guard `%s` is false there): the keywords stay reserved outside the '
                                 'construct that enabled them' % (t.cls, t.name, sorted(keys), t.table, t.counter, _u(t.guard))))
            if new >= 1 and g and not any(k == 'exit-early' for k, _ in problems):
                problems.append(('exit-early', '%s.%s removes %s from self.%s although self.%s is still >= 1 afterwards (guard `%s`): the enclosing construct loses its keywords, '
                                 'and its own exit then deletes missing keys (KeyError)' % (t.cls, t.name, sorted(keys), t.table, t.counter, _u(t.guard))))
    return problems


def _module_string_lists(tree):
    """module-level names bound to literal lists/tuples of strings, `A + [...]` concatenations resolved"""
    env = {}

    def ev(v):
        lit = tables.literal(v)
        if isinstance(lit, (list, tuple)) and all(isinstance(x, str) for x in lit):
            return list(lit)
        if isinstance(v, ast.Name) and v.id in env:
            return env[v.id]
        if isinstance(v, ast.BinOp) and isinstance(v.op, ast.Add):
            a, b = ev(v.left), ev(v.right)
            if a is not None and b is not None:
                return a + b
        return None
    for st in tree.body:
        if isinstance(st, ast.Assign) and len(st.targets) == 1 and isinstance(st.targets[0], ast.Name):
            r = ev(st.value)
            if r is not None:
                env[st.targets[0].id] = r
    return env


def fresh_table_keys(init, table, lists):
    """keys a freshly built self.<table> can hold: union of the module-level string lists its initialiser draws from; None if not resolvable"""
    selfname = init.args.args[0].arg
    local = {}
    for n in walk_no_nested(init):
        if isinstance(n, ast.Assign) and len(n.targets) == 1 and isinstance(n.targets[0], ast.Name):
            local.setdefault(n.targets[0].id, []).append(n.value)
    keys, found = set(), False
    for n in walk_no_nested(init):
        if isinstance(n, ast.Assign) and any(is_self_attr(t, selfname) and t.attr == table for t in n.targets):
            found = True
            names = {x.id for x in ast.walk(n.value) if isinstance(x, ast.Name)}
            comp_targets = {y.id for x in ast.walk(n.value) if isinstance(x, ast.comprehension) for y in ast.walk(x.target) if isinstance(y, ast.Name)}
            for x in ast.walk(n.value):
                if isinstance(x, ast.Dict):
                    for k in x.keys:
                        if isinstance(k, ast.Constant):
                            keys.add(k.value)
            for nm in names - comp_targets:
                srcs = [ast.Name(id=nm)] if nm in lists else local.get(nm)
                if srcs is None:
                    if nm in ('dict', 'list', 'set', 'tuple', 'frozenset'):
                        continue
                    return None
                for s in srcs:
                    if isinstance(s, ast.Name) and s.id in lists:
                        keys |= set(lists[s.id])
                    else:
                        return None
    return keys if found else None


def couple_findings(cls_name, methods, module_tree, all_trees):
    """-> (instances [(key, sample)], violations [(key, lineno, rel or None, msg)], infos)"""
    inst, viol, infos = [], [], []
    trans = find_transitions(cls_name, methods)
    pairs = {}
    for t in trans:
        pairs.setdefault((t.counter, t.table), []).append(t)
    for (counter, table), ts in sorted(pairs.items()):
        ups = [t for t in ts if t.delta > 0 and t.added]
        downs = [t for t in ts if t.delta < 0 and t.removed]
        if not ups or not downs:
            continue
        base = '%s.%s<->%s' % (cls_name, counter, table)
        for t in ups + downs:
            k = '%s:%s' % (base, t.name)
            inst.append((k, '%s: self.%s %s 1, %s %s under `%s`' % (k, counter, '+=' if t.delta > 0 else '-=', 'adds' if t.delta > 0 else 'removes',
                                                                    sorted(t.added if t.delta > 0 else t.removed), _u(t.guard))))
            for kind, msg in check_transition(t):
                if kind == 'unmodelled':
                    infos.append('%s: %s' % (k, msg))
                else:
                    viol.append(('%s:%s' % (k, kind), t.fn.lineno, None, msg))
        added = set().union(*[t.added for t in ups])
        removed = set().union(*[t.removed for t in downs])
        k = '%s:keys' % base
        inst.append((k, '%s: installed %s, removed %s' % (k, sorted(added), sorted(removed))))
        if added != removed:
            viol.append((k, downs[0].fn.lineno, None, '%s installs %s in self.%s but %s removes %s: %s' % (
                '/'.join(t.name for t in ups), sorted(added), table, '/'.join(t.name for t in downs), sorted(removed),
                'a key that is never installed is deleted (KeyError)' if removed - added else 'a keyword stays reserved after the construct that enabled it')))
        tnames = {t.name for t in ups + downs}
        # other writes of the counter inside the class
        for name, fn in sorted(methods.items()):
            if name in tnames or not fn.args.args:
                continue
            selfname = fn.args.args[0].arg
            n_w = 0
            for n in walk_no_nested(fn):
                tgts = []
                if isinstance(n, ast.Assign):
                    tgts = [(t, n.value) for t in n.targets]
                elif isinstance(n, (ast.AugAssign, ast.AnnAssign)):
                    tgts = [(n.target, None)]
                for t, v in tgts:
                    for tt in (t.elts if isinstance(t, (ast.Tuple, ast.List)) else [t]):
                        if is_self_attr(tt, selfname) and tt.attr == counter:
                            n_w += 1
                            k = '%s:write in %s#%d' % (base, name, n_w)
                            inst.append((k, '%s: %s' % (k, _u(n))))
                            zero = isinstance(v, ast.Constant) and v.value == 0 and not isinstance(v.value, bool) and tt is t
                            if not (name == '__init__' and zero):
                                viol.append(('%s:write in %s' % (base, name), n.lineno, None,
                                             '%s.%s sets self.%s with `%s` without going through %s: self.%s is not brought in line, so a scanner can have the '
                                             'feature counted as enabled while %s are still plain identifiers (valid `await`/`async` code is rejected), or the other way round'
                                             % (cls_name, name, counter, _u(n), '/'.join(sorted(tnames)), table, sorted(added))))
                            else:
                                fk = fresh_table_keys(fn, table, _module_string_lists(module_tree))
                                if fk is None:
                                    infos.append('%s: keys of the freshly built self.%s not resolved' % (k, table))
                                elif fk & added:
                                    viol.append(('%s:fresh-table' % base, n.lineno, None, '%s.__init__ starts with self.%s = 0 but the fresh self.%s already holds %s: '
                                                 'the first %s removes keys the counter never accounted for' % (cls_name, counter, table, sorted(fk & added), downs[0].name)))
        # writes from outside the class
        for rel, tree in all_trees:
            for n in ast.walk(tree):
                tgt = None
                if isinstance(n, ast.Assign):
                    tgt = [t for t in n.targets if isinstance(t, ast.Attribute) and t.attr == counter and not (isinstance(t.value, ast.Name) and t.value.id == 'self')]
                elif isinstance(n, ast.AugAssign) and isinstance(n.target, ast.Attribute) and n.target.attr == counter and not (isinstance(n.target.value, ast.Name) and n.target.value.id == 'self'):
                    tgt = [n.target]
                elif isinstance(n, ast.Call) and isinstance(n.func, ast.Name) and n.func.id == 'setattr' and len(n.args) >= 2 and isinstance(n.args[1], ast.Constant) and n.args[1].value == counter:
                    tgt = [n]
                for t in tgt or []:
                    k = '%s:external write %s' % (base, _u(t) if not isinstance(t, ast.Call) else 'setattr')
                    inst.append((k, '%s in %s' % (k, rel)))
                    viol.append((k, n.lineno, rel, '`%s` in %s changes the counter %s.%s directly instead of calling %s: self.%s is not updated'
                                 % (_u(n), rel, cls_name, counter, '/'.join(sorted(tnames)), table)))
    return inst, viol, infos


_COUPLE_BAD = ("class S:\n    def __init__(self, parent=None):\n        self.keywords = {k: k for k in words}\n        if parent:\n            self.async_enabled = parent.async_enabled\n"
               "        else:\n            self.async_enabled = 0\n"
               "    def enter_async(self):\n        self.async_enabled += 1\n        if self.async_enabled == 1:\n            self.keywords['async'] = 'async'\n            self.keywords['await'] = 'await'\n"
               "    def exit_async(self):\n        self.async_enabled -= 1\n        if not self.async_enabled:\n            del self.keywords['await']\n            del self.keywords['async']\n")
_COUPLE_GOOD = ("class S:\n    def __init__(self, parent=None):\n        self.keywords = {k: k for k in words}\n        self.async_enabled = 0\n        if parent and parent.async_enabled:\n            self.enter_async()\n"
                "    def enter_async(self):\n        if self.async_enabled < 1:\n            self.keywords.update({'async': 'async', 'await': 'await'})\n        self.async_enabled += 1\n"
                "    def exit_async(self):\n        self.async_enabled -= 1\n        if self.async_enabled > 0:\n            return\n        else:\n            pass\n        if self.async_enabled == 0:\n"
                "            self.keywords.pop('await')\n            self.keywords.pop('async')\n")


def _methods_of(classdef):
    return {st.name: st for st in classdef.body if isinstance(st, ast.FunctionDef)}


def rule_COUPLE(ctx, floor=3):
    r = Rule('C43-COUPLE', 'a scanner counter whose 0<->1 transitions install/remove keywords is changed only by its transition methods, which install on 0->1 and remove exactly on 1->0 '
                           'the same key set; any other write is the constant 0 over a fresh table', floor)
    ix = ctx.index
    m = ix.mod('Scanning')
    trees = [(mm.rel, mm.tree) for mm in ix.modules.values() if mm.rel.startswith('Cython/Compiler/') and mm is not m]
    n_pairs = 0
    for cname, c in sorted(m.classes.items()):
        inst, viol, infos = couple_findings(cname, c.methods, m.tree, trees)
        # external writes inside the Scanning module itself (other classes / functions)
        for k, sample in inst:
            r.inst(k, sample=sample)
        n_pairs += 1 if inst else 0
        for k, line, rel, msg in viol:
            r.violate(k, rel or m.rel, line, msg)
        for i in infos:
            r.info(i)
    if not n_pairs:
        raise AnalysisError('no counter/table transition methods found in Scanning (enter_async/exit_async moved?)')
    bad = ast.parse(_COUPLE_BAD).body[0]
    good = ast.parse(_COUPLE_GOOD).body[0]
    _, vb, _ = couple_findings('S', _methods_of(bad), ast.parse('words = ["def", "class"]'), [])
    ig, vg, infg = couple_findings('S', _methods_of(good), ast.parse('words = ["def", "class"]'), [])
    r.positive_control(any(k.endswith('write in __init__') for k, _, _, _ in vb) and len(ig) >= 4 and not vg and not infg,
                       'counter copied from the parent scanner without installing the keywords / equivalent correct variant')
    return r


# ====================================================================================================== C43-EXCSHAPE
FIXED_BUILTIN_ARITY = {'UnicodeDecodeError': 5, 'UnicodeEncodeError': 5, 'UnicodeTranslateError': 4}


def _builtin_exc(name):
    o = getattr(builtins, name, None)
    return o if isinstance(o, type) and issubclass(o, BaseException) else None


class ExcModel:
    def __init__(self, ix):
        self.ix = ix
        self._exc = {}
        self._arity = {}

    def is_exception(self, c):
        if id(c) not in self._exc:
            self._exc[id(c)] = False
            r = any(_builtin_exc(b.split('.')[-1]) for b in c.unresolved_bases) or any(self.is_exception(b) for b in c.bases)
            self._exc[id(c)] = r
        return self._exc[id(c)]

    def builtin_attrs(self, c):
        out = set(dir(Exception))
        for k in self.ix.mro(c):
            for b in k.unresolved_bases:
                e = _builtin_exc(b.split('.')[-1])
                if e:
                    out |= set(dir(e))
        return out

    def init_arity(self, owner, fn, depth=0):
        """length of .args after running owner.__init__ (top-level statements only): int | UNKNOWN"""
        if depth > 6 or not fn.args.args:
            return UNKNOWN
        selfname = fn.args.args[0].arg
        arity = UNKNOWN
        for st in fn.body:
            if isinstance(st, ast.Assign) and any(is_self_attr(t, selfname) and t.attr == 'args' for t in st.targets):
                arity = len(st.value.elts) if isinstance(st.value, ast.Tuple) and not any(isinstance(e, ast.Starred) for e in st.value.elts) else UNKNOWN
            elif isinstance(st, ast.Expr) and isinstance(st.value, ast.Call) and isinstance(st.value.func, ast.Attribute) and st.value.func.attr == '__init__':
                c = st.value
                base = c.func.value
                args = list(c.args)
                if any(isinstance(a, ast.Starred) for a in args) or any(k.arg is None for k in c.keywords):
                    arity = UNKNOWN
                    continue
                if isinstance(base, ast.Call) and isinstance(base.func, ast.Name) and base.func.id == 'super':
                    nxt = None
                    mro = self.ix.mro(owner)
                    for k in mro[1:]:
                        if '__init__' in k.methods:
                            nxt = k
                            break
                    arity = self.init_arity(nxt, nxt.methods['__init__'], depth + 1) if nxt else len(args) + len(c.keywords)
                else:
                    if not (args and isinstance(args[0], ast.Name) and args[0].id == selfname):
                        continue
                    r = self.ix.resolve_expr(owner.module, base)
                    if r and r[0] == 'class':
                        f = self.ix.find_method(r[1], '__init__')
                        arity = self.init_arity(f[0], f[1], depth + 1) if f else len(args) - 1
                    elif isinstance(base, ast.Name) and _builtin_exc(base.id):
                        arity = len(args) - 1
                    else:
                        arity = UNKNOWN
            elif any(isinstance(n, ast.Attribute) and is_self_attr(n, selfname) and n.attr == 'args' and isinstance(n.ctx, ast.Store) for n in ast.walk(st)):
                arity = UNKNOWN       # conditional / nested rebinding of self.args
        return arity

    def arity(self, c):
        if id(c) not in self._arity:
            f = self.ix.find_method(c, '__init__')
            self._arity[id(c)] = self.init_arity(f[0], f[1]) if f else UNKNOWN
        return self._arity[id(c)]

    def cone(self, c):
        return [c] + self.ix.subclasses(c)


def held_error_sources(ix, model):
    """-> (set of (module short, function name) whose result / yielded value is a list of held errors, element classes)"""
    er = ix.mod('Errors')
    prim = set()
    for name, fn in er.functions.items():
        # returns (an alias of) a list that is pushed on / is the top of <...>.cython_errors_stack
        stackish = any(isinstance(n, ast.Attribute) and n.attr.endswith('errors_stack') for n in ast.walk(fn))
        rets = [n for n in walk_no_nested(fn) if isinstance(n, ast.Return) and n.value is not None]
        if stackish and rets and not any(isinstance(d, ast.Name) and d.id == 'contextmanager' for d in fn.decorator_list):
            prim.add(('Errors', name))
    if not prim:
        raise AnalysisError('Errors.hold_errors()/held_errors() not found')
    # element classes: what Errors hands to report_error()
    elems = set()
    for name, fn in er.functions.items():
        made = {}
        for n in walk_no_nested(fn):
            if isinstance(n, ast.Assign) and isinstance(n.value, ast.Call) and isinstance(n.value.func, ast.Name):
                rc = ix.resolve_name(er, n.value.func.id)
                if rc and rc[0] == 'class' and model.is_exception(rc[1]):
                    for t in n.targets:
                        if isinstance(t, ast.Name):
                            made[t.id] = rc[1]
        for n in walk_no_nested(fn):
            if isinstance(n, ast.Call) and isinstance(n.func, ast.Name) and n.func.id == 'report_error' and n.args and isinstance(n.args[0], ast.Name) and n.args[0].id in made:
                elems.add(made[n.args[0].id])
    if not elems:
        raise AnalysisError('Errors: no function constructs an exception and passes it to report_error()')

    def yields_held(m, fn, known):
        if not any((isinstance(d, ast.Name) and d.id == 'contextmanager') or (isinstance(d, ast.Attribute) and d.attr == 'contextmanager') for d in fn.decorator_list):
            return False
        held = set()
        for n in walk_no_nested(fn):
            if isinstance(n, ast.Assign) and isinstance(n.value, ast.Call):
                r = ix.resolve_expr(m, n.value.func)
                if r and r[0] == 'func' and (r[1].short, r[2].name) in known:
                    held |= {t.id for t in n.targets if isinstance(t, ast.Name)}
        for n in walk_no_nested(fn):
            if isinstance(n, ast.Yield) and n.value is not None:
                if isinstance(n.value, ast.Name) and n.value.id in held:
                    return True
                if isinstance(n.value, ast.Call):
                    r = ix.resolve_expr(m, n.value.func)
                    if r and r[0] == 'func' and (r[1].short, r[2].name) in known:
                        return True
        return False
    ctxs = set()
    for m in ix.modules.values():
        for name, fn in m.functions.items():
            if yields_held(m, fn, prim):
                ctxs.add((m.short, name))
    return prim, ctxs, elems


def typed_exception_reads(ix, model, m, fn, prim, ctxs, elems):
    """reads on exception-typed variables of one function: [(var text, classes or builtin names, node, kind 'index'|'unpack'|'attr', detail, how)]"""
    out = []

    def reads_on(var_pred, scope_nodes, classes, how):
        for n in scope_nodes:
            for x in ast.walk(n):
                if isinstance(x, ast.Subscript) and isinstance(x.value, ast.Attribute) and x.value.attr == 'args' and var_pred(x.value.value) and isinstance(x.ctx, ast.Load):
                    idx = x.slice
                    if isinstance(idx, ast.UnaryOp) and isinstance(idx.op, ast.USub) and isinstance(idx.operand, ast.Constant) and isinstance(idx.operand.value, int):
                        out.append((_u(x.value.value), classes, x, 'index', -idx.operand.value, how))
                    elif isinstance(idx, ast.Constant) and isinstance(idx.value, int):
                        out.append((_u(x.value.value), classes, x, 'index', idx.value, how))
                elif isinstance(x, ast.Assign) and isinstance(x.value, ast.Attribute) and x.value.attr == 'args' and var_pred(x.value.value) and \
                        isinstance(x.targets[0], (ast.Tuple, ast.List)) and not any(isinstance(e, ast.Starred) for e in x.targets[0].elts):
                    out.append((_u(x.value.value), classes, x, 'unpack', len(x.targets[0].elts), how))
                elif isinstance(x, ast.Attribute) and isinstance(x.ctx, ast.Load) and var_pred(x.value) and x.attr != 'args' and not x.attr.startswith('__'):
                    out.append((_u(x.value), classes, x, 'attr', x.attr, how))

    # (a) except C as e
    for n in walk_no_nested(fn):
        if isinstance(n, ast.ExceptHandler) and n.name and n.type is not None:
            types = n.type.elts if isinstance(n.type, ast.Tuple) else [n.type]
            classes = []
            for t in types:
                r = ix.resolve_expr(m, t)
                if r and r[0] == 'class' and model.is_exception(r[1]):
                    classes.append(r[1])
                elif isinstance(t, ast.Name) and _builtin_exc(t.id) and r is None:
                    classes.append(t.id)
                else:
                    classes = None
                    break
            if not classes:
                continue
            # getattr(e, ...) / hasattr-guarded attributes are not reads of a guaranteed attribute
            name = n.name
            reads_on(lambda v, name=name: isinstance(v, ast.Name) and v.id == name, n.body, classes, 'except %s as %s' % (_u(n.type), name))
    # (b) held error lists
    lists = set()
    for n in walk_no_nested(fn):
        if isinstance(n, (ast.With, ast.AsyncWith)):
            for it in n.items:
                if isinstance(it.context_expr, ast.Call) and isinstance(it.optional_vars, ast.Name):
                    r = ix.resolve_expr(m, it.context_expr.func)
                    if r and r[0] == 'func' and (r[1].short, r[2].name) in ctxs:
                        lists.add(it.optional_vars.id)
        elif isinstance(n, ast.Assign) and isinstance(n.value, ast.Call):
            r = ix.resolve_expr(m, n.value.func)
            if r and r[0] == 'func' and (r[1].short, r[2].name) in prim:
                lists |= {t.id for t in n.targets if isinstance(t, ast.Name)}
    if lists:
        elems_alias = set()
        for n in walk_no_nested(fn):
            if isinstance(n, ast.Assign) and isinstance(n.value, ast.Subscript) and isinstance(n.value.value, ast.Name) and n.value.value.id in lists \
                    and not isinstance(n.value.slice, ast.Slice):
                elems_alias |= {t.id for t in n.targets if isinstance(t, ast.Name)}
            elif isinstance(n, (ast.For, ast.AsyncFor)) and isinstance(n.iter, ast.Name) and n.iter.id in lists and isinstance(n.target, ast.Name):
                elems_alias.add(n.target.id)

        def pred(v):
            if isinstance(v, ast.Name) and v.id in elems_alias:
                return True
            return isinstance(v, ast.Subscript) and isinstance(v.value, ast.Name) and v.value.id in lists and not isinstance(v.slice, ast.Slice)
        reads_on(pred, fn.body, sorted(elems, key=lambda c: c.qual), 'held errors %s' % '/'.join(sorted(lists)))
    return out


def check_read(model, ix, classes, kind, detail):
    """-> (verdict 'ok'|'bad'|'unknown', message)"""
    worst = ('ok', '')
    for c in classes:
        if isinstance(c, str):
            if kind in ('index', 'unpack'):
                ar = FIXED_BUILTIN_ARITY.get(c)
                if ar is None:
                    return ('skip', '')
                cands = [(c, ar)]
            else:
                e = _builtin_exc(c)
                if detail not in dir(e):
                    return ('bad', 'builtin %s has no attribute %s' % (c, detail))
                continue
        else:
            if kind == 'attr':
                have = ix.defined_attrs(c) | model.builtin_attrs(c)
                if detail not in have:
                    return ('bad', '%s (and its bases) never define `%s`' % (c.qual, detail))
                continue
            cands = []
            for k in model.cone(c):
                if k is c or '__init__' in k.methods:
                    cands.append((k.qual, model.arity(k)))
        for label, ar in cands:
            if ar is UNKNOWN:
                if worst[0] == 'ok':
                    worst = ('unknown', '.args shape of %s not determined' % label)
                continue
            if kind == 'index':
                need = detail + 1 if detail >= 0 else -detail
                if ar < need:
                    return ('bad', '%s.__init__ leaves .args with %d element%s' % (label, ar, '' if ar == 1 else 's'))
            elif kind == 'unpack' and ar != detail:
                return ('bad', '%s.__init__ leaves .args with %d element%s, %d are unpacked' % (label, ar, '' if ar == 1 else 's', detail))
    return worst


_EXC_PC = ("class MyError(Exception):\n    def __init__(self, position=None, message=''):\n        self.position = position\n        Exception.__init__(self, format(message, position))\n")


def rule_EXCSHAPE(ctx, floor=7):
    r = Rule('C43-EXCSHAPE', 'every `.args[i]` / `.args` unpacking / attribute read on a variable of nominally known exception class fits the payload the class\' __init__ establishes',
             floor)
    ix = ctx.index
    model = ExcModel(ix)
    prim, ctxs, elems = held_error_sources(ix, model)
    n_idx = 0
    for m in sorted(ix.modules.values(), key=lambda mm: mm.rel):
        if not (m.rel.startswith('Cython/Compiler/') or m.rel.startswith('Cython/Build/') or m.rel.count('/') == 1):
            continue
        for qn, owner, fn in ix.functions_of(m):
            seen = {}
            for var, classes, node, kind, detail, how in typed_exception_reads(ix, model, m, fn, prim, ctxs, elems):
                verdict, why = check_read(model, ix, classes, kind, detail)
                if verdict == 'skip':
                    continue
                what = {'index': '%s.args[%d]' % (var, detail) if kind == 'index' else '', 'unpack': '%d names = %s.args' % (detail if kind == 'unpack' else 0, var),
                        'attr': '%s.%s' % (var, detail)}[kind]
                base = '%s.%s:%s' % (m.short, qn, what)
                seen[base] = seen.get(base, 0) + 1
                key = base if seen[base] == 1 else '%s#%d' % (base, seen[base])
                cl = '/'.join(c if isinstance(c, str) else c.name for c in classes)
                r.inst(key, sample='%s (%s: %s)' % (key, how, cl), nontrivial=kind != 'attr' or verdict != 'ok')
                n_idx += kind != 'attr'
                if verdict == 'bad':
                    r.violate(base, m.rel, node.lineno, '%s.%s reads %s of a %s (%s) but %s: the read raises %s inside the compiler, an internal traceback instead of a positioned error'
                              % (m.short, qn, what, cl, how, why, 'AttributeError' if kind == 'attr' else 'IndexError/ValueError'))
                elif verdict == 'unknown':
                    r.info('%s: %s' % (key, why))
    if n_idx < 4:
        raise AnalysisError('only %d .args reads on typed exception variables found (held-error lists no longer recognised?)' % n_idx)
    # positive control: a class that only calls Exception.__init__(self, one_string) has a 1-tuple
    cd = ast.parse(_EXC_PC).body[0]

    class _Owner:
        pass
    o = _Owner()
    o.module = ix.mod('Errors')
    o.methods = {'__init__': cd.body[0]}
    r.positive_control(model.init_arity(o, cd.body[0]) == 1, 'exception class without an explicit self.args tuple: .args[1] is out of range')
    return r
