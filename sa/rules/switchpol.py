"""C19-POL — polarity of merged switch conditions.

SwitchTransform.extract_conditions merges `a or b` / `a and b` sub-conditions on one variable into one case list.
`x == c1 or x == c2` is `x in (c1, c2)`; `x != c1 and x != c2` is `x not in (c1, c2)`.  Any other combination
(`x == c1 and x == c2`, `x != c1 or x != c2`) must NOT be merged.  The merge branch is evaluated over its complete
finite domain: operator in {or, and} x allow_not_in x (not_in_1, not_in_2)."""
import ast, itertools

from ..core import Rule, AnalysisError, node_src
from ..engine.pyindex import walk_no_nested


class _Unknown(Exception):
    pass


def _ev(node, env):
    if isinstance(node, ast.Constant):
        return node.value
    if isinstance(node, ast.Name):
        if node.id in env:
            return env[node.id]
        raise _Unknown(node.id)
    if isinstance(node, ast.Attribute):
        k = ast.unparse(node)
        if k in env:
            return env[k]
        raise _Unknown(k)
    if isinstance(node, ast.BoolOp):
        if isinstance(node.op, ast.And):
            r = True
            for v in node.values:
                r = _ev(v, env)
                if not r:
                    return r
            return r
        r = False
        for v in node.values:
            r = _ev(v, env)
            if r:
                return r
        return r
    if isinstance(node, ast.UnaryOp) and isinstance(node.op, ast.Not):
        return not _ev(node.operand, env)
    if isinstance(node, ast.Compare) and len(node.ops) == 1:
        a, b = _ev(node.left, env), _ev(node.comparators[0], env)
        op = node.ops[0]
        if isinstance(op, ast.Eq): return a == b
        if isinstance(op, ast.NotEq): return a != b
        if isinstance(op, ast.Is): return a is b
        if isinstance(op, ast.IsNot): return a is not b
    if isinstance(node, ast.Call) and isinstance(node.func, ast.Name) and node.func.id == 'is_common_value':
        return env.get('is_common_value', True)
    raise _Unknown(ast.dump(node)[:50])


def rule_switch_polarity(ctx):
    ix = ctx.index
    r = Rule('C19-POL', 'extract_conditions merges boolean-operator sub-conditions only as `==` joined by `or` (in) or `!=` joined by `and` (not in)', floor=8)
    sw = ix.cls('Optimize', 'SwitchTransform')
    fn = sw.methods.get('extract_conditions')
    if fn is None:
        raise AnalysisError('SwitchTransform.extract_conditions vanished')
    branch = None
    for n in walk_no_nested(fn):
        if isinstance(n, ast.If) and 'BoolBinopNode' in ast.unparse(n.test):
            branch = n
    if branch is None:
        raise AnalysisError('extract_conditions: BoolBinopNode branch not found')
    params = [a.arg for a in fn.args.args]
    allow = params[2] if len(params) > 2 else 'allow_not_in'

    def run(stmts, env):
        """-> ('merge', not_in value) | 'nomatch' for one point of the domain."""
        for s in stmts:
            if isinstance(s, ast.If):
                if _ev(s.test, env):
                    res = run(s.body, env)
                else:
                    res = run(s.orelse, env) if s.orelse else None
                if res is not None:
                    return res
            elif isinstance(s, ast.Assign):
                v = s.value
                tg = s.targets[0]
                if isinstance(v, ast.Call) and isinstance(v.func, ast.Attribute) and v.func.attr == fn.name and isinstance(tg, ast.Tuple):
                    # recursive extraction: the results are domain variables (first element = polarity, second = variable)
                    idx = env['_calls']
                    env['_calls'] += 1
                    names = [e.id for e in tg.elts]
                    env[names[0]] = env['_not_in'][idx]
                    env[names[1]] = 'var'
                    env[names[2]] = ['c%d' % idx]
                    # the allow_not_in handed down
                    env['_passed_allow'].append(_ev(v.args[1], env) if len(v.args) > 1 else None)
                elif isinstance(tg, ast.Name):
                    env[tg.id] = _ev(v, env)
            elif isinstance(s, ast.Return):
                v = s.value
                if isinstance(v, ast.Tuple):
                    return ('merge', _ev(v.elts[0], env))
                return 'nomatch'
        return None

    for op, allow_v, n1, n2 in itertools.product(('or', 'and'), (False, True), (False, True), (False, True)):
        # sub-results that the recursive calls cannot produce under the allow flag they were given are skipped below
        env = {'cond.operator': op, allow: allow_v, '_calls': 0, '_not_in': [n1, n2], '_passed_allow': [], 'is_common_value': True}
        try:
            res = run(branch.body, env) or 'nomatch'
        except _Unknown as e:
            raise AnalysisError('extract_conditions: cannot evaluate the merge branch (%s)' % e)
        # feasibility: a sub-extraction returns not_in=True only if it was allowed to
        feasible = all(not ni or pa for ni, pa in zip((n1, n2), env['_passed_allow'] + [None, None]))
        key = 'merge:%s:allow=%s:(%s,%s)' % (op, allow_v, n1, n2)
        r.inst(key, sample='%s -> %s%s' % (key, res, '' if feasible else ' (infeasible sub-results)'), nontrivial=feasible)
        if not feasible:
            continue
        want = None
        if op == 'or' and not n1 and not n2:
            want = ('merge', False)
        elif op == 'and' and n1 and n2 and allow_v:
            want = ('merge', True)
        if res != 'nomatch' and res != want:
            what = {('and', False): '`x == a and x == b` is merged into `x in (a, b)` (true for x == a although the conjunction is false)',
                    ('or', True): '`x != a or x != b` is merged into `x not in (a, b)`'}.get((op, bool(res[1])), 'sub-conditions of different polarity are merged')
            r.violate('Optimize.SwitchTransform.extract_conditions:merge:%s:%s' % (op, 'not_in' if res[1] else 'in'), sw.module.rel, branch.lineno,
                      'extract_conditions merges sub-conditions joined by %r with polarities (%s, %s) into one %s case list: %s' % (
                          op, 'not_in' if n1 else 'in', 'not_in' if n2 else 'in', 'not-in' if res[1] else 'in', what))
    return r
