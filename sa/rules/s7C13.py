"""C13, round 7: identity shortcuts of converting constructors (C13-IDENT, C13-IDENT-SITE) and codec selection of str.encode / bytes.decode (C13-CODEC).

C13-IDENT       A C helper that stands in for a converting constructor (`list(x)` -> PySequence_List, `tuple(x)`, `int(x)`, `float(x)`, `str(x)`, `frozenset(x)`,
                `abs(x)`, `format(x, '')` ...) may hand out its operand itself instead of calling the C-API function only where the builtin would do the same:
                the operand is *exactly* of the result type (a subclass instance is converted - overridden __iter__ / __str__ / __int__ are consulted and the result has the
                exact type), and, for a mutable result type, nobody else holds a reference to it (list(x) is a new object).  Decision trees of macros (nested `?:`) and
                of functions (if / else / early return) are extracted; for every leaf that yields the operand the path condition must contain the exact-type test of a
                type the reference table allows for the C-API function of the sibling leaves (followed through wrappers), and a uniqueness test for mutable types.
C13-IDENT-SITE  A helper whose identity leaf depends on a uniqueness test is only correct for an operand that is an owned temporary (a variable holds exactly one
                reference too): wherever the compiler selects such a helper by name the selecting condition must contain `<operand>.result_in_temp()`.
C13-CODEC       The handlers of str.encode / bytes.decode / bytearray.decode are run by the tree-builder interpreter (rules/pC01.py) on the complete abstract
                partition  encoding in {absent, literal naming special codec k (every row of _special_encodings), literal naming no special codec, run-time value}
                x errors in {absent, literal 'strict', literal other, run-time value};  the C call built for each combination must realise the requested
                (encoding, error handler) pair according to the C-API reference: PyUnicode_As<Codec>String(u) encodes with <Codec> and *strict* error handling,
                PyUnicode_AsEncodedString(u, enc, err) / the __Pyx_decode_* helpers use enc (NULL: UTF-8) and err (NULL: strict), a decode function pointer
                PyUnicode_Decode<Codec> replaces the encoding.  On the C side every function that receives `errors` together with a decode function pointer must
                hand its own `errors` (and `encoding`) parameter on to the decoder it calls.
"""
import ast
import glob
import os
import re

from ..core import Rule, AnalysisError
from ..engine.cutil import strip_c_comments, split_args, match_paren
from ..engine import cguard

# ====================================================================================================================== C13-IDENT
# C-API function -> (exact types of an operand for which the builtin returns an object indistinguishable from the operand, mutable result?)
# Sources: C-API reference "Sequence Protocol" (PySequence_List: "equivalent to list(o)", PySequence_Tuple: "If o is a tuple, a new reference will be returned"),
# "Number Protocol" (PyNumber_Long = int(o), PyNumber_Float = float(o), PyNumber_Absolute = abs(o), PyNumber_Index), "Object Protocol" (PyObject_Str = str(o),
# PyObject_Format = format(o, spec), PyObject_Bytes = bytes(o)), "Set Objects", "Dictionary Objects"; library reference: the constructors return an object of exactly
# the built-in type (int(True) is 1, str(subclass instance) calls __str__, list(subclass instance) iterates it).
CONV = {
    'PySequence_List': (('List',), True),
    'PySequence_Tuple': (('Tuple',), False),
    'PyNumber_Long': (('Long',), False),
    'PyNumber_Index': (('Long',), False),
    'PyNumber_Float': (('Float',), False),
    'PyNumber_Absolute': (('Long', 'Float'), False),
    'PyObject_Str': (('Unicode',), False),
    'PyObject_Format': (('Unicode',), False),
    'PyObject_Bytes': (('Bytes',), False),
    'PyBytes_FromObject': (('Bytes',), False),
    'PyFrozenSet_New': (('FrozenSet',), False),
    'PySet_New': (('Set',), True),
    'PyDict_Copy': (('Dict',), True),
    'PyByteArray_FromObject': (('ByteArray',), True),
}
_WRAP = re.compile(r'^(?:likely|unlikely|__builtin_expect)\s*\(')
_NEWREF = ('__Pyx_NewRef', 'Py_NewRef', '__Pyx_XNewRef', 'Py_XNewRef')


def _strip(t):
    """remove whitespace, enclosing parentheses and likely()/unlikely() wrappers"""
    t = ' '.join(t.split())
    while True:
        if t.startswith('(') and match_paren(t, 0) == len(t) - 1:
            t = t[1:-1].strip()
            continue
        m = _WRAP.match(t)
        if m and match_paren(t, m.end() - 1) == len(t) - 1:
            inner = t[m.end():-1]
            if m.group(0).startswith('__builtin_expect'):
                inner = split_args(inner)[0]
            t = inner.strip()
            continue
        return t


def _split_top(t, op):
    """split at top-level occurrences of the two-character operator `op` ('&&' / '||')"""
    out, depth, last, i = [], 0, 0, 0
    while i < len(t):
        c = t[i]
        if c in '([{':
            depth += 1
        elif c in ')]}':
            depth -= 1
        elif depth == 0 and t.startswith(op, i):
            out.append(t[last:i])
            last = i + len(op)
            i += len(op)
            continue
        i += 1
    out.append(t[last:])
    return out


def atoms_of(cond, polarity):
    """literals (text, positive) that certainly hold when `cond` evaluates to `polarity` (a sound under-approximation: disjunctions contribute nothing)"""
    t = _strip(cond)
    neg = False
    while t.startswith('!') and not t.startswith('!='):
        inner = _strip(t[1:])
        # `!a && b` must not be read as !(a && b)
        if len(_split_top(t[1:], '&&')) > 1 or len(_split_top(t[1:], '||')) > 1:
            if not (t[1:].lstrip().startswith('(') and match_paren(t[1:].lstrip(), 0) == len(t[1:].lstrip()) - 1):
                break
        t, neg = inner, not neg
    pol = polarity != neg
    ands, ors = _split_top(t, '&&'), _split_top(t, '||')
    if len(ors) > 1:
        if pol:
            return []
        return [a for part in ors for a in atoms_of(part, False)]
    if len(ands) > 1:
        if not pol:
            return []
        return [a for part in ands for a in atoms_of(part, True)]
    m = re.fullmatch(r'(.+?)\s*(==|!=)\s*(0|NULL)', t)
    if m and not re.search(r'[<>=!]=|[<>]', m.group(1)):
        return atoms_of(m.group(1), pol != (m.group(2) == '=='))
    m = re.fullmatch(r'([^<>=!]+?)\s*(==|!=)\s*([^<>=!]+)', t)
    if m and not pol:
        return [('%s %s %s' % (m.group(1).strip(), '!=' if m.group(2) == '==' else '==', m.group(3).strip()), True)]
    return [(t, pol)]


def tern_leaves(text, conds=()):
    """decision tree of a C expression built from `?:` -> [(leaf text, [(condition text, polarity)])]"""
    t = _strip(text)
    depth, q = 0, -1
    for i, c in enumerate(t):
        if c in '([{':
            depth += 1
        elif c in ')]}':
            depth -= 1
        elif c == '?' and depth == 0:
            q = i
            break
    if q < 0:
        return [(t, list(conds))]
    depth, nest, colon = 0, 0, -1
    for i in range(q + 1, len(t)):
        c = t[i]
        if c in '([{':
            depth += 1
        elif c in ')]}':
            depth -= 1
        elif depth == 0 and c == '?':
            nest += 1
        elif depth == 0 and c == ':':
            if nest == 0:
                colon = i
                break
            nest -= 1
    if colon < 0:
        raise AnalysisError('unbalanced conditional expression: %s' % t[:80])
    cond = t[:q]
    return tern_leaves(t[q + 1:colon], tuple(conds) + ((cond, True),)) + tern_leaves(t[colon + 1:], tuple(conds) + ((cond, False),))


def _bare(a):
    a = _strip(a)
    a = re.sub(r'^\(\s*PyObject\s*\*\s*\)\s*', '', a)
    a = _strip(a)
    return a if re.fullmatch(r'[A-Za-z_]\w*', a) else None


def _calls(text):
    out = []
    for m in re.finditer(r'\b([A-Za-z_]\w*)\s*\(', text):
        if m.group(1) in ('if', 'while', 'for', 'switch', 'return', 'sizeof', 'defined'):
            continue
        rp = match_paren(text, m.end() - 1)
        if rp > 0:
            out.append((m.group(1), split_args(text[m.end():rp]), m.start()))
    return out


def identity_of(leaf, params):
    """parameter handed out by this leaf (`__Pyx_NewRef(p)`, `(Py_INCREF(p), p)`) or None"""
    t = _strip(leaf)
    m = re.fullmatch(r'([A-Za-z_]\w*)\s*\((.*)\)', t)
    if m and m.group(1) in _NEWREF:
        p = _bare(m.group(2))
        return p if p in params else None
    parts = split_args(t)
    if len(parts) == 2:
        m = re.fullmatch(r'(?:__Pyx_|Py_)X?INCREF\s*\((.*)\)', parts[0].strip())
        if m:
            p, p2 = _bare(m.group(1)), _bare(parts[1])
            if p and p == p2 and p in params:
                return p
    return None


def conv_of(cat, fname, depth=0):
    """C-API converters that `fname` applies to its first parameter (itself, or through wrappers in the utility catalogue) -> set of CONV keys"""
    if fname in CONV:
        return {fname}
    if depth > 3:
        return set()
    out = set()
    for d in cat.decls.get(fname, []):
        if not d.body or d.kind not in ('func', 'macro'):
            continue
        names = d.params if d.kind == 'macro' else d.param_names()
        if not names or not names[0]:
            continue
        body = strip_c_comments(d.body)
        for callee, args, _off in _calls(body):
            if callee == fname or not args:
                continue
            if _bare(args[0]) == names[0]:
                if callee in CONV:
                    out.add(callee)
                elif callee in cat.decls and callee.startswith('__Pyx'):
                    out |= conv_of(cat, callee, depth + 1)
    return out


_EXACT = (re.compile(r'^Py(\w+?)_CheckExact\s*\(\s*(\w+)\s*\)$'),
          re.compile(r'^Py_IS_TYPE\s*\(\s*(?P<p>\w+)\s*,\s*&\s*Py(?P<t>\w+?)_Type\s*\)$'),
          re.compile(r'^Py_TYPE\s*\(\s*(?P<p>\w+)\s*\)\s*==\s*&\s*Py(?P<t>\w+?)_Type$'),
          re.compile(r'^&\s*Py(?P<t>\w+?)_Type\s*==\s*Py_TYPE\s*\(\s*(?P<p>\w+)\s*\)$'))
_SUBCLS = re.compile(r'^Py(\w+?)_Check\s*\(\s*(\w+)\s*\)$')
_UNIQUE = (re.compile(r'^Py_REFCNT\s*\(\s*(\w+)\s*\)\s*(?:==\s*1|<\s*2|<=\s*1)$'), re.compile(r'^1\s*==\s*Py_REFCNT\s*\(\s*(\w+)\s*\)$'),
           re.compile(r'^PyUnstable_Object_IsUniquelyReferenced\s*\(\s*(\w+)\s*\)$'), re.compile(r'^__Pyx_IS_UNIQUELY_REFERENCED\s*\(\s*(\w+)\s*[,)]'),
           re.compile(r'^_?PyObject_IsUniquelyReferenced\s*\(\s*(\w+)\s*\)$'))


def judge_identity(p, conds, convs):
    """conds: [(condition text, polarity)] on the path of a leaf that hands out parameter p; convs: CONV keys of the sibling leaves -> (problem | None, needs_unique)"""
    lits = [a for c, pol in conds for a in atoms_of(c, pol)]
    exact, sub, unique = set(), set(), False
    for t, pos in lits:
        if not pos:
            continue
        t = _strip(t)
        m = _EXACT[0].match(t)
        if m and m.group(2) == p:
            exact.add(m.group(1))
        for rx in _EXACT[1:]:
            m = rx.match(t)
            if m and m.group('p') == p:
                exact.add(m.group('t'))
        m = _SUBCLS.match(t)
        if m and m.group(2) == p:
            sub.add(m.group(1))
        for rx in _UNIQUE:
            m = rx.match(t)
            if m and m.group(1) == p:
                unique = True
    allowed = set.intersection(*[set(CONV[c][0]) for c in convs])
    mutable = any(CONV[c][1] for c in convs)
    api = '/'.join(sorted(convs))
    if not (exact & allowed):
        if exact:
            return ('the operand is handed out for an exact %s although the general path calls %s, whose result has type %s: the optimised call returns an object of the '
                    'wrong type' % ('/'.join(sorted(exact)), api, '/'.join(sorted(allowed)))), mutable
        if sub & allowed:
            return ('the operand is handed out after the subclass-admitting test Py%s_Check() (no exact-type test on the path): for an instance of a subclass the builtin '
                    'behind %s builds a new object of the exact type (consulting the overridden __iter__ / __str__ / __int__ ...), the optimised call returns the subclass '
                    'instance itself' % ('/'.join(sorted(sub & allowed)), api)), mutable
        return ('the operand is handed out without an exact-type test (Py%s_CheckExact) on the path although the general path converts it with %s'
                % ('/'.join(sorted(allowed)), api)), mutable
    if mutable and not unique:
        return ('the operand, a mutable %s, is handed out without a test that it is uniquely referenced (Py_REFCNT(x) == 1 / PyUnstable_Object_IsUniquelyReferenced): '
                '%s always returns a NEW object, the optimised call returns an object that is shared with its other owners' % ('/'.join(sorted(allowed)), api)), mutable
    return None, mutable


def _macro_instances(cat, d):
    """-> [(param, conds, convs)] for the identity leaves of one macro declaration"""
    body = strip_c_comments(d.body or '')
    if '?' not in body or '{{' in body:
        return []
    params = [p for p in (d.params or []) if p]
    try:
        leaves = tern_leaves(body)
    except AnalysisError:
        return []
    out = []
    ident = [(identity_of(l, params), c) for l, c in leaves]
    if not any(p for p, _c in ident):
        return []
    for p, conds in ident:
        if not p:
            continue
        convs = set()
        for l, _c in leaves:
            m = re.fullmatch(r'([A-Za-z_][\w.]*)\s*\((.*)\)', _strip(l))
            if not m or m.group(1) in _NEWREF:
                continue
            args = split_args(m.group(2))
            if args and _bare(args[0]) == p:
                convs |= conv_of(cat, m.group(1))
        if convs:
            out.append((p, conds, convs))
    return out


def _leaves_function(rest):
    """does the controlled statement text of an `if` always leave the function / block (return, goto) and have no else branch?"""
    t = rest.strip()
    if re.search(r'\belse\b', t):
        return False
    return bool(re.search(r'(?:\breturn\b[^;{}]*;|\bgoto\s+\w+\s*;)\s*}?\s*$', t))


def _func_instances(cat, d):
    """-> [(param, conds, convs)] for `return p;` / `return NewRef(p);` sites of one function that converts the same parameter elsewhere"""
    body = strip_c_comments(d.body or '')
    if not any(k in body for k in CONV) and '__Pyx' not in body:
        return []
    names = d.param_names()
    types = d.param_types()
    out = []
    for p, ty in zip(names, types):
        if not p or 'PyObject' not in ty or '*' not in ty:
            continue
        if re.search(r'(?<![=!<>.\w])\b%s\s*=(?!=)' % re.escape(p), body):
            continue                 # the parameter is re-assigned: `return p` is not the operand
        sites = [m.start() for m in re.finditer(r'\breturn\s+(?:%s\s*\(\s*)?\(?\s*%s\s*\)?\s*\)?\s*;' % ('|'.join(_NEWREF), re.escape(p)), body)]
        if not sites:
            continue
        convs = set()
        for callee, args, _off in _calls(body):
            if args and _bare(args[0]) == p and callee != d.name and callee not in _NEWREF:
                if callee in CONV:
                    convs.add(callee)
                elif callee.startswith('__Pyx') and callee in cat.decls:
                    convs |= conv_of(cat, callee)
        if not convs:
            continue
        for pos in sites:
            conds = list(cguard.guards(body, pos))
            for st in cguard.dominators(body, pos):
                m = re.match(r'\s*if\b\s*\(', st)
                if not m:
                    continue
                q = match_paren(st, m.end() - 1)
                if q > 0 and _leaves_function(st[q + 1:]):
                    conds.append((st[m.end():q], False))
            out.append((p, conds, convs))
    return out


PC_IDENT = [('(likely(PyList_Check(o) && Py_REFCNT(o) == 1) ? __Pyx_NewRef(o) : PySequence_List(o))', True),
            ('(likely(PyList_CheckExact(o)) ? __Pyx_NewRef(o) : PySequence_List(o))', True),
            ('(PyLong_CheckExact(o) ? (Py_INCREF(o), o) : PyNumber_Float(o))', True),
            ('(likely(PyList_CheckExact(o) && PyUnstable_Object_IsUniquelyReferenced(o)) ? __Pyx_NewRef(o) : PySequence_List(o))', False),
            ('(unlikely(!PyTuple_CheckExact(o)) ? PySequence_Tuple(o) : __Pyx_NewRef(o))', False)]


def unique_owner_helpers(ctx):
    """names of the helpers whose identity leaf is justified by a uniqueness test (correct only for an owned temporary)"""
    cat = ctx.cat
    out = set()
    for name, decls in cat.decls.items():
        for d in decls:
            if d.kind == 'macro' and d.body and d.params:
                for p, conds, convs in _macro_instances(cat, d):
                    if any(CONV[c][1] for c in convs):
                        out.add(name)
            elif d.kind == 'func' and d.body:
                for p, conds, convs in _func_instances(cat, d):
                    if any(CONV[c][1] for c in convs):
                        out.add(name)
    return out


def rule_ident(ctx, floor=8):
    r = Rule('C13-IDENT', 'a conversion helper hands out its operand itself only for an operand of exactly the result type (and, for a mutable type, a uniquely referenced one)', floor)
    cat = ctx.cat
    for name in sorted(cat.decls):
        for d in cat.decls[name]:
            if not d.body:
                continue
            if d.kind == 'macro' and d.params:
                insts = _macro_instances(cat, d)
            elif d.kind == 'func':
                insts = _func_instances(cat, d)
            else:
                continue
            for p, conds, convs in insts:
                key = '%s(%s) -> %s' % (name, p, '/'.join(sorted(convs)))
                r.inst(key, sample='%s:%s %s hands out `%s` under [%s]' % (d.file, d.line, name, p, ' && '.join(('' if pol else '!') + '(' + ' '.join(c.split()) + ')' for c, pol in conds)))
                problem, _m = judge_identity(p, conds, convs)
                if problem:
                    cfg = (' [configuration: %s]' % '; '.join(d.conds)) if d.conds else ''
                    r.violate(key, 'Cython/Utility/' + d.file, d.line, '%s%s: %s' % (name, cfg, problem))
    ok = True
    for text, bad in PC_IDENT:
        leaves = tern_leaves(text)
        got = None
        for l, conds in leaves:
            p = identity_of(l, ['o'])
            if p:
                convs = {m.group(1) for l2, _c in leaves for m in [re.match(r'(\w+)\s*\(', _strip(l2))] if m and m.group(1) in CONV}
                got = judge_identity(p, conds, convs)[0]
        if bool(got) != bad:
            ok = False
    r.positive_control(ok, 'PyList_Check / missing uniqueness test / wrong exact type reported, exact + unique and the negated form accepted')
    return r


# ====================================================================================================================== C13-IDENT-SITE
def _py_conditions(node, parents):
    """[(test, polarity)] of the conditional expressions / if statements that select `node` inside its function"""
    out = []
    cur = node
    while cur in parents:
        par = parents[cur]
        if isinstance(par, ast.IfExp):
            if cur is par.body:
                out.append((par.test, True))
            elif cur is par.orelse:
                out.append((par.test, False))
        elif isinstance(par, ast.If):
            if any(cur is s for s in par.body):
                out.append((par.test, True))
            elif any(cur is s for s in par.orelse):
                out.append((par.test, False))
        elif isinstance(par, (ast.FunctionDef, ast.AsyncFunctionDef, ast.Lambda)):
            break
        cur = par
    return out


def _py_atoms(test, pol, env=None):
    if isinstance(test, ast.Name) and env and test.id in env:
        return _py_atoms(env[test.id], pol)
    if isinstance(test, ast.UnaryOp) and isinstance(test.op, ast.Not):
        return _py_atoms(test.operand, not pol, env)
    if isinstance(test, ast.BoolOp):
        if isinstance(test.op, ast.And) and pol:
            return [a for v in test.values for a in _py_atoms(v, True, env)]
        if isinstance(test.op, ast.Or) and not pol:
            return [a for v in test.values for a in _py_atoms(v, False, env)]
        return []
    return [(test, pol)]


def _temp_test_receiver(e):
    if isinstance(e, ast.Call) and isinstance(e.func, ast.Attribute) and e.func.attr == 'result_in_temp' and not e.args:
        return e.func.value
    if isinstance(e, ast.Attribute) and e.attr == 'is_temp':
        return e.value
    return None


def _operand_names(const, parents, fn):
    """names of the node expressions whose result is passed to the selected helper: the `args=` list of the node constructor / the receivers of .py_result() /
    .result() in the formatted C text; one step of `x = y[k]` / `x = y` is followed backwards"""
    cur = const
    call = None
    stmt = None
    while cur in parents:
        par = parents[cur]
        if isinstance(par, ast.Call) and call is None and any(k.arg == 'args' for k in par.keywords):
            call = par
        if isinstance(par, ast.stmt):
            stmt = par
            break
        cur = par
    names = set()
    if call is not None:
        for k in call.keywords:
            if k.arg == 'args':
                names |= {n.id for n in ast.walk(k.value) if isinstance(n, ast.Name)}
    elif stmt is not None:
        for n in ast.walk(stmt):
            if isinstance(n, ast.Call) and isinstance(n.func, ast.Attribute) and n.func.attr in ('py_result', 'result') and isinstance(n.func.value, ast.Name):
                names.add(n.func.value.id)
    names.discard('self')
    if not names:
        return None
    more = set(names)
    for n in ast.walk(fn):
        if isinstance(n, ast.Assign) and len(n.targets) == 1 and isinstance(n.targets[0], ast.Name):
            v = n.value
            if isinstance(v, ast.Subscript):
                v = v.value
            if isinstance(v, ast.Name) and v.id in names:
                more.add(n.targets[0].id)
    return more


def rule_ident_site(ctx, floor=3):
    r = Rule('C13-IDENT-SITE', 'a helper that keeps a uniquely referenced operand is selected only for an operand that is an owned temporary (result_in_temp())', floor)
    helpers = unique_owner_helpers(ctx)
    if not helpers:
        raise AnalysisError('C13-IDENT-SITE: no conversion helper with a uniqueness test found in Cython/Utility')
    for path in sorted(glob.glob(os.path.join(ctx.repo, 'Cython', 'Compiler', '*.py'))):
        rel = os.path.relpath(path, ctx.repo)
        text = ctx.read(rel)
        if not any(h in text for h in helpers):
            continue
        tree = ctx.parse(rel)
        hit_lines = [i + 1 for i, ln in enumerate(text.split('\n')) if any(h in ln for h in helpers)]
        for fn in ast.walk(tree):
            if not isinstance(fn, (ast.FunctionDef, ast.AsyncFunctionDef)):
                continue
            if not any(fn.lineno <= ln <= (fn.end_lineno or fn.lineno) for ln in hit_lines):
                continue
            if any(isinstance(g, (ast.FunctionDef, ast.AsyncFunctionDef)) and g is not fn and any(g.lineno <= ln <= (g.end_lineno or g.lineno) for ln in hit_lines)
                   and not any(ln < g.lineno or ln > (g.end_lineno or g.lineno) for ln in hit_lines if fn.lineno <= ln <= (fn.end_lineno or fn.lineno))
                   for g in ast.walk(fn)):
                continue        # every occurrence lies in a nested function, which is visited on its own
            consts = [n for n in ast.walk(fn) if isinstance(n, ast.Constant) and isinstance(n.value, str) and n.value in helpers]
            if not consts:
                continue
            parents = {}
            for a in ast.walk(fn):
                for b in ast.iter_child_nodes(a):
                    parents[b] = a
            for k, c in enumerate(consts):
                key = '%s:%s selects %s%s' % (os.path.basename(rel), fn.name, c.value, '' if len(consts) == 1 else ' #%d' % (k + 1))
                r.inst(key, sample='%s:%d %s' % (rel, c.lineno, key))
                assigned = {}
                for a in ast.walk(fn):
                    if isinstance(a, ast.Assign) and len(a.targets) == 1 and isinstance(a.targets[0], ast.Name):
                        assigned.setdefault(a.targets[0].id, []).append(a.value)
                env = {k: v[0] for k, v in assigned.items() if len(v) == 1}       # locals with exactly one definition
                atoms = [a for t, pol in _py_conditions(c, parents) for a in _py_atoms(t, pol, env)]
                recvs = [_temp_test_receiver(e) for e, pol in atoms if pol]
                recvs = [x for x in recvs if x is not None]
                operands = _operand_names(c, parents, fn)
                if operands is None:
                    r.info('%s: operand of the helper call not identified; any temp test accepted' % key)
                    good = bool(recvs)
                else:
                    good = any(isinstance(x, ast.Name) and x.id in operands for x in recvs)
                if not good:
                    r.violate(key, rel, c.lineno,
                              '%s: %s is selected without a positive `<operand>.result_in_temp()` test (operand: %s): the helper hands out a uniquely referenced list as it '
                              'is, and a value held by one variable is uniquely referenced too - list(x) / [*x] / `*a, = x` would return the very object x'
                              % (fn.name, c.value, ', '.join(sorted(operands or ())) or '?'))
    pc = ast.parse("def f(node, arg):\n    return Call('KEEP' if node.result_in_temp() else 'COPY', args=[arg])\n"
                   "def g(node, arg):\n    return Call('KEEP' if arg.result_in_temp() else 'COPY', args=[arg])\n")
    got = []
    for fn in pc.body:
        parents = {b: a for a in ast.walk(fn) for b in ast.iter_child_nodes(a)}
        c = [n for n in ast.walk(fn) if isinstance(n, ast.Constant) and n.value == 'KEEP'][0]
        recvs = [_temp_test_receiver(e) for t, pol in _py_conditions(c, parents) for e, p2 in _py_atoms(t, pol) if p2]
        ops = _operand_names(c, parents, fn) or set()
        got.append(any(isinstance(x, ast.Name) and x.id in ops for x in recvs if x is not None))
    r.positive_control(got == [False, True], 'temp test on another node than the operand reported, temp test on the operand accepted')
    return r


# ====================================================================================================================== C13-CODEC
CODEC_HANDLER = re.compile(r'^_handle_simple_method_(\w+?)_(encode|decode)$')
_OTHER = 'x-no-special-codec'


def _codec_norm(x):
    return re.sub(r'[-_]', '', x).upper()


def _special_name(name):
    """the C-API infix for a row of _special_encodings (`unicode_escape` -> `UnicodeEscape`), as _find_special_codec_name builds it"""
    return ''.join(s.capitalize() for s in name.split('_')) if '_' in name else name


def _codec_tb():
    from . import pC01 as T

    class CodecTB(T.TB):
        def call_method(self, recv, name, args, kw, n, text):
            if isinstance(recv, str) and name == 'as_utf8_string' and not args:
                return recv.encode('utf-8')
            if isinstance(recv, bytes) and name == 'decode':
                return recv.decode('iso-8859-1')
            return T.TB.call_method(self, recv, name, args, kw, n, text)
    return T, CodecTB


def codec_runs(ix, mod, cls, hname, kind, enc, err, specials, limit=400):
    """run one encode/decode handler for one abstract argument combination -> [outcome]; enc: None | ('lit', text) | 'rt'; err likewise"""
    T, CodecTB = _codec_tb()

    def stub_find(tb, args, kw):
        e = args[-1]
        if not isinstance(e, str):
            raise T.TBGiveUp('_find_special_codec_name of a non-literal')
        for nm in specials:
            if _codec_norm(nm) == _codec_norm(e):
                return _special_name(nm)
        return None

    def arg_node(i, what):
        if what == 'rt':
            ty = T.SNode('a%d.type' % i, {'is_pybytes_type': True, 'is_string': False, 'is_pyobject': True})
            return T.SNode('a%d' % i, {'is_none': False, 'is_literal': False, 'type': ty}, cls='NameNode')
        return T.BNode('UnicodeNode', {'value': what[1], 'is_literal': True})

    def make_args():
        facts = {'is_none': False, 'is_literal': False, 'is_sequence_constructor': False, 'is_name': True}
        if kind == 'decode':
            facts['type'] = T.SNode('a0.type', {'is_pybytes_type': True, 'is_pybytearray_type': False, 'is_string': False, 'is_cpp_string': False, 'name': 'bytes',
                                               'is_int': False})
        args = [T.SNode('a0', facts, cls='NameNode')]
        if enc is not None:
            args.append(arg_node(1, enc))
            if err is not None:
                args.append(arg_node(2, err))
        node = T.SNode('call', {'is_temp': True, 'result_is_used': True}, cls='SimpleCallNode')
        return [T.self_node(), node, T.SNode('function', cls='AttributeNode'), args, False], {}

    fn = cls.methods[hname]
    out, todo, n = [], [dict()], 0
    while todo:
        d = todo.pop()
        n += 1
        if n > limit:
            raise T.TBGiveUp('%s: more than %d paths' % (hname, limit))
        tb = CodecTB(ix, mod, d, cls, {'_find_special_codec_name': stub_find})
        args, kw = make_args()
        try:
            out.append(tb.invoke(T.Closure(fn, T.Env(), cls), args, kw))
        except T._Fork as f:
            for b in (True, False):
                d2 = dict(d)
                d2[f.key] = b
                todo.append(d2)
        except T._Raise:
            pass
    return out


def _arg_value(T, v):
    """abstract value of an argument node of the built call: 'default' (NULL) | ('lit', text) | ('rt', label) | ('cname', name) | None"""
    if isinstance(v, T.BNode):
        if v.cls == 'NullNode':
            return 'default'
        if v.cls in ('BytesNode', 'UnicodeNode'):
            x = v.fields.get('value')
            if isinstance(x, bytes):
                return ('lit', x.decode('iso-8859-1'))
            if isinstance(x, str):
                return ('lit', x)
        if v.cls == 'RawCNameExprNode' and isinstance(v.fields.get('cname'), str):
            return ('cname', v.fields['cname'])
        return None
    if isinstance(v, T.SNode):
        return ('rt', v.label.rstrip("'"))
    return None


def effective_codec_call(T, call):
    """(encoding, errors) realised by a built C call, by the C-API reference -> (enc, err) | str (why it is not modelled)"""
    cname = call.args[1] if len(call.args) > 1 and isinstance(call.args[1], str) else None
    cargs = call.fields.get('args')
    if cname is None or not isinstance(cargs, list):
        return 'call without constant C name / argument list'
    vals = [_arg_value(T, a) for a in cargs]
    if cname == 'PyUnicode_AsEncodedString' and len(vals) == 3:          # (unicode, encoding, errors): NULL encoding = UTF-8, NULL errors = strict
        return vals[1], vals[2]
    m = re.fullmatch(r'PyUnicode_As(\w+)String', cname)
    if m and len(vals) == 1:                                             # (unicode): "Error handling is 'strict'"
        return ('codec', m.group(1)), 'default'
    if re.fullmatch(r'__Pyx_decode_\w+', cname) and len(vals) == 6:      # (string, start, stop, encoding, errors, decode_func): decode_func(s, n, errors) if given
        enc, err, func = vals[3], vals[4], vals[5]
        if func != 'default':
            m = re.fullmatch(r'(?:__Pyx_)?PyUnicode_Decode(\w+)', func[1]) if isinstance(func, tuple) and func[0] == 'cname' else None
            if not m:
                return 'decode function %r is not a PyUnicode_Decode<Codec> name' % (func,)
            enc = ('codec', m.group(1))
        return enc, err
    return 'C function %s with %d arguments is not in the reference table' % (cname, len(vals))


def codec_problem(enc, err, eff):
    """requested (enc, err) vs realised pair -> problem text | None"""
    e_enc, e_err = eff
    if enc is None:
        ok = e_enc == 'default' or (isinstance(e_enc, tuple) and e_enc[0] in ('codec', 'lit') and _codec_norm(e_enc[1]) == 'UTF8')
        want = 'the default encoding (NULL / UTF-8)'
    elif enc == 'rt':
        ok = e_enc == ('rt', 'a1')
        want = 'the run-time encoding argument'
    else:
        ok = isinstance(e_enc, tuple) and e_enc[0] in ('codec', 'lit') and _codec_norm(e_enc[1]) == _codec_norm(enc[1])
        want = 'encoding %r' % enc[1]
    if not ok:
        return 'the call is built for %s but realises encoding %r' % (want, e_enc)
    if err is None or err == ('lit', 'strict'):
        ok = e_err == 'default' or e_err == ('lit', 'strict')
        want = "error handler 'strict'" + (' (omitted)' if err is None else '')
    elif err == 'rt':
        ok = e_err == ('rt', 'a2')
        want = 'the run-time errors argument'
    else:
        ok = e_err == err
        want = 'error handler %r' % err[1]
    if not ok:
        return ('the call is built for %s but realises %s: the requested error handler is dropped (a string the codec cannot represent raises instead of being '
                'replaced / ignored)' % (want, "'strict' (the C function takes no errors argument or NULL is passed)" if e_err == 'default' else repr(e_err)))
    return None


def rule_codec(ctx, floor=70):
    from . import pC01 as T
    r = Rule('C13-CODEC', 'str.encode / bytes.decode handlers run on {absent, special-codec literal, other literal, run-time} x {absent, strict, other literal, run-time}: '
             'the C call built realises the requested encoding and error handler (C-API reference: PyUnicode_As<Codec>String is strict, NULL errors is strict)', floor)
    ix = ctx.index
    mod = ix.mod('Optimize')
    cls = ix.cls('Optimize', 'OptimizeBuiltinCalls')
    found = ix.find_class_attr(cls, '_special_encodings')
    try:
        specials = ast.literal_eval(found[1]) if found else None
    except ValueError:
        specials = None
    if not specials or not all(isinstance(s, str) for s in specials):
        raise AnalysisError('C13-CODEC: OptimizeBuiltinCalls._special_encodings is not a literal list of names')
    handlers = [(h, CODEC_HANDLER.match(h).group(2)) for h in sorted(cls.methods) if CODEC_HANDLER.match(h)]
    if len(handlers) < 2:
        raise AnalysisError('C13-CODEC: encode / decode handlers of OptimizeBuiltinCalls not found')
    encs = [None, 'rt', ('lit', _OTHER)] + [('lit', s) for s in specials]
    # every literal the handlers compare a string with is its own class of the partition (an `== 'ignore'` test would split "other literal")
    compared, todo, seen = set(), [h for h, _k in handlers], set()
    while todo:
        h = todo.pop()
        if h in seen or h not in cls.methods:
            continue
        seen.add(h)
        for n in ast.walk(cls.methods[h]):
            if isinstance(n, ast.Compare):
                for c in [n.left] + list(n.comparators):
                    for k in ast.walk(c):
                        if isinstance(k, ast.Constant) and isinstance(k.value, str) and re.fullmatch(r'[a-z_]{3,20}', k.value):
                            compared.add(k.value)
            if isinstance(n, ast.Call) and isinstance(n.func, ast.Attribute) and isinstance(n.func.value, ast.Name) and n.func.value.id == 'self' and len(seen) < 12:
                todo.append(n.func.attr)
    errs = [None, 'rt'] + [('lit', e) for e in sorted(compared | {'strict', 'replace'})]
    built = 0
    for hname, kind in handlers:
        for enc in encs:
            for err in errs:
                if enc is None and err is not None:
                    continue                    # positional call: errors cannot be given without encoding
                label = lambda x: 'absent' if x is None else ('run-time' if x == 'rt' else repr(x[1]))
                key = 'OptimizeBuiltinCalls.%s(encoding=%s, errors=%s)' % (hname, label(enc), label(err))
                try:
                    outs = codec_runs(ix, mod, cls, hname, kind, enc, err, specials)
                except T.TBGiveUp as e:
                    raise AnalysisError('C13-CODEC: %s leaves the modelled subset of the tree-builder interpreter: %s' % (key, e))
                r.inst(key, sample=key)
                for v in outs:
                    while isinstance(v, T.BNode) and v.cls == 'EvalWithTempExprNode' and v.args:
                        v = v.args[-1]
                    if not (isinstance(v, T.BNode) and v.cls == 'PythonCapiCallNode'):
                        continue               # unchanged call or a folded constant
                    built += 1
                    if isinstance(v.args[1] if len(v.args) > 1 else None, str) and not re.fullmatch(r'[A-Za-z_]\w*', v.args[1]):
                        r.violate(key, 'Cython/Compiler/Optimize.py', cls.methods[hname].lineno, '%s builds a call of %r, which is not a C identifier: the generated '
                                  'module does not compile' % (key, v.args[1]))
                        break
                    eff = effective_codec_call(T, v)
                    if isinstance(eff, str):
                        raise AnalysisError('C13-CODEC: %s: %s' % (key, eff))
                    problem = codec_problem(enc, err, eff)
                    if problem:
                        r.violate(key, 'Cython/Compiler/Optimize.py', cls.methods[hname].lineno, '%s builds %s(...): %s' % (key, v.args[1], problem))
                        break
    if built < 40:
        raise AnalysisError('C13-CODEC: only %d C calls were built by the handlers' % built)
    r.positive_control(codec_problem(('lit', 'ascii'), ('lit', 'replace'), (('codec', 'ASCII'), 'default')) is not None
                       and codec_problem(('lit', 'ascii'), ('lit', 'strict'), (('codec', 'ASCII'), 'default')) is None
                       and codec_problem(('lit', 'latin1'), None, (('codec', 'UTF8'), 'default')) is not None
                       and codec_problem('rt', 'rt', (('rt', 'a1'), 'default')) is not None, 'dropped error handler / wrong codec reported, strict shortcut accepted')
    return r
