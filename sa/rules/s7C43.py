"""C43 (round 7) — C43-ITEMSEQ: item lists of the parser accept every order of items CPython accepts.

Mechanism (seed C43j).  The parser functions for comma separated item lists with `*` / `**` items (call and class-header
arguments: p_call_parse_args; set / dict displays: p_dict_or_set_maker) keep a few local flags and lists ("a ** item was
seen", "keyword arguments so far", "the display is a dict") and reject an item when a flag says that it may not follow what
came before.  The property needs the rejected orders to be exactly the ones Python rejects: a flag that is set by too many
item kinds, or tested for the wrong kind, turns a valid program into a syntax error (or, with a missing guard, an
IndexError / AttributeError inside the parser = compiler crash).

Decision.  The function is an acceptor of sequences of *item kinds*: it reads the token stream only through comparisons
of `s.sy` with constants and through the expression sub-parsers, which consume one expression whatever came before.  The
checker's own interpreter (rules/pC10.Folder: an AST evaluator, nothing of the repository is imported or executed)
evaluates the function's code over a model scanner whose tokens are those kinds (an expression is ONE token; the shared
expression parsers p_test, p_namedexpr_test, p_bit_expr ... are modelled as "consume one expression token", node
constructors as records whose class attributes are read from the class graph).  The automaton of the function is explored
completely: the state after a prefix is the abstraction alpha of ALL locals of the function (booleans / numbers as they
are, lists as (min(len, 2), alpha(first), alpha(last)), nodes as their class), paired with the set of item kinds seen;
from one representative prefix per state every item kind is appended, with and without a trailing comma, until no new
state appears.  For every transition the verdict is compared with the running interpreter's own compile() of the same
shape (`f(<items>)`, `class C(<items>): pass`, `{<items>}`): CPython accepts => the function must accept, and must not
raise anything but the scanner's error.  A second representative of a state (when one exists) must give the same row,
otherwise alpha is not a congruence for this code and the rule refuses (ANALYSIS-ERROR) instead of guessing.

Not decided: what the sub-parsers accept as an expression; orders CPython rejects and Cython accepts (reported as info:
the property as stated demands acceptance of valid texts and absence of crashes only); parameter lists of def / lambda
(p_c_arg_list parses C declarators - outside this model).
"""
import ast

from ..core import Rule, AnalysisError
from .pC10 import Folder, Unfoldable, Opaque, PlexModel, PlexCallable, Closure, Env

PARSING = 'Cython/Compiler/Parsing.py'
EXPR_BASE = 'p_atom'            # anchor: the parser of atoms; every function that reaches it parses (part of) an expression
COMP_FOR = 'p_comp_for'         # anchor: the parser of a comprehension clause


class ParseError(Exception):
    """the model scanner's s.error()"""


class ModelNode(PlexModel):
    def __init__(self, cls, ix, kw):
        self.__dict__['_cls'] = cls
        self.__dict__['_ix'] = ix
        self.__dict__.update(kw)

    def __getattr__(self, name):
        if name.startswith('__'):
            raise AttributeError(name)
        ix, cls = self._ix, self._cls
        if cls is not None:
            a = ix.find_class_attr(cls, name)
            if a is not None:
                try:
                    return ast.literal_eval(a[1])
                except Exception:
                    raise Unfoldable('class attribute %s.%s is not a literal' % (cls.name, name))
            if ix.find_method(cls, name) is not None:
                raise Unfoldable('method %s.%s() of a model node is called' % (cls.name, name))
            if hasattr(list, name):
                # no node class defines the list protocol: the compiler itself would die here
                raise AttributeError('%r object has no attribute %r' % (cls.name, name))
        raise Unfoldable('attribute .%s of a model node %s' % (name, cls.name if cls is not None else '?'))

    def __repr__(self):
        return '<%s>' % (self._cls.name if self._cls is not None else 'node')


class NodeModule(PlexModel):
    """ExprNodes / Nodes / Builtin as seen by the parser: constructors of records, anything else opaque."""
    def __init__(self, ix, mod):
        self.__dict__['_ix'], self.__dict__['_mod'] = ix, mod

    def __getattr__(self, name):
        if name.startswith('__'):
            raise AttributeError(name)
        ix, mod = self._ix, self._mod
        try:
            cls = ix.cls(mod, name)
        except Exception:
            cls = None
        if cls is None:
            return Opaque('%s.%s' % (mod, name), [])

        class _Ctor(PlexCallable):
            def __call__(self_, *a, **kw):
                init = ix.find_method(cls, '__init__')
                names = [p.arg for p in init[1].args.args[1:]] if init is not None else ['pos']
                if len(a) > len(names):
                    raise Unfoldable('%s(...) with %d positional arguments' % (cls.name, len(a)))
                for p, v in zip(names, a):
                    kw.setdefault(p, v)
                return ModelNode(cls, ix, kw)
        return _Ctor()


class Scanner(PlexModel):
    """model of PyrexScanner for one item list: tokens are item-level kinds"""
    def __init__(self, toks):
        self.toks, self.i = list(toks) + ['EOF'], 0
        self.context = Opaque('s.context', [])
        self.systring = ''
        self.in_python_file = True
        self.source_encoding = 'utf-8'

    @property
    def sy(self):
        t = self.toks[self.i]
        return 'IDENT' if t in ('E',) else ('INT' if t == 'X' else t)

    def next(self):
        if self.i < len(self.toks) - 1:
            self.i += 1

    def position(self):
        return ('<model>', 1, 0)

    def error(self, message, pos=None, fatal=True):
        raise ParseError(message)

    def expect(self, what, message=None):
        if self.sy == what:
            self.next()
        else:
            raise ParseError(message or 'Expected %r, found %r' % (what, self.sy))

    def expected(self, what, message=None):
        raise ParseError(message or 'Expected %r, found %r' % (what, self.sy))

    def expect_keyword(self, what, message=None):
        self.expect(what, message)

    def peek(self):
        return (self.toks[min(self.i + 1, len(self.toks) - 1)], '')


def _module_functions(ctx):
    return {n.name: n for n in ctx.parse(PARSING).body if isinstance(n, (ast.FunctionDef, ast.AsyncFunctionDef))}


def _callgraph(ctx):
    def build():
        fns = _module_functions(ctx)
        calls = {}
        for name, fn in fns.items():
            # references, not only calls: p_term passes p_factor to p_binop_expr
            calls[name] = {n.id for n in ast.walk(fn) if isinstance(n, ast.Name) and isinstance(n.ctx, ast.Load) and n.id in fns and n.id != name}
        return fns, calls
    return ctx.memo('s7C43.callgraph', build)


def expression_parsers(ctx, target):
    """module-level functions of Parsing.py that reach p_atom and are shared (called from functions outside the target and its private helpers)."""
    fns, calls = _callgraph(ctx)
    if EXPR_BASE not in fns or COMP_FOR not in fns:
        raise AnalysisError('C43-ITEMSEQ: Parsing.%s / %s vanished' % (EXPR_BASE, COMP_FOR))
    reach = {EXPR_BASE}
    changed = True
    while changed:
        changed = False
        for f, cs in calls.items():
            if f not in reach and cs & reach:
                reach.add(f)
                changed = True
    callers = {}
    for f, cs in calls.items():
        for c in cs:
            callers.setdefault(c, set()).add(f)
    # private helpers of the target: called (transitively) from the target only
    private = {target}
    changed = True
    while changed:
        changed = False
        for f in fns:
            if f not in private and callers.get(f) and callers[f] <= private:
                private.add(f)
                changed = True
    out = set()
    for f in reach:
        if f in private:
            continue
        if f != COMP_FOR:
            star_aware = any(isinstance(n, ast.Compare) and isinstance(n.left, ast.Attribute) and n.left.attr == 'sy'
                             and any(isinstance(c, ast.Constant) and c.value in ('*', '**') for c in ast.walk(n)) for n in ast.walk(fns[f]))
            if star_aware or COMP_FOR in calls[f]:
                continue        # part of the item-level grammar (p_starred_expr, p_genexp): folded, not modelled
        out.add(f)
    return out


class ParserFolder(Folder):
    def __init__(self, ctx, target):
        Folder.__init__(self, ctx)
        self.target = target
        self.target_env = None
        ix = ctx.index
        self.models = {'ExprNodes': NodeModule(ix, 'ExprNodes'), 'Nodes': NodeModule(ix, 'Nodes'), 'Builtin': Opaque('Builtin', []),
                       'Future': Opaque('Future', []), 'Options': Opaque('Options', [])}
        folder = self

        class _Expr(PlexCallable):
            def __init__(self_, name):
                self_.__name__ = name

            def __call__(self_, s, *a, **kw):
                if not isinstance(s, Scanner):
                    raise Unfoldable('%s called without the scanner' % self_.__name__)
                t = s.toks[s.i]
                if t not in ('E', 'X'):
                    raise ParseError('Expected an expression, found %r' % t)
                s.next()
                cls = ix.cls('ExprNodes', 'NameNode' if t == 'E' else 'IntNode')
                return ModelNode(cls, ix, {'pos': s.position(), 'name': 'n', 'value': '1'})

        class _CompFor(PlexCallable):
            __name__ = COMP_FOR

            def __call__(self_, s, *a, **kw):
                if s.toks[s.i] != 'for':
                    raise ParseError('Expected for, found %r' % s.toks[s.i])
                s.next()
                return ModelNode(ix.cls('Nodes', 'ForInStatNode'), ix, {'pos': s.position()})
        for name in expression_parsers(ctx, target.name):
            self.models[name] = _CompFor() if name == COMP_FOR else _Expr(name)
        self.modelled = sorted(n for n in self.models if n.startswith('p_'))

    def module_attr(self, rel, name):
        if rel == PARSING and name in self.models:
            return self.models[name]
        return Folder.module_attr(self, rel, name)

    def block(self, stmts, env):
        if stmts is self.target.body:
            self.target_env = env
        return Folder.block(self, stmts, env)


def alpha(v, depth=0):
    if isinstance(v, (bool, int, str, type(None), float)):
        return v
    if isinstance(v, (list, tuple)):
        if depth >= 3:
            return ('seq', min(len(v), 2))
        return ('seq', min(len(v), 2), alpha(v[0], depth + 1) if v else None, alpha(v[-1], depth + 1) if v else None)
    if isinstance(v, ModelNode):
        return repr(v)
    if isinstance(v, (set, frozenset, dict)):
        return ('coll', min(len(v), 2))
    return type(v).__name__


class Site:
    """one item-list parser + the shapes of its items"""
    def __init__(self, function, label, kwargs, open_tok, close_tok, template, kinds, extendable):
        self.function, self.label, self.kwargs = function, label, kwargs
        self.open, self.close, self.template = open_tok, close_tok, template
        self.kinds = kinds                  # kind -> (tokens, text with %d for a fresh name)
        self.extendable = extendable        # kinds after which further items may follow in SOME valid text


CALL_KINDS = {
    'pos':      (['E'], 'a%d'),
    'star':     (['*', 'E'], '*s%d'),
    'dstar':    (['**', 'E'], '**d%d'),
    'kw':       (['E', '=', 'E'], 'k%d=1'),
    'expr=':    (['X', '=', 'E'], '(k%d)=1'),
    'genexp':   (['E', 'for'], 'g%d for g%d in z'),
}
DISPLAY_KINDS = {
    'item':     (['E'], 'a%d'),
    'key:val':  (['E', ':', 'E'], 'a%d: 1'),
    'star':     (['*', 'E'], '*s%d'),
    'dstar':    (['**', 'E'], '**d%d'),
    'item-for': (['E', 'for'], 'g%d for g%d in z'),
    'kv-for':   (['E', ':', 'E', 'for'], 'g%d: 1 for g%d in z'),
}


_REF = {}


def reference_accepts(site, kinds, trailing):
    texts = []
    for i, k in enumerate(kinds):
        t = site.kinds[k][1]
        texts.append(t % ((i,) * t.count('%d')))
    src = site.template % (', '.join(texts) + (',' if trailing else ''))
    if src not in _REF:
        try:
            # the order rules of items are rules of the grammar (pegen invalid_arguments, invalid_kwarg, invalid_double_starred_kvpairs): the parser decides
            compile(src, '<reference>', 'exec', flags=ast.PyCF_ONLY_AST, dont_inherit=True)
            _REF[src] = True
        except SyntaxError:
            _REF[src] = False
    return _REF[src], src


def tokens_of(site, kinds, trailing):
    toks = [site.open]
    for i, k in enumerate(kinds):
        if i:
            toks.append(',')
        toks += site.kinds[k][0]
    if trailing:
        toks.append(',')
    toks.append(site.close)
    return toks


def run_model(folder, fn, site, kinds, trailing):
    """-> (verdict, detail, state): verdict 'accept' | 'reject' | 'crash' | 'short'"""
    s = Scanner(tokens_of(site, kinds, trailing))
    folder.steps = 0
    folder.target_env = None
    verdict, detail = 'accept', ''
    try:
        fn(s, **site.kwargs)
        if s.toks[s.i] != 'EOF':
            verdict, detail = 'short', 'returns in front of %r' % s.toks[s.i]
    except ParseError as x:
        verdict, detail = 'reject', str(x)
    except AnalysisError:
        raise
    except (IndexError, AttributeError, TypeError, KeyError, ValueError, AssertionError, NameError) as x:
        verdict, detail = 'crash', '%s: %s' % (type(x).__name__, x)
    env = folder.target_env
    if env is None:
        raise AnalysisError('C43-ITEMSEQ: the body of %s was not entered' % site.function)
    state = tuple(sorted((k, alpha(v)) for k, v in env.vars.items() if not isinstance(v, (Scanner, Opaque, Closure)) and repr(alpha(v)) is not None)) \
        if verdict == 'accept' else verdict
    return verdict, detail, state


def explore(folder, fn, site, on_row, max_states=400, congruence=True):
    """complete exploration of (alpha state x kinds seen); on_row(prefix kinds, kind, trailing, verdict, detail, ref, src)"""
    n = 0

    def row(prefix, report):
        """verdicts of `prefix ,` and of prefix + each kind -> [(kind, verdict, state, ref)]"""
        out = []
        if prefix:
            verdict, detail, state = run_model(folder, fn, site, list(prefix), True)
            ref, src = reference_accepts(site, list(prefix), True)
            if report:
                on_row(prefix[:-1], prefix[-1], True, verdict, detail, ref, src)
            out.append((',', verdict, state, ref))
        for kind in site.kinds:
            seq = list(prefix) + [kind]
            verdict, detail, state = run_model(folder, fn, site, seq, False)
            ref, src = reference_accepts(site, seq, False)
            if report:
                on_row(prefix, kind, False, verdict, detail, ref, src)
            out.append((kind, verdict, state, ref))
        return out

    v0, d0, st0 = run_model(folder, fn, site, [], False)
    seen = {(st0, frozenset()): [()]}
    rows = {}
    work = [((st0, frozenset()), ())]
    while work:
        key, prefix = work.pop(0)
        rows[key] = row(prefix, True)
        n += len(rows[key])
        for kind, verdict, state, ref in rows[key]:
            # the prefix is extended only where both sides go on
            if kind == ',' or verdict != 'accept' or not ref or kind not in site.extendable:
                continue
            seq = tuple(prefix) + (kind,)
            k2 = (state, frozenset(seq))
            if k2 not in seen:
                if len(seen) >= max_states:
                    raise AnalysisError('C43-ITEMSEQ: the state space of %s does not close (%d abstract states): its locals are outside the abstraction' % (site.function, len(seen)))
                seen[k2] = [seq]
                work.append((k2, seq))
            elif len(seen[k2]) < 2 and seq not in seen[k2]:
                seen[k2].append(seq)
    # congruence: a second representative of a state must behave like the first
    if congruence:
        for k2, reps in seen.items():
            if len(reps) < 2:
                continue
            other = row(reps[1], False)
            n += len(other)
            strip = lambda rw: [(k, v, st if v == 'accept' else None) for k, v, st, ref in rw]
            if strip(rows[k2]) != strip(other):
                raise AnalysisError('C43-ITEMSEQ: the prefixes %s and %s of %s reach the same abstract state but continue differently: the abstraction of its locals is not exact' % (
                    '/'.join(reps[0]) or '-', '/'.join(reps[1]) or '-', site.function))
    return n, len(seen)


def _sites(ctx):
    fns = _module_functions(ctx)
    out = []
    f = 'p_call_parse_args'
    if f not in fns:
        raise AnalysisError('C43-ITEMSEQ: Parsing.%s vanished' % f)
    # the configurations in which the function is called: constant keyword / positional arguments after the scanner
    params = [a.arg for a in fns[f].args.args]
    configs = {}
    for caller in fns.values():
        for n in ast.walk(caller):
            if isinstance(n, ast.Call) and isinstance(n.func, ast.Name) and n.func.id == f:
                kw = {}
                try:
                    for i, a in enumerate(n.args[1:], 1):
                        kw[params[i]] = ast.literal_eval(a)
                    for k in n.keywords:
                        kw[k.arg] = ast.literal_eval(k.value)
                except Exception:
                    raise AnalysisError('C43-ITEMSEQ: %s calls %s with a non-constant configuration' % (caller.name, f))
                is_class = any(isinstance(c, ast.Constant) and c.value == 'class' for c in ast.walk(caller)) or 'class' in caller.name
                configs.setdefault((tuple(sorted(kw.items())), is_class), caller.name)
    if not configs:
        raise AnalysisError('C43-ITEMSEQ: no caller of %s' % f)
    for (kw, is_class), caller in sorted(configs.items()):
        out.append(Site(f, '%s(%s)<-%s' % (f, ', '.join('%s=%r' % kv for kv in kw), 'class header' if is_class else 'call'), dict(kw), '(', ')',
                        'class C(%s): pass' if is_class else 'f(%s)', CALL_KINDS, ('pos', 'star', 'dstar', 'kw')))
    f = 'p_dict_or_set_maker'
    if f not in fns:
        raise AnalysisError('C43-ITEMSEQ: Parsing.%s vanished' % f)
    out.append(Site(f, f, {}, '{', '}', 'x = {%s}', DISPLAY_KINDS, ('item', 'key:val', 'star', 'dstar')))
    return out, fns


_PC_SOURCE = '''
def p_call_parse_args(s, allow_genexp=True):
    s.next()
    positional_args = []
    keyword_args = []
    while s.sy != ')':
        if s.sy == '*':
            if keyword_args:
                s.error("Non-keyword arg following keyword arg")
            s.next()
            positional_args.append(p_test(s))
        elif s.sy == '**':
            s.next()
            keyword_args.append(p_test(s))
        else:
            arg = p_test(s)
            if s.sy == '=':
                s.next()
                keyword_args.append((arg, p_test(s)))
            else:
                if keyword_args:
                    s.error("Non-keyword arg following keyword arg")
                positional_args.append([arg])
        if s.sy != ',':
            break
        s.next()
    s.expect(')')
    return positional_args, keyword_args
'''


def rule_ITEMSEQ(ctx):
    r = Rule('C43-ITEMSEQ', 'item lists with * / ** items (call and class-header arguments, set / dict displays): the acceptor automaton of the parser function, explored completely over '
             '(abstract state of its locals x item kinds seen) by the checker\'s evaluator on a model scanner, accepts every order of item kinds the running interpreter compiles, '
             'and leaves only through the scanner\'s error', floor=900)
    sites, fns = _sites(ctx)
    total = 0
    reported_by_function = {}
    congruent = set()       # the congruence of alpha is a property of the function's code: established once per function
    for site in sites:
        folder = ParserFolder(ctx, fns[site.function])
        fn = Closure(folder, fns[site.function], Env({}, None, PARSING))
        reported = reported_by_function.setdefault(site.function, set())
        extra = []

        def on_row(prefix, kind, trailing, verdict, detail, ref, src, site=site, reported=reported, extra=extra):
            what = '%s | %s%s' % ('/'.join(prefix) or '-', kind, ' ,' if trailing else '')
            r.inst('%s:%s' % (site.label, what), sample='%s: %s -> %s (CPython %s)' % (site.label, src, verdict, 'accepts' if ref else 'rejects'), nontrivial=ref)
            if verdict == 'crash':
                key = '%s:%s-after-%s:crash' % (site.function, kind, '+'.join(sorted(set(prefix))) or 'nothing')
                if key not in reported:
                    reported.add(key)
                    r.violate(key, PARSING, fns[site.function].lineno, '%s: on the item sequence `%s` the parser function raises %s instead of reporting a positioned error or accepting: '
                              'internal compiler crash' % (site.label, src, detail))
            elif ref and verdict != 'accept':
                key = '%s:%s-after-%s:rejected' % (site.function, kind, '+'.join(sorted(set(prefix))) or 'nothing')
                short = '%s:%s:rejected' % (site.function, kind)
                if short not in reported:
                    reported.add(short)
                    r.violate(key, PARSING, fns[site.function].lineno, '%s: CPython compiles `%s`, the parser function %s: a valid program is refused' % (
                        site.label, src, ('rejects it with "%s"' % detail) if verdict == 'reject' else detail))
            elif not ref and verdict == 'accept':
                extra.append(src)
        try:
            n, nstates = explore(folder, fn, site, on_row, congruence=site.function not in congruent)
            congruent.add(site.function)
        except Unfoldable as x:
            raise AnalysisError('C43-ITEMSEQ: %s is outside the evaluator: %s' % (site.label, x))
        total += n
        r.info('%s: %d abstract states, %d evaluations; expression parsers modelled: %d; accepted though CPython rejects: %s' % (
            site.label, nstates, n, len(folder.modelled), ', '.join(extra[:4]) or 'none'))
    # positive control: the flag of seed C43j
    pc_fn = ast.parse(_PC_SOURCE).body[0]
    folder = ParserFolder(ctx, pc_fn)
    hits = []
    site = Site('p_call_parse_args', 'control', {}, '(', ')', 'f(%s)', CALL_KINDS, ('pos', 'star', 'dstar', 'kw'))
    explore(folder, Closure(folder, pc_fn, Env({}, None, PARSING)), site,
            lambda prefix, kind, trailing, verdict, detail, ref, src: hits.append((prefix, kind)) if ref and verdict == 'reject' else None)
    r.positive_control(any(k == 'star' and 'kw' in p for p, k in hits) and not any(k == 'star' and 'kw' not in p for p, k in hits),
                       'an argument parser that refuses *iterable after any keyword argument is reported for f(k=1, *s), and only there')
    return r
