"""dD5 - three structural clauses of "every operand is evaluated exactly once, in order" (C20) that came out of three repaired deviations.

C20-REPASTE  code generators of expression node classes (generate_result_code / generate_assignment_code / generate_deletion_code and the own
             helpers they call): an operand whose C result text (`self.X.result()` / `.result_as(..)`) is pasted more than once into the C code of one
             path (sizeof(..) operands are not evaluated, exclusive C if/else branches count once) is evaluated once per paste unless the result is
             simple (ExprNode.is_simple(): name, constant, temporary).  Only the class's analysis method / constructor can see to that
             (`self.X = self.X.coerce_to_simple(env)` / coerce_to_temp, or a test of is_name / is_simple() / is_literal on the operand).  Both sides are
             decision tables extracted by partial evaluation (sC14.Emu): for every valuation of the flags both phases consult (self attributes,
             directives, flags of the operand types - pruned with the flag table of the PyrexTypes classes) under which a multi-paste path exists, the
             operand must have been made simple whatever the analysis method's other tests answer.
             Deviation: SliceIndexNode pasted `start` twice for C pointers (`f(base + start, stop - start)`, `memcpy(&base[start], .., stop - start)`),
             `s[cs():ce()]` called cs() twice.

C20-ERRCONV  typed C helper calls built by the tree transforms (PythonCapiCallNode / _substitute_method_call with a CFuncType): when the C function
             reports a failure through its int result (-1 with an exception set) the function type must declare an exception value, otherwise the
             generated code goes on with the exception pending (SystemError at the next return to the interpreter, or the error value used as a truth
             value).  "Reports a failure" is taken from (a) the other declarations of the same C name in the compiler (typed call sites, the
             BuiltinFunction / BuiltinMethod rows of Builtin.py through TypeSlots.Signature.error_value_map), (b) the C-API reference list below
             (functions documented to return -1 on failure), (c) the C body of the utility-code helper: it returns the result of such a function, or
             a negative literal right after setting an exception.  The (C name, function type) pairs of a site are found by following the local
             variables of the handler along every path (def-use, if/else <-> early return insensitive).
             Deviation: isinstance(x, (f(),)) -> PyObject_IsInstance with a type that has no exception value.

C20-REUSE    the temp-wrapping rewrites of Optimize.py (functions that create LetRefNode / ResultRefNode): an operand sub-tree of the original node
             that the returned tree evaluates at more than one position must be established re-evaluable (is_literal / is_name) on that path;
             `is_simple()` does not establish that - it also holds for nodes whose result lives in a temporary, and putting such a node into the tree
             twice runs its evaluation code twice.  Decided on the provenance model of pC20 (abstract interpretation of the rewriting function),
             with is_simple()/try_is_simple() answers kept as path facts instead of "side-effect free".
             Deviation: (<list>(v('h').olst)).extend([a, b]) evaluated v('h').olst once per item.
"""
import ast, re, collections, itertools

from ..core import Rule, AnalysisError, node_src
from ..engine.pyindex import walk_no_nested
from ..engine.cutil import strip_c_comments
from . import sC14 as E
from . import sC20 as P
from . import pC20 as L
from . import typed
from .iface import const_strs, local_env

EXPRNODES = 'Cython/Compiler/ExprNodes.py'

# ================================================================================================================ C20-REPASTE
ENTRIES = ('generate_result_code', 'generate_assignment_code', 'generate_deletion_code')
OTHER_EMITTERS = ('generate_evaluation_code', 'calculate_result_code', 'generate_disposal_code', 'generate_post_assignment_code',
                  'generate_subexpr_evaluation_code', 'generate_subexpr_disposal_code', 'free_temps', 'free_subexpr_temps')
SIMPLE_COERCIONS = ('coerce_to_simple', 'coerce_to_temp')
SIMPLE_TESTS = ('.is_name', '.is_literal', '.is_simple()', '.result_in_temp()', '.is_temp', '.try_is_simple()')
# node -> node protocol methods: the result is a node (truthy) ...
NODE_METHODS = ('analyse_types', 'analyse_expressions', 'analyse_target_types', 'coerce_to', 'coerce_to_simple', 'coerce_to_temp', 'coerce_to_pyobject',
                'coerce_to_boolean', 'coerce_to_index', 'as_none_safe_node', 'analyse_result_type', 'analyse_as_type_attribute')
# ... and these keep the C type of the node they are applied to
TYPE_PRESERVING = ('analyse_types', 'analyse_expressions', 'coerce_to_simple', 'coerce_to_temp', 'as_none_safe_node')
_CALL = r'\((?:[^()]|\((?:[^()]|\([^()]*\))*\))*\)'
_TP_CHAIN = r'(?:\.(?:%s)%s)*' % ('|'.join(TYPE_PRESERVING), _CALL)
_STEM = re.compile(r'^(self\.(\w+)%s)\.type\b(.*)$' % _TP_CHAIN)
_NODE_TAIL = re.compile(r'\.(?:%s)%s$' % ('|'.join(NODE_METHODS), _CALL))


class _Emu(E.Emu):
    """Emu that knows the node protocol: analyse_types / coerce_to* / as_none_safe_node return a node, and a node is true."""

    def truth(self, v, st):
        if isinstance(v, E.U) and _NODE_TAIL.search(v.path):
            return True
        return E.Emu.truth(self, v, st)

    def branch(self, e, st):
        # identity of a freshly constructed object with anything else is false
        if isinstance(e, ast.Compare) and len(e.ops) == 1 and isinstance(e.ops[0], (ast.Is, ast.IsNot)):
            a, b = self.ev(e.left, st), self.ev(e.comparators[0], st)
            if self._fresh(a) != self._fresh(b) and a is not None and b is not None:
                return [(st, isinstance(e.ops[0], ast.IsNot))]
        return E.Emu.branch(self, e, st)

    def _fresh(self, v):
        """is v an object constructed on this path (an instantiation of a class the index knows)?"""
        if isinstance(v, E.New):
            return True
        if isinstance(v, E.U):
            m = re.match(r'^((?:[A-Za-z_]\w*\.)*)([A-Za-z_]\w*)%s$' % _CALL, v.path)
            if m and m.group(2) in getattr(self.ix, 'classes_by_name', {}):
                return True
        return False

    def kill(self, st, path):
        # facts about values DERIVED from the attribute's entry value (`self.base.analyse_types(env).type.is_ptr`) stay true when the attribute is rebound:
        # their text names the value, not the attribute (later reads of the attribute yield the text of what was stored)
        keep = []
        cur = st.attrs.get(path)
        if not (isinstance(cur, E.U) and cur.path == path):       # (a placeholder `U(path)` would make such texts ambiguous: nothing is kept then)
            for d in (st.assume, st.eqs):
                for k in d:
                    if k.startswith(path + '.') and '(' in k[len(path):]:
                        keep.append((d, k, d[k]))
        E.Emu.kill(self, st, path)
        for d, k, v in keep:
            d[k] = v

    def stmt(self, s, st, owner, depth):
        # `try: x = int(<C result text>) ... except ValueError: pass` - the compile-time conversion of a result text fails for everything but a literal:
        # the handler path (taken from the state at the `try`) is a path of its own; the base evaluator only follows the path without an exception
        if isinstance(s, ast.Try) and s.handlers and not s.finalbody and s.body and isinstance(s.body[0], ast.Assign) and isinstance(s.body[0].value, ast.Call) \
                and isinstance(s.body[0].value.func, ast.Name) and s.body[0].value.func.id in ('int', 'float') and len(s.body[0].value.args) == 1 \
                and isinstance(self.ev(s.body[0].value.args[0], st), E.U) and '.result' in self.ev(s.body[0].value.args[0], st).path:
            o = E.Emu.stmt(self, s, st.copy(), owner, depth)
            for h in s.handlers:
                r = self.block(h.body, [st.copy()], owner, depth)
                o.absorb(r)
                o.normal += r.normal
            return o
        if isinstance(s, ast.While) and not s.orelse and not any(
                isinstance(t, (ast.Attribute, ast.Subscript)) for n in ast.walk(s) if isinstance(n, (ast.Assign, ast.AugAssign))
                for t in (n.targets if isinstance(n, ast.Assign) else [n.target])):
            # a while loop that only rebinds locals: zero or more iterations; afterwards those locals are unknown
            o = E.Out()
            r = self.block(s.body, [st.copy()], owner, depth)
            o.returns += r.returns
            o.stopped += r.stopped
            outs = [st] + r.normal + r.breaks + r.continues
            names = sorted({t.id for n in ast.walk(s) if isinstance(n, (ast.Assign, ast.AugAssign))
                            for t in (n.targets if isinstance(n, ast.Assign) else [n.target]) if isinstance(t, ast.Name)})
            for s2 in outs:
                for nm in names:
                    s2.env[nm] = E.U('?loop:%s@%d' % (nm, s.lineno))
            o.normal = outs
            return o
        return E.Emu.stmt(self, s, st, owner, depth)


def _strip_sizeof(text):
    """blank the operands of sizeof(...): they are not evaluated"""
    out, i = [], 0
    while True:
        m = re.compile(r'\bsizeof\s*\(').search(text, i)
        if not m:
            out.append(text[i:])
            break
        out.append(text[i:m.start()])
        depth, j, in_mark = 1, m.end(), False
        while j < len(text) and depth:
            ch = text[j]
            if ch == E.ML:
                in_mark = True
            elif ch == E.MR:
                in_mark = False
            elif not in_mark:
                if ch == '(':
                    depth += 1
                elif ch == ')':
                    depth -= 1
            j += 1
        out.append(' sizeof_operand ')
        i = j
    return ''.join(out)


def _paste_count(line, x):
    n = 0
    for m in E.MARK.finditer(line):
        if re.fullmatch(r'self\.%s\.result(?:_as)?%s' % (re.escape(x), _CALL), m.group(1)):
            n += 1
    return n


class _Unbalanced(Exception):
    pass


def c_path_max(lines, x):
    """emitted C lines of one generator path -> (max number of evaluated pastes of operand x over the C paths through them, exact?)
    if (...) { A } else { B } counts max(A, B) (+ the conditions); loop bodies count twice; anything unbalanced falls back to the plain sum."""
    items = []
    for raw in lines:
        for ln in _strip_sizeof(raw).split('\n'):
            plain = E.MARK.sub('M', ln).strip()
            n = _paste_count(ln, x)
            if re.match(r'^}\s*else\b.*{$', plain):
                kind = 'else'
            elif plain.endswith('{') and '}' not in plain:
                kind = 'loop' if re.match(r'^(for|while)\b', plain) else 'open'
            elif plain.startswith('}') and '{' not in plain:
                kind = 'close'
            else:
                kind = 'plain'
            items.append((n, kind))
    pos = [0]

    def seq():
        total = 0
        while pos[0] < len(items):
            n, kind = items[pos[0]]
            if kind == 'plain':
                total += n
                pos[0] += 1
            elif kind in ('open', 'loop'):
                pos[0] += 1
                branches = [seq()]
                cond = n
                while pos[0] < len(items) and items[pos[0]][1] == 'else':
                    cond += items[pos[0]][0]
                    pos[0] += 1
                    branches.append(seq())
                if pos[0] < len(items) and items[pos[0]][1] == 'close':
                    cond += items[pos[0]][0]
                    pos[0] += 1
                else:
                    raise _Unbalanced()
                total += (2 * (cond + max(branches))) if kind == 'loop' else cond + max(branches)
            else:
                return total
        return total
    try:
        t = seq()
        if pos[0] != len(items):
            raise _Unbalanced()
        return t, True
    except _Unbalanced:
        return sum(n for n, _ in items), False


def _texts(st):
    for ev in st.events:
        if ev[0] == 'code' and ev[2] in ('put', 'putln') and ev[3] and isinstance(ev[3][0], str):
            yield ev[3][0]


def multi_paste_paths(ix, c, xs, emu_cls=_Emu):
    """-> {x: [(entry assumptions, eqs, entry method, count, sample line)]} : generator paths that paste the C result of operand x more than once"""
    out = {x: [] for x in xs}
    for entry in ENTRIES:
        if entry not in c.methods:
            continue
        emu = emu_cls(ix, c, inline=lambda owner, name: owner is c and name not in ENTRIES and name not in OTHER_EMITTERS, unknown_loops='01', max_states=400)
        for st, v in emu.run(c, c.methods[entry]):
            texts = list(_texts(st))
            if not texts:
                continue
            for x in xs:
                if not any(('self.%s.result' % x) in t for t in texts):
                    continue
                n, exact = c_path_max(texts, x)
                if n >= 2:
                    sample = next((E.MARK.sub(lambda m: m.group(1), t).strip() for t in texts if _paste_count(_strip_sizeof(t), x)), '')
                    out[x].append((P._slim(st.entry), dict(st.eqs), entry, n, sample))
    return out


def maker_methods(ix, c, x):
    """[(owner, method name)]: the non-emitting methods the class really has (the first definition along the MRO, own module only) that apply a
    simple-coercion to anything (whether it concerns operand x is read off the paths of the method)"""
    res, names = [], set()
    for k in ix.mro(c):
        if k.module is not c.module or k.name in E.GENERIC_OWNERS:
            continue
        for mname, fn in sorted(k.methods.items()):
            if mname in names:
                continue                 # overridden further down
            names.add(mname)
            if mname.startswith('generate_') or mname in OTHER_EMITTERS:
                continue
            hit = any(isinstance(n, ast.Call) and isinstance(n.func, ast.Attribute) and n.func.attr in SIMPLE_COERCIONS for n in walk_no_nested(fn))
            if hit:
                res.append((k, mname))
    return res


def _norm_key(k, finals, written):
    """assumption key of an analysis path -> the same fact in terms of the state the code generator sees, or None if it does not carry over"""
    suffix = ''
    body = k
    if body.endswith(' is None'):
        body, suffix = body[:-8], ' is None'
    m = _STEM.match(body)
    if m:
        stem, a, rest = m.group(1), m.group(2), m.group(3)
        fin = finals.get(a)
        if fin is None:
            return ('self.%s.type%s%s' % (a, rest, suffix)) if stem == 'self.' + a else None
        if fin == stem or (fin.startswith(stem) and re.fullmatch(_TP_CHAIN, fin[len(stem):])) or (stem.startswith(fin) and re.fullmatch(_TP_CHAIN, stem[len(fin):])):
            return 'self.%s.type%s%s' % (a, rest, suffix)
        return None
    if P.SHARED_ATOM.match(body) or re.match(r'^self(\.\w+)+ (Is|IsNot) [\w.]+$', body):
        if body.startswith('directive['):
            return k
        first = body.split(' ')[0].split('.')[1]
        # facts about an attribute the method rebinds describe the old value - unless they are about its truth and the new value is a node again
        if any(w == 'self.' + first or w.startswith('self.' + first + '.') for w in written):
            if body == 'self.' + first and first in finals and finals[first] is not None:
                return k
            return None
        return k
    return None


class Row:
    __slots__ = ('shared', 'eqs', 'simple', 'returns_self', 'finals')


def analysis_rows(ix, k, mname, xs, emu_cls=_Emu, protocol_call=False):
    """paths of an analysis method / constructor -> [Row]: facts that carry over to code generation, and which operands are simple afterwards"""
    fn = k.methods[mname]
    emu = emu_cls(ix, k, code_names=(), inline=lambda owner, name: owner is k and not name.startswith('generate_'), unknown_loops='01', max_states=8000)
    params = [a.arg for a in fn.args.args]
    args = {}
    is_init = mname == '__init__'
    if is_init:
        for x in xs:
            if x in params:
                args[x] = E.U('self.' + x)
    elif protocol_call:
        # called the way the tree protocol calls it (`node.analyse_types(env)`): further parameters take their constant defaults
        defaults = fn.args.defaults
        for prm, d in zip(params[len(params) - len(defaults):], defaults):
            if isinstance(d, ast.Constant) and prm not in ('self', 'env'):
                args[prm] = d.value
    rows = []
    for st, v in emu.run(k, fn, args=args):
        if v is E.StopPath:
            continue
        r = Row()
        r.returns_self = is_init or (isinstance(v, E.U) and v.path == 'self')
        finals, r.simple = {}, {}
        for x in xs:
            val = st.attrs.get('self.' + x)
            if val is None and is_init and x in params:
                val = st.env.get(x)
            path = val.path if isinstance(val, E.U) else None
            finals[x] = path
            simple = False
            if val is None and ('self.' + x) in st.attrs:
                simple = True                      # the operand is None on this path: nothing to evaluate
            if path is not None:
                if any('.%s(' % w in path for w in SIMPLE_COERCIONS):
                    simple = True
                else:
                    # a test of the (final or an earlier, type-preserved) operand node that establishes simplicity on this path
                    stems = {path}
                    p2 = path
                    while True:
                        m = _NODE_TAIL.search(p2)
                        if not m:
                            break
                        p2 = p2[:m.start()]
                        stems.add(p2)
                    for s in stems:
                        for t in SIMPLE_TESTS:
                            if st.assume.get(s + t) is True:
                                simple = True
            elif val is not None and not isinstance(val, E.U):
                simple = simple or E.concrete(val)
            r.simple[x] = simple
        shared = {}
        for key, b in list(st.assume.items()) + list(st.entry.items()):
            nk = _norm_key(key, finals, st.written)
            if nk is not None and nk not in shared:
                shared[nk] = b
        # facts about the value an attribute holds at the end are facts about that attribute for the code generator
        for ap, val in st.attrs.items():
            if not re.fullmatch(r'self\.\w+', ap) or not isinstance(val, E.U) or val.path == ap:
                continue
            T = val.path
            if re.fullmatch(r'[A-Za-z_][\w.]*', T) and not T.startswith('self.'):
                shared.setdefault('%s Is %s' % (ap, T.rsplit('.', 1)[-1]), True)       # bound to a module-level singleton (self.type = py_object_type)
            if not T.startswith('self.'):
                continue               # the result of a helper call: what the method found out about it stays a private matter of the method (an opaque test)
            for key, b in st.assume.items():
                if key.startswith(T) and key[len(T):len(T) + 1] in ('.', ' ', '['):
                    shared.setdefault(ap + key[len(T):], b)
        for x in xs:
            # an operand the method converted to a Python object has a Python object type afterwards, whatever its type was before
            if finals.get(x) and re.search(r'\.coerce_to_pyobject%s%s$' % (_CALL, _TP_CHAIN), finals[x]):
                shared.setdefault('self.%s.type.is_pyobject' % x, True)
        r.shared = P._slim(shared)
        r.finals = finals
        r.eqs = {}
        rows.append(r)
    return rows


_TYPEFLAG = re.compile(r'^(.*\.type)\.(is_\w+|signed)$')
_FEAS_MEMO = {}


def type_table2(ix):
    """PyrexTypes class -> (class-level flags, has `signed`, flags some class of its MRO assigns per instance (`self.is_string = 1` in CPointerBaseType.__init__): either value)"""
    base = P.type_table(ix)
    m = ix.mod('PyrexTypes')
    out = {}
    # abstract bases (CPointerBaseType ...) describe no type: only classes the compiler uses as a value somewhere (instantiation `X(...)`, `type_class = X`) count -
    # a mention in a `class` header or in an isinstance() test is not a use
    used = set()
    pat = re.compile(r'(?<![\w])(%s)(?![\w.])' % '|'.join(sorted(map(re.escape, base))))
    for nm, mm in ix.modules.items():
        if not nm.startswith('Cython.Compiler.'):
            continue
        for line in mm.src.split('\n'):
            code = line.split('#', 1)[0]
            if code.lstrip().startswith('class ') or 'isinstance(' in code or 'issubclass(' in code or 'super(' in code:
                continue
            for mt in pat.finditer(code):
                used.add(mt.group(1))
    if len(used) < 15:
        raise AnalysisError('C20-REPASTE: only %d PyrexTypes classes are used as values' % len(used))
    for name, (flags, has_signed) in base.items():
        if name not in used:
            continue
        free = set()
        for k in ix.mro(m.classes[name]):
            free |= {a for a in k.self_attrs if a.startswith('is_')}
            tab = k.attrs.get('_builtin_type_flag_mapping')        # BuiltinObjectType: flags switched on per builtin type name with setattr()
            if tab is not None:
                for n in ast.walk(tab):
                    if isinstance(n, ast.Constant) and isinstance(n.value, str) and n.value.startswith('is_'):
                        free.add(n.value)
        out[name] = (flags, has_signed, free)
    return out


def _flags_feasible(assume, ttable):
    """are the assumed type flags of every `<path>.type` satisfiable by one PyrexTypes class?"""
    groups, pyobj = {}, set()
    for k, v in assume.items():
        m = _TYPEFLAG.match(k)
        if m:
            groups.setdefault(m.group(1), {})[m.group(2)] = v
        elif v is True and k.endswith(' Is py_object_type') and k[:-len(' Is py_object_type')].endswith('.type'):
            pyobj.add(k[:-len(' Is py_object_type')])         # the singleton instance of PyObjectType
            groups.setdefault(k[:-len(' Is py_object_type')], {})
    for tp, fl in groups.items():
        ok = False
        for name, (flags, has_signed, free) in ttable.items():
            if tp in pyobj and name != 'PyObjectType':
                continue
            if 'signed' in fl and not has_signed:
                continue
            if all((f in free and tp not in pyobj) or flags.get(f, False) == v for f, v in fl.items() if f != 'signed'):
                ok = True
                break
        if not ok:
            return False
    return True


def _feasible(d, ttable):
    key = frozenset((k, v) for k, v in d.items() if _TYPEFLAG.match(k) or k.endswith(' Is py_object_type'))
    if key not in _FEAS_MEMO:
        if len(_FEAS_MEMO) > 200000:
            _FEAS_MEMO.clear()
        _FEAS_MEMO[key] = _flags_feasible(dict(key), ttable)
    return _FEAS_MEMO[key]


def _compatible(a, b, ttable):
    for k, v in a.items():
        if k in b and b[k] != v:
            return False
    both = dict(a)
    both.update(b)
    for k, v in both.items():
        if k.endswith(' is None') and v and both.get(k[:-8]) is True:
            return False
    return _feasible(both, ttable)


def repaste_witnesses(rows, cpaths, x, ttable):
    """-> [(codegen path, flag valuation)]: a multi-paste path and a valuation of the shared flags under which the analysis leaves operand x
    non-simple whatever its other tests answer"""
    out = []
    uniq = {}
    for r in rows:
        if r.returns_self:
            uniq.setdefault((frozenset(r.shared.items()), r.simple[x]), r)
    rows = list(uniq.values())
    # facts of a generator path that no analysis path mentions cannot tell analysis paths apart - except flags of a type some analysis path does mention
    atoms = {k for r in rows for k in r.shared}
    tpaths = {m.group(1) for m in (_TYPEFLAG.match(k) for k in atoms) if m}
    seen_cass = set()
    for cp in cpaths:
        cass = {k: v for k, v in cp[0].items() if k in atoms or (k.endswith(' is None') and k[:-8] in atoms) or (_TYPEFLAG.match(k) and _TYPEFLAG.match(k).group(1) in tpaths)}
        if not _feasible(cp[0], ttable):
            continue
        kc = (frozenset(cass.items()), cp[2])
        if kc in seen_cass:
            continue
        seen_cass.add(kc)
        cand = [r for r in rows if _compatible(cass, r.shared, ttable)]
        for r in cand:
            if r.simple[x]:
                continue
            both = dict(cass)
            both.update(r.shared)
            if all(not r2.simple[x] for r2 in cand if _compatible(both, r2.shared, ttable)):
                out.append((cp, both))
                break
    return out


_ROWS_CACHE = {}
REPASTE_POSITIVE = '''
class FakeSliceNode(ExprNode):
    subexprs = ['base', 'start']

    def analyse_types(self, env):
        self.base = self.base.analyse_types(env)
        self.start = self.start.analyse_types(env)
        if self.base.type.is_ptr:
            if env.directives['boundscheck']:
                self.start = self.start.coerce_to_simple(env)
        self.is_temp = 1
        return self

    def start_code(self):
        return self.start.result()

    def generate_result_code(self, code):
        start = self.start_code()
        if self.base.type.is_ptr:
            code.putln("%s = make(%s + %s, n - %s, sizeof(%s));" % (self.result(), self.base.result(), start, start, self.base.result()))
        else:
            code.putln("%s = other(%s, %s);" % (self.result(), self.base.py_result(), start))
'''


def _repaste_class(r, ix, c, xs, ttable, rel, key_prefix=None):
    """evaluate one class; returns number of obligations"""
    try:
        demand = multi_paste_paths(ix, c, xs)
    except E.Unmodelled as e:
        r.info('not decided: %s (code generator: %s)' % (c.qual, e))
        return 0
    n = 0
    for x in xs:
        cpaths = demand[x]
        if not cpaths:
            continue
        key = '%s:%s' % (key_prefix or c.qual, x)
        n += 1
        cass, ceqs, where, cnt, sample = cpaths[0]
        makers = maker_methods(ix, c, x)
        relevant, undecided = [], []
        for wk, wm in makers:
            ck = (wk.qual, wm, tuple(xs))
            if ck not in _ROWS_CACHE:
                try:
                    _ROWS_CACHE[ck] = analysis_rows(ix, wk, wm, xs)
                except E.Unmodelled as e:
                    _ROWS_CACHE[ck] = e
            rows = _ROWS_CACHE[ck]
            if isinstance(rows, E.Unmodelled):
                undecided.append('%s.%s: %s' % (wk.name, wm, rows))
            elif any(r_.returns_self and r_.simple[x] for r_ in rows):
                relevant.append((wk, wm, rows))
        if undecided:
            r.info('not decided: %s (%s)' % (key, '; '.join(undecided)))
            continue
        if not relevant:
            r.inst(key, sample='%s: %d multi-paste path(s), no method makes the operand simple' % (key, len(cpaths)))
            r.violate(key, rel, c.methods[where].lineno,
                      '%s.%s pastes self.%s.result() %d times into the C code of one path (e.g. `%s`), but no analysis method or constructor of the class makes '
                      'the operand simple (coerce_to_simple / coerce_to_temp / a test of is_name, is_simple()): a non-simple C operand - a call of a noexcept cdef '
                      'function, an arithmetic expression - is evaluated once per paste' % (c.name, where, x, cnt, sample[:140]))
            continue
        if len(relevant) != 1:
            r.info('not decided: %s (made simple in several methods: %s)' % (key, ', '.join('%s.%s' % (k.name, mn) for k, mn, _ in relevant)))
            continue
        wk, wm, rows = relevant[0]
        wit = []
        try:
            for centry in sorted({cp[2] for cp in cpaths}):
                # the analysis entry point that goes with this code generator: targets of assignments / del are analysed through analyse_target_types
                aentry = wm
                if wm == 'analyse_types':
                    aentry = 'analyse_target_types' if centry in ('generate_assignment_code', 'generate_deletion_code') and 'analyse_target_types' in wk.methods else 'analyse_types'
                ck = (wk.qual, aentry, tuple(xs), 'protocol')
                if wm != 'analyse_types':
                    erows = rows
                else:
                    if ck not in _ROWS_CACHE:
                        _ROWS_CACHE[ck] = analysis_rows(ix, wk, aentry, xs, protocol_call=True)
                    erows = _ROWS_CACHE[ck]
                wit += repaste_witnesses(erows, [cp for cp in cpaths if cp[2] == centry], x, ttable)
        except E.Unmodelled as e:
            r.info('not decided: %s (%s.%s: %s)' % (key, wk.name, wm, e))
            continue
        r.inst(key, sample='%s: %d multi-paste path(s) vs %d path(s) of %s.%s' % (key, len(cpaths), len(rows), wk.name, wm))
        seen = set()
        for (cass, ceqs, where, cnt, sample), both in wit:
            if where in seen:
                continue
            seen.add(where)
            cond = ', '.join('%s=%s' % (k, v) for k, v in sorted(both.items()) if ' is None' not in k and not k.startswith('?'))
            r.violate(key, rel, wk.methods[wm].lineno,
                      '%s.%s pastes self.%s.result() %d times into the C code of one path (e.g. `%s`), but for %s %s.%s leaves the operand as it is: a non-simple C '
                      'operand (a call of a noexcept cdef function, an arithmetic expression) is evaluated once per paste'
                      % (c.name, where, x, cnt, sample[:140], cond[:400] or 'every flag valuation', wk.name, wm))
    return n


def rule_repaste(ctx, floor=2, modules=('ExprNodes',)):
    ix = ctx.index
    _ROWS_CACHE.clear()
    _FEAS_MEMO.clear()
    r = Rule('C20-REPASTE', 'an operand whose C result the code generator of an expression node class (generate_result_code / generate_assignment_code / generate_deletion_code '
             'and their helpers) pastes more than once into the code of one path has been made simple by the class\'s analysis method or constructor under every valuation '
             'of the shared flags that admits the path', floor)
    ttable = type_table2(ix)
    nclasses = 0
    for ms in modules:
        m = ix.mod(ms)
        for c in sorted(m.classes.values(), key=lambda c: c.name):
            if not any(e in c.methods for e in ENTRIES):
                continue
            sub = ix.class_list_attr(c, 'subexprs')
            if not sub or not sub[1]:
                continue
            nclasses += 1
            # syntactic prefilter: fewer than two requests for an operand's result text in the own methods, none of them in a helper or a loop -> no double paste
            reqs = [n for fn in c.methods.values() for n in ast.walk(fn)
                    if isinstance(n, ast.Call) and isinstance(n.func, ast.Attribute) and n.func.attr in ('result', 'result_as')
                    and not (isinstance(n.func.value, ast.Name) and n.func.value.id == 'self')]
            if not reqs:
                continue
            _repaste_class(r, ix, c, sub[1], ttable, m.rel)
    if nclasses < 45:
        raise AnalysisError('C20-REPASTE: only %d expression node classes with own result / assignment code and operands found' % nclasses)
    # positive control: coerced under a directive only
    cn = ast.parse(REPASTE_POSITIVE).body[0]
    fix = P._OneClassIx(cn)
    fix.c.module = 'pc'
    pr = Rule('pc', 'pc')
    try:
        _repaste_class(pr, fix, fix.c, ['base', 'start'], ttable, 'pc')
    except E.Unmodelled:
        pass
    r.positive_control(any(f.construct.endswith(':start') and "directive['boundscheck']=False" in f.msg for f in pr.findings) and not any(f.construct.endswith(':base') for f in pr.findings),
                       'operand pasted twice, made simple under a directive only; sizeof() operand not counted')
    return r



# ================================================================================================================ C20-ERRCONV
# CPython C-API functions with an int result that is -1 when the call failed with an exception set (docs.python.org/3/c-api: object.html, sequence.html,
# mapping.html, list.html, dict.html, set.html, bytearray.html, unicode.html - "Return -1 on failure" / "on error").
ERR_API = frozenset('''
PyObject_IsInstance PyObject_IsSubclass PyObject_IsTrue PyObject_Not PyObject_RichCompareBool PyObject_SetAttr PyObject_SetAttrString PyObject_DelAttr
PyObject_DelAttrString PyObject_SetItem PyObject_DelItem PyObject_HasAttrWithError PyObject_HasAttrStringWithError PyObject_Size PyObject_Length
PyObject_GetBuffer PyObject_Print PyObject_AsFileDescriptor PyObject_GetOptionalAttr PyObject_GetOptionalAttrString
PySequence_Contains PySequence_Size PySequence_Length PySequence_SetItem PySequence_DelItem PySequence_SetSlice PySequence_DelSlice PySequence_Count
PySequence_Index PyMapping_Size PyMapping_Length PyMapping_HasKeyWithError PyMapping_HasKeyStringWithError PyMapping_SetItemString
PyList_Append PyList_Insert PyList_SetSlice PyList_Sort PyList_Reverse PyList_SetItem PyList_Extend PyList_Clear
PyDict_SetItem PyDict_SetItemString PyDict_DelItem PyDict_DelItemString PyDict_Contains PyDict_ContainsString PyDict_Merge PyDict_Update PyDict_MergeFromSeq2
PyDict_GetItemRef PyDict_GetItemStringRef PyDict_SetDefaultRef PyDict_Pop PyDict_PopString
PySet_Add PySet_Discard PySet_Contains PySet_Clear PyByteArray_Resize PyUnicode_Tailmatch PyUnicode_Contains PyTuple_SetItem _PyTuple_Resize _PyBytes_Resize
PyUnicode_READY PyModule_AddObject PyModule_AddObjectRef PyModule_AddIntConstant PyModule_AddStringConstant PyErr_WarnEx PyErr_WarnFormat PyType_Ready
'''.split())
_RAISE = r'(?:PyErr_(?:SetString|Format|SetObject|SetNone|NoMemory|BadArgument|BadInternalCall)|__Pyx_Raise\w*)\s*\((?:[^;()]|\((?:[^;()]|\([^;()]*\))*\))*\)\s*;'
_RAISE_THEN_NEG = re.compile(_RAISE + r'\s*(?:[^;{}]*;\s*){0,3}?return\s+\(?\s*-\s*\d+\s*\)?\s*;')


def helper_fail_evidence(cat, cname, _seen=None):
    """why the int result of C function `cname` can be an error value with an exception set, or None.  Reference list, else the helper's own C body."""
    if cname in ERR_API:
        return 'C-API: %s returns -1 with an exception set when it fails' % cname
    _seen = _seen or set()
    if cname in _seen or '{{' in cname:
        return None
    _seen.add(cname)
    try:
        decls = cat.lookup(cname)
    except Exception:
        decls = []
    for d in decls:
        if d.kind == 'macro' and d.params is not None:
            fw = cat.forwarding(d)
            if fw and fw[0] != cname:
                why = helper_fail_evidence(cat, fw[0], _seen)
                if why:
                    return 'macro %s -> %s; %s' % (cname, fw[0], why)
            continue
        if d.kind != 'func' or not d.body or '{{' in d.body:
            continue
        if not re.search(r'\b(int|Py_ssize_t|long|Py_UCS4|Py_hash_t)\b', d.ret or ''):
            continue
        body = strip_c_comments(d.body)
        if _RAISE_THEN_NEG.search(body):
            return '%s (%s:%s) sets an exception and returns a negative literal' % (cname, d.file, d.line)
        for m in re.finditer(r'\breturn\s+\(?\s*([A-Za-z_]\w*)\s*\(', body):
            why = helper_fail_evidence(cat, m.group(1), _seen) if m.group(1) != cname else None
            if why:
                return '%s (%s:%s) returns the result of %s; %s' % (cname, d.file, d.line, m.group(1), why)
        # if (unlikely(CALLEE(...) < 0)) return -1;   - the failure of a callee is passed on
        for m in re.finditer(r'\bif\s*\((?:[^;{}]*?)\b([A-Za-z_]\w*)\s*\((?:[^;{}()]|\([^;{}()]*\))*\)\s*(?:<\s*0|==\s*-\s*1)[^;{}]*\)\s*\{?\s*return\s+\(?\s*-\s*\d+\s*\)?\s*;', body):
            why = helper_fail_evidence(cat, m.group(1), _seen) if m.group(1) != cname else None
            if why:
                return '%s (%s:%s) returns a negative literal when %s failed; %s' % (cname, d.file, d.line, m.group(1), why)
        # error epilogue: `if (unlikely(!x)) goto bad;` / `if (r < 0) goto bad;` ... `bad: <cleanup> return -1;`
        for m in re.finditer(r'(?m)^\s*([A-Za-z_]\w*)\s*:(?!:)', body):
            lab = m.group(1)
            if lab in ('default', 'case'):
                continue
            tail = body[m.end():]
            nxt = re.search(r'(?m)^\s*[A-Za-z_]\w*\s*:(?!:)', tail)
            block = tail[:nxt.start()] if nxt else tail
            if not re.search(r'\breturn\s+\(?\s*-\s*\d+\s*\)?\s*;', block) or 'PyErr_Clear' in block:
                continue
            if re.search(r'\bif\s*\((?:[^;{}]*?)(?:!\s*\(?\s*[A-Za-z_]|<\s*0|==\s*-\s*1|==\s*NULL)[^;{}]*\)\s*\{?\s*goto\s+%s\s*;' % re.escape(lab), body):
                return '%s (%s:%s) leaves through the error label `%s` (reached after a failed call) with a negative literal' % (cname, d.file, d.line, lab)
        if 'PyErr_Clear' not in body:
            for m in re.finditer(r'\b([A-Za-z_]\w*)\s*=\s*([A-Za-z_]\w*)\s*\(', body):
                var, callee = m.group(1), m.group(2)
                if callee != cname and re.search(r'\breturn\s+\(?\s*%s\s*\)?\s*;' % re.escape(var), body):
                    why = helper_fail_evidence(cat, callee, _seen)
                    if why:
                        return '%s (%s:%s) returns the result of %s; %s' % (cname, d.file, d.line, callee, why)
    return None


class _TooManyPaths(Exception):
    pass


class SiteWalker:
    """Follows the local variables of one function along every path (branches both ways, loops zero or one time) and records, at every typed helper call,
    the constant C names and the CFuncType declarations that reach it - paired per path."""
    MAX = 400

    def __init__(self, ix, m, owner, ftypes, fn):
        self.ix, self.m, self.owner, self.ftypes, self.fn = ix, m, owner, ftypes, fn
        self.decls = {}
        self.records = {}        # site Call node -> set of (cname or None, decl key or None)

    # values: ('s', frozenset of str) | ('f', tuple of decl keys) | None
    def value(self, e, st):
        env = {k: [ast.Constant(value=s) for s in sorted(v[1])] for k, v in st.items() if v is not None and v[0] == 's'}
        if isinstance(e, ast.Name):
            if e.id in st:
                return st[e.id]
            ds = self.ftypes.get(('', e.id))          # a module-level function type
            if ds:
                for d in ds:
                    self.decls[d.where] = d
                return ('f', tuple(sorted({d.where for d in ds})))
            return None
        if isinstance(e, ast.IfExp):
            t = self.truth(e.test, st)
            if t is not None:
                return self.value(e.body if t else e.orelse, st)
            a, b = self.value(e.body, st), self.value(e.orelse, st)
            if a is not None and b is not None and a[0] == b[0] == 's':
                return ('s', a[1] | b[1])
            return None              # two function types under a test that is not understood: not paired with anything
        strs = const_strs(e, env)
        if strs is not None:
            return ('s', frozenset(strs))
        if typed._is_cfunctype(e) or isinstance(e, ast.Attribute):
            ds = typed.resolve_functype(self.ix, self.m, self.owner, self.ftypes, e, None, self.fn, e)
            if ds:
                keys = []
                for d in ds:
                    self.decls[d.where] = d
                    keys.append(d.where)
                return ('f', tuple(sorted(set(keys))))
        return None

    def truth(self, test, st):
        """a test on a tracked string variable with one value on this path (name == 'X', name != 'X', name in (...)), or None"""
        if isinstance(test, ast.UnaryOp) and isinstance(test.op, ast.Not):
            t = self.truth(test.operand, st)
            return None if t is None else not t
        if isinstance(test, ast.Compare) and len(test.ops) == 1 and isinstance(test.left, ast.Name):
            v = st.get(test.left.id)
            if v is None or v[0] != 's' or len(v[1]) != 1:
                return None
            (val,) = v[1]
            op, c = test.ops[0], test.comparators[0]
            if isinstance(op, (ast.Eq, ast.NotEq, ast.Is, ast.IsNot)) and isinstance(c, ast.Constant) and isinstance(c.value, str):
                return (val == c.value) == isinstance(op, (ast.Eq, ast.Is))
            if isinstance(op, (ast.In, ast.NotIn)) and isinstance(c, (ast.Tuple, ast.List, ast.Set)) and all(isinstance(x, ast.Constant) for x in c.elts):
                return (val in [x.value for x in c.elts]) == isinstance(op, ast.In)
        return None

    def sites_in(self, node):
        for n in ast.walk(node):
            if isinstance(n, (ast.FunctionDef, ast.Lambda)) and n is not node:
                continue
            if isinstance(n, ast.Call):
                callee = n.func.attr if isinstance(n.func, ast.Attribute) else getattr(n.func, 'id', None)
                if callee in typed.SITES:
                    yield n, callee

    def record(self, node, st):
        for n, callee in self.sites_in(node):
            ci, fi, ai = typed.SITES[callee]
            kw = {k.arg: k.value for k in n.keywords if k.arg}
            cn = n.args[ci] if len(n.args) > ci else kw.get('function_name') or kw.get('cname') or kw.get('name')
            ft = n.args[fi] if len(n.args) > fi else kw.get('func_type')
            if cn is None or ft is None:
                continue
            cv, fv = self.value(cn, st), self.value(ft, st)
            names = sorted(cv[1]) if cv is not None and cv[0] == 's' else [None]
            decls = list(fv[1]) if fv is not None and fv[0] == 'f' else [None]
            rec = self.records.setdefault(n, set())
            for a in names:
                for b in decls:
                    rec.add((a, b))

    @staticmethod
    def _freeze(st):
        return frozenset(st.items())

    def block(self, stmts, states):
        """-> states that fall through"""
        cur = states
        for s in stmts:
            nxt = {}
            for st in cur:
                for o in self.stmt(s, dict(st)):
                    nxt[self._freeze(o)] = o
            if len(nxt) > self.MAX:
                raise _TooManyPaths()
            cur = list(nxt.values())
            if not cur:
                break
        return cur

    def stmt(self, s, st):
        if isinstance(s, (ast.FunctionDef, ast.ClassDef, ast.AsyncFunctionDef)):
            return [st]
        if isinstance(s, ast.If):
            self.record(s.test, st)
            t = self.truth(s.test, st)
            if t is not None:
                return self.block(s.body if t else s.orelse, [st])
            return self.block(s.body, [dict(st)]) + self.block(s.orelse, [dict(st)])
        if isinstance(s, (ast.For, ast.While)):
            self.record(s.iter if isinstance(s, ast.For) else s.test, st)
            inner = dict(st)
            if isinstance(s, ast.For):
                for x in ast.walk(s.target):
                    if isinstance(x, ast.Name):
                        inner[x.id] = None
                if isinstance(s.target, ast.Name) and isinstance(s.iter, (ast.Tuple, ast.List)):
                    vals = [self.value(e, st) for e in s.iter.elts]
                    if vals and all(v is not None and v[0] == 's' for v in vals):
                        inner[s.target.id] = ('s', frozenset().union(*[v[1] for v in vals]))
            once = self.block(s.body, [inner])
            # a second iteration sees the values the first one left behind
            twice = self.block(s.body, [dict(o) for o in once]) if once else []
            out = [st] + once + twice
            return self.block(s.orelse, out) if s.orelse else out
        if isinstance(s, ast.Try):
            body = self.block(s.body, [dict(st)])
            outs = list(body)
            for h in s.handlers:
                outs += self.block(h.body, [dict(st)] + [dict(o) for o in body])
            if s.orelse:
                outs = self.block(s.orelse, body) + outs[len(body):]
            if s.finalbody:
                outs = self.block(s.finalbody, outs)
            return outs
        if isinstance(s, (ast.With, ast.AsyncWith)):
            for it in s.items:
                self.record(it.context_expr, st)
            return self.block(s.body, [st])
        if isinstance(s, ast.Match):
            outs = [st]
            for c in s.cases:
                outs += self.block(c.body, [dict(st)])
            return outs
        self.record(s, st)
        if isinstance(s, (ast.Return, ast.Raise, ast.Continue, ast.Break)):
            # `continue` / `break`: the values of this iteration are not carried any further by this walker (the next iteration starts from the loop entry state)
            return []
        if isinstance(s, ast.Assign):
            v = self.value(s.value, st)
            for t in s.targets:
                if isinstance(t, ast.Name):
                    st[t.id] = v
                elif isinstance(t, (ast.Tuple, ast.List)):
                    vals = s.value.elts if isinstance(s.value, (ast.Tuple, ast.List)) and len(s.value.elts) == len(t.elts) else None
                    for i, e in enumerate(t.elts):
                        for x in ast.walk(e):
                            if isinstance(x, ast.Name):
                                st[x.id] = self.value(vals[i], st) if vals is not None and isinstance(e, ast.Name) else None
        elif isinstance(s, (ast.AugAssign, ast.AnnAssign)):
            if isinstance(s.target, ast.Name):
                st[s.target.id] = self.value(s.value, st) if isinstance(s, ast.AnnAssign) and s.value is not None else None
        elif isinstance(s, ast.Delete):
            for t in s.targets:
                if isinstance(t, ast.Name):
                    st.pop(t.id, None)
        return [st]

    def run(self):
        self.block(self.fn.body, [{}])
        return self.records


ERRCONV_MODULES = ('Optimize', 'Builtin', 'ExprNodes', 'ParseTreeTransforms', 'Nodes', 'MatchCaseNodes', 'UtilNodes', 'Dataclass')


def typed_site_pairs(ix, modules=ERRCONV_MODULES):
    """-> [(module, qualname, call node, cname or None, FuncTypeDecl or None)], [functions given up]"""
    out, gave_up = [], []
    for ms in modules:
        m = ix.mod(ms)
        ftypes = typed.collect_functypes(ix, m)
        for qn, owner, fn in ix.functions_of(m):
            if not any(isinstance(n, ast.Call) and (n.func.attr if isinstance(n.func, ast.Attribute) else getattr(n.func, 'id', None)) in typed.SITES for n in walk_no_nested(fn)):
                continue
            w = SiteWalker(ix, m, owner, ftypes, fn)
            try:
                recs = w.run()
            except _TooManyPaths:
                gave_up.append('%s.%s' % (m.short, qn))
                continue
            for n, pairs in recs.items():
                for cname, dk in sorted(pairs, key=lambda p: (p[0] or '', p[1] or ('', 0))):
                    out.append((m, qn, n, cname, w.decls.get(dk)))
    return out, gave_up


def builtin_error_rows(ix):
    """C name -> (python name, signature char, error value) for the rows of Builtin.py whose return signature has an error value in TypeSlots.Signature.error_value_map"""
    from ..engine import tables
    ts = ix.mod('TypeSlots')
    sig = ts.classes.get('Signature')
    emap = None
    if sig is not None and 'error_value_map' in sig.attrs:
        emap = tables.literal(sig.attrs['error_value_map'])
    if not isinstance(emap, dict) or not emap:
        raise AnalysisError('C20-ERRCONV: TypeSlots.Signature.error_value_map could not be read')
    m = ix.mod('Builtin')
    rows = {}
    for n in ast.walk(m.tree):
        if isinstance(n, ast.Call) and isinstance(n.func, ast.Name) and n.func.id in ('BuiltinFunction', 'BuiltinMethod') and len(n.args) >= 4:
            pyname, args, ret, cname = (tables.literal(a) for a in n.args[:4])
            if isinstance(ret, str) and isinstance(cname, str) and ret[:1] in emap and ret[:1] not in ('O', 'T'):
                rows[cname] = (pyname, ret, emap[ret[:1]])
    return rows


ERRCONV_POSITIVE = '''
class T:
    check_type = PyrexTypes.CFuncType(PyrexTypes.c_bint_type, [PyrexTypes.CFuncTypeArg("o", PyrexTypes.py_object_type, None)])
    checked_type = PyrexTypes.CFuncType(PyrexTypes.c_bint_type, [PyrexTypes.CFuncTypeArg("o", PyrexTypes.py_object_type, None)], exception_value=-1)

    def handler(self, node, args):
        ftype = self.check_type
        if args[0].is_name:
            fname = "PyList_Check"
        elif args[0].is_literal:
            fname = "PySequence_Contains"
        else:
            fname = "PySet_Contains"
            ftype = self.checked_type
        return ExprNodes.PythonCapiCallNode(node.pos, fname, ftype, args=args)
'''


def _errconv_pairs_of_source(src):
    """site pairs of the synthetic module (positive control)"""
    tree = ast.parse(src)

    class M:
        pass
    m = M()
    m.tree, m.rel, m.short = tree, 'pc', 'pc'

    class Ix:
        def mro(self, c):
            return [c]
    cls = tree.body[0]

    class C:
        pass
    c = C()
    c.name, c.module = cls.name, m
    ftypes = typed.collect_functypes(None, m)
    fn = [f for f in cls.body if isinstance(f, ast.FunctionDef)][0]
    w = SiteWalker(Ix(), m, c, ftypes, fn)
    recs = w.run()
    return [(cn, w.decls.get(dk)) for n, pairs in recs.items() for cn, dk in pairs]


def rule_errconv(ctx, floor=24):
    ix = ctx.index
    r = Rule('C20-ERRCONV', 'typed C helper calls built by the tree transforms: a C function that reports failure through its int result (sibling declaration with an error value, '
             'C-API reference list, or the helper\'s C body) is called through a CFuncType that declares an exception value', floor)
    pairs, gave_up = typed_site_pairs(ix)
    for g in gave_up:
        r.info('not decided: %s (too many paths for the def-use walk)' % g)
    brow = builtin_error_rows(ix)
    declared = collections.defaultdict(list)      # cname -> [(exception value text, where)]
    unresolved = collections.Counter()
    for m, qn, n, cname, d in pairs:
        if cname is None or d is None:
            unresolved['cname' if cname is None else 'functype'] += 1
            continue
        if d.exception_value is not None:
            declared[cname].append((d.exception_value, '%s:%s' % d.where))
    seen = set()
    for m, qn, n, cname, d in pairs:
        if cname is None or d is None or d.ret is None:
            continue
        if typed.py_category(d.ret) != 'int':
            continue
        key = '%s.%s:%s' % (m.short, qn, cname)
        if (key, d.where) in seen:
            continue
        seen.add((key, d.where))
        r.inst(key, sample='%s calls %s through %s (exception_value=%s)' % (key, cname, d.ret.rsplit('.', 1)[-1], d.exception_value))
        if d.exception_value is not None:
            continue
        why = None
        if declared.get(cname):
            why = 'the same C function is declared with exception_value=%s at %s' % declared[cname][0]
        elif cname in brow:
            why = 'Builtin.py declares %s() -> %s with return signature %r, error value %s' % (brow[cname][0], cname, brow[cname][1], brow[cname][2])
        else:
            why = helper_fail_evidence(ctx.cat, cname)
        if why:
            r.violate(key, m.rel, n.lineno,
                      '%s.%s calls %s through a CFuncType (%s:%s, return type %s) without exception_value, but the C function reports failure through its result (%s): '
                      'the generated code does not test the result, the exception stays pending (SystemError "returned a result with an exception set", or the error value is used '
                      'as a normal result)' % (m.short, qn, cname, d.where[0].rsplit('/', 1)[-1], d.where[1], d.ret.rsplit('.', 1)[-1], why))
    r.info('unresolved sites (never alarm): %s' % dict(unresolved))
    pc = _errconv_pairs_of_source(ERRCONV_POSITIVE)
    bad = {cn for cn, d in pc if d is not None and d.exception_value is None and cn in ERR_API}
    r.positive_control(bad == {'PySequence_Contains'}, 'PySequence_Contains reaches the call with the unchecked type on one path only; PySet_Contains is paired with the checked type')
    return r


# ================================================================================================================ C20-REUSE
class _OnceProv(L.Prov):
    """pC20's provenance interpreter with one difference: `x.is_simple()` / `x.try_is_simple()` is remembered as a fact about x on the path, it does not make
    x's evaluations disappear (a node whose result is in a temporary is simple, and evaluating it again repeats its side effects)."""

    def branch(self, test, env):
        if isinstance(test, ast.Call) and isinstance(test.func, ast.Attribute) and test.func.attr in L.SIMPLE_PREDICATES and not test.args:
            try:
                tv = self.ev(test.func.value, env)
            except L.Undecided:
                tv = None
            paths = ()
            if isinstance(tv, L.Src):
                if tv.simple:
                    return [(True, env)]
                paths = (tv.path,)
            elif isinstance(tv, L.Tree):
                paths = tuple(sorted({x.path for x, _ in L.flatten(tv.seq)}))
            k = ('simpletest', ast.unparse(test.func.value), paths)
            if k in env.attrs:
                return [(env.attrs[k], env)]
            et, ef = env.copy(), env.copy()
            et.attrs[k], ef.attrs[k] = True, False
            return [(True, et), (False, ef)]
        return L.Prov.branch(self, test, env)

    @staticmethod
    def _is_predicate(e):
        if isinstance(e, ast.BoolOp):
            return all(_OnceProv._is_predicate(v) for v in e.values)
        if isinstance(e, ast.UnaryOp) and isinstance(e.op, ast.Not):
            return _OnceProv._is_predicate(e.operand)
        if isinstance(e, ast.Attribute):
            return e.attr.startswith('is_')
        if isinstance(e, ast.Call) and isinstance(e.func, ast.Attribute):
            return e.func.attr in L.SIMPLE_PREDICATES and not e.args
        return False

    def stmt(self, s, env):
        # flag = <test over is_name / is_literal / is_simple() ...>: decided where it is computed (the operands may be rebound before the flag is tested)
        if isinstance(s, ast.Assign) and len(s.targets) == 1 and isinstance(s.targets[0], ast.Name) and self._is_predicate(s.value) \
                and not isinstance(s.value, ast.Attribute):
            out = []
            for t, e in self.branch(s.value, env):
                e.vars[s.targets[0].id] = ('const', bool(t))
                out.append(e)
            return out
        return L.Prov.stmt(self, s, env)

    def ev_Subscript(self, n, env):
        sl = n.slice
        if isinstance(sl, ast.Slice) and sl.lower is None and sl.upper is None and isinstance(sl.step, ast.UnaryOp) and isinstance(sl.step.op, ast.USub) \
                and isinstance(sl.step.operand, ast.Constant) and sl.step.operand.value == 1:
            v = self.ev(n.value, env)
            if isinstance(v, L.ListV) and any(isinstance(i, L.RunItem) and i.asc not in (True, False) for i in v.items):
                # xs[::-1] of a list filled while iterating something of unknown order: still of unknown order
                return L.ListV([L.RunItem(i.value, (not i.asc) if i.asc in (True, False) else i.asc) if isinstance(i, L.RunItem) else i for i in reversed(v.items)])
        return L.Prov.ev_Subscript(self, n, env)

    def ev_Call(self, n, env):
        f = n.func
        name = f.attr if isinstance(f, ast.Attribute) else f.id if isinstance(f, ast.Name) else None
        if name == 'CloneNode':
            for a in n.args:
                self.ev(a, env)
            return L.Tree(())          # refers to the result of a node that is evaluated elsewhere in the tree; evaluates nothing itself
        return L.Prov.ev_Call(self, n, env)


def _is_operand_path(path):
    return len(path) >= 2 and path[0][0] == 'root'


def reuse_counts(seq):
    """evaluation sequence of a returned tree -> {operand path: (definite weight, possible weight)}.  An operand outside loops counts 1 per occurrence; inside a
    loop over a source list (the same sub-tree for every element) it counts 2 (one per element, two elements possible); inside a loop over a list of unknown
    origin it only counts as possible."""
    out = {}
    for x, cx in L.flatten(seq):
        if not _is_operand_path(x.path):
            continue
        per_elem = any(st[0] == 'elem' for st in x.path)
        d = p = 1
        if cx and not per_elem:
            if all(asc in (True, False) for _, asc in cx):
                d = p = 2
            else:
                d, p = 0, 2
        elif cx and per_elem:
            d = p = 1
        a, b = out.get(x.path, (0, 0))
        out[x.path] = (a + d, b + p)
    return out


def reuse_function(fn, class_order, child_attrs):
    """-> (decided?, number of rewritten results, [(kind, operand text, line, relied-on-is_simple?, sequence text)], note)"""
    pv = _OnceProv(class_order, child_attrs)
    env = L.PEnv()
    params = [a.arg for a in fn.args.args]
    for p in params[1:] if params and params[0] == 'self' else params:
        env.vars[p] = L.Src((('root', p),))
    try:
        pv.block(fn.body, [env])
    except L.Undecided as e:
        return False, 0, [], str(e)
    n, problems = 0, []
    for val, line, e in pv.results:
        if not isinstance(val, L.Tree):
            continue
        sq = L._fill_seq(val.seq, {})
        if any(isinstance(x, L.Hole) for x in sq):
            return False, 0, [], 'unresolved loop-carried value in the result'
        n += 1
        relied = set()
        for k, v in e.attrs.items():
            if isinstance(k, tuple) and k and k[0] == 'simpletest' and v is True:
                relied |= set(k[2])
        for path, (d, p) in sorted(reuse_counts(sq).items()):
            if p < 2:
                continue
            on_simple = path in relied or any(path[:i] in relied for i in range(2, len(path)))
            text = ' ; '.join(s.show() for s, _ in L.flatten(sq))
            if d >= 2 or on_simple:
                problems.append(('twice', L.Src(path).show(), line, on_simple, text))
            else:
                problems.append(('maybe', L.Src(path).show(), line, on_simple, text))
    return True, n, problems, ''


REUSE_POSITIVE = '''
def _handle_simple_method_list_push(self, node, function, args, is_unbound_method):
    obj, value = args
    items = list(value.args)
    target = obj
    if not obj.is_simple():
        target = UtilNodes.LetRefNode(obj)
    new_node = ExprNodes.PythonCapiCallNode(node.pos, "push", self.push_type, args=[target, items[-1]])
    for item in items[-2::-1]:
        new_node = ExprNodes.binop_node(node.pos, '|', ExprNodes.PythonCapiCallNode(node.pos, "push", self.push_type, args=[target, item]), new_node)
    if target is not obj:
        new_node = UtilNodes.EvalWithTempExprNode(target, new_node)
    return new_node
'''


def rule_reuse(ctx, floor=10, modules=('Optimize',)):
    ix = ctx.index
    r = Rule('C20-REUSE', 'temp-wrapping tree rewrites: an operand sub-tree of the original node that the returned tree evaluates at more than one position is established as a '
             'plain name or literal on that path (is_name / is_literal) or moved into a LetRefNode/ResultRefNode; is_simple() is no licence - it holds for temporaries too', floor)
    co = L._ClassOrder(ix)
    child_attrs = set()
    for c in ix.node_classes():
        for nm in ('subexprs', 'child_attrs'):
            lst = ix.class_list_attr(c, nm)
            if lst is not None and lst[1]:
                child_attrs |= set(lst[1])
    if len(child_attrs) < 100:
        raise AnalysisError('C20-REUSE: only %d child attribute names found in the node classes' % len(child_attrs))
    for ms in modules:
        m = ix.mod(ms)
        for qn, owner, fn in ix.functions_of(m):
            if owner is None:
                continue
            uses = [n for n in walk_no_nested(fn) if isinstance(n, ast.Call) and (
                (isinstance(n.func, ast.Attribute) and n.func.attr in L.TEMP_CTORS) or (isinstance(n.func, ast.Name) and n.func.id in L.TEMP_CTORS))]
            if not uses:
                continue
            key = '%s.%s' % (m.short, qn)
            decided, n, problems, note = reuse_function(fn, co, child_attrs)
            if not decided:
                r.info('not decided: %s (%s)' % (key, note))
                continue
            r.inst(key, sample='%s: %d rewritten result(s)' % (key, n), nontrivial=n > 0)
            seen = set()
            for kind, what, line, on_simple, text in sorted(problems, key=lambda p: (p[0] != 'twice', len(p[4]), p[1])):
                if what in seen:
                    continue
                seen.add(what)
                if kind == 'twice':
                    r.violate('%s:%s-evaluated-again' % (key, what), m.rel, line,
                              '%s builds a tree that evaluates the operand %s at more than one position (evaluation sequence: %s)%s: the operand\'s evaluation code runs once per '
                              'position, its calls and attribute lookups are repeated' % (
                                  key, what, text[:300], ', relying on %s.is_simple() - which is also true for a node whose result lives in a temporary '
                                  '(attribute lookup, conditional expression, comprehension, a cast around one of them)' % what if on_simple else ''))
                else:
                    r.info('not decided: %s may evaluate %s more than once (only inside a loop over a list of unknown origin)' % (key, what))
    pc = ast.parse(REUSE_POSITIVE).body[0]
    d, n, probs, note = reuse_function(pc, co, child_attrs)
    r.positive_control(d and any(k == 'twice' and w == 'args[0]' and s for k, w, l, s, t in probs), 'list expression reused for every item under is_simple()')
    return r
