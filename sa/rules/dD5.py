"""dD5 - three structural clauses of "every operand is evaluated exactly once, in order" (C20) that came out of three repaired deviations.

C20-REPASTE  code generators of expression node classes (generate_result_code / generate_assignment_code / generate_deletion_code and the own
             helpers they call): an operand whose C result text (`self.X.result()` / `.result_as(..)`) is pasted more than once into the C code of one
             path (sizeof(..) operands are not evaluated, exclusive C if/else branches count once) is evaluated once per paste unless the result is
             simple (ExprNode.is_simple(): name, constant, temporary).  Only the class's analysis method / constructor can see to that
             (`self.X = self.X.coerce_to_simple(env)` / coerce_to_temp, or a test of is_name / is_simple() / is_literal on the operand).  Both sides are
             decision tables extracted by partial evaluation (sC14.Emu): for every valuation of the flags both phases consult (self attributes,
             directives, flags of the operand types - pruned with the flag table of the PyrexTypes classes) under which a multi-paste path exists, the
             operand must have been made simple whatever the analysis method's other tests answer.
             Deviation: SliceIndexNode pasted `start` twice for C pointers (`f(base + start, stop - start)`, `memcpy(&base[start], .., stop - start)`),
             `s[cs():ce()]` called cs() twice.

C20-ERRCONV  typed C helper calls built by the tree transforms (PythonCapiCallNode / _substitute_method_call with a CFuncType): when the C function
             reports a failure through its int result (-1 with an exception set) the function type must declare an exception value, otherwise the
             generated code goes on with the exception pending (SystemError at the next return to the interpreter, or the error value used as a truth
             value).  "Reports a failure" is taken from (a) the other declarations of the same C name in the compiler (typed call sites, the
             BuiltinFunction / BuiltinMethod rows of Builtin.py through TypeSlots.Signature.error_value_map), (b) the C-API reference list below
             (functions documented to return -1 on failure), (c) the C body of the utility-code helper: it returns the result of such a function, or
             a negative literal right after setting an exception.  The (C name, function type) pairs of a site are found by following the local
             variables of the handler along every path (def-use, if/else <-> early return insensitive).
             Deviation: isinstance(x, (f(),)) -> PyObject_IsInstance with a type that has no exception value.

C20-REUSE    the temp-wrapping rewrites of Optimize.py (functions that create LetRefNode / ResultRefNode): an operand sub-tree of the original node
             that the returned tree evaluates at more than one position must be established re-evaluable (is_literal / is_name) on that path;
             `is_simple()` does not establish that - it also holds for nodes whose result lives in a temporary, and putting such a node into the tree
             twice runs its evaluation code twice.  Decided on the provenance model of pC20 (abstract interpretation of the rewriting function),
             with is_simple()/try_is_simple() answers kept as path facts instead of "side-effect free".
             Deviation: (<list>(v('h').olst)).extend([a, b]) evaluated v('h').olst once per item.
"""
import ast, re, collections, itertools

from ..core import Rule, AnalysisError, node_src
from ..engine.pyindex import walk_no_nested
from ..engine.cutil import strip_c_comments
from . import sC14 as E
from . import sC20 as P
from . import pC20 as L
from . import typed
from .iface import const_strs, local_env

EXPRNODES = 'Cython/Compiler/ExprNodes.py'

# ================================================================================================================ C20-REPASTE
ENTRIES = ('generate_result_code', 'generate_assignment_code', 'generate_deletion_code')
OTHER_EMITTERS = ('generate_evaluation_code', 'calculate_result_code', 'generate_disposal_code', 'generate_post_assignment_code',
                  'generate_subexpr_evaluation_code', 'generate_subexpr_disposal_code', 'free_temps', 'free_subexpr_temps')
SIMPLE_COERCIONS = ('coerce_to_simple', 'coerce_to_temp')
SIMPLE_TESTS = ('.is_name', '.is_literal', '.is_simple()', '.result_in_temp()', '.is_temp', '.try_is_simple()')
# node -> node protocol methods: the result is a node (truthy) ...
NODE_METHODS = ('analyse_types', 'analyse_expressions', 'analyse_target_types', 'coerce_to', 'coerce_to_simple', 'coerce_to_temp', 'coerce_to_pyobject',
                'coerce_to_boolean', 'coerce_to_index', 'as_none_safe_node', 'analyse_result_type', 'analyse_as_type_attribute')
# ... and these keep the C type of the node they are applied to
TYPE_PRESERVING = ('analyse_types', 'analyse_expressions', 'coerce_to_simple', 'coerce_to_temp', 'as_none_safe_node')
_CALL = r'\((?:[^()]|\((?:[^()]|\([^()]*\))*\))*\)'
_TP_CHAIN = r'(?:\.(?:%s)%s)*' % ('|'.join(TYPE_PRESERVING), _CALL)
_STEM = re.compile(r'^(self\.(\w+)%s)\.type\b(.*)$' % _TP_CHAIN)
_NODE_TAIL = re.compile(r'\.(?:%s)%s$' % ('|'.join(NODE_METHODS), _CALL))


class _Emu(E.Emu):
    """Emu that knows the node protocol: analyse_types / coerce_to* / as_none_safe_node return a node, and a node is true."""

    def truth(self, v, st):
        if isinstance(v, E.U) and _NODE_TAIL.search(v.path):
            return True
        return E.Emu.truth(self, v, st)

    def stmt(self, s, st, owner, depth):
        # `try: x = int(<C result text>) ... except ValueError: pass` - the compile-time conversion of a result text fails for everything but a literal:
        # the handler path (taken from the state at the `try`) is a path of its own; the base evaluator only follows the path without an exception
        if isinstance(s, ast.Try) and s.handlers and not s.finalbody and s.body and isinstance(s.body[0], ast.Assign) and isinstance(s.body[0].value, ast.Call) \
                and isinstance(s.body[0].value.func, ast.Name) and s.body[0].value.func.id in ('int', 'float'):
            o = E.Emu.stmt(self, s, st.copy(), owner, depth)
            for h in s.handlers:
                r = self.block(h.body, [st.copy()], owner, depth)
                o.absorb(r)
                o.normal += r.normal
            return o
        return E.Emu.stmt(self, s, st, owner, depth)


def _strip_sizeof(text):
    """blank the operands of sizeof(...): they are not evaluated"""
    out, i = [], 0
    while True:
        m = re.compile(r'\bsizeof\s*\(').search(text, i)
        if not m:
            out.append(text[i:])
            break
        out.append(text[i:m.start()])
        depth, j, in_mark = 1, m.end(), False
        while j < len(text) and depth:
            ch = text[j]
            if ch == E.ML:
                in_mark = True
            elif ch == E.MR:
                in_mark = False
            elif not in_mark:
                if ch == '(':
                    depth += 1
                elif ch == ')':
                    depth -= 1
            j += 1
        out.append(' sizeof_operand ')
        i = j
    return ''.join(out)


def _paste_count(line, x):
    n = 0
    for m in E.MARK.finditer(line):
        if re.fullmatch(r'self\.%s\.result(?:_as)?%s' % (re.escape(x), _CALL), m.group(1)):
            n += 1
    return n


class _Unbalanced(Exception):
    pass


def c_path_max(lines, x):
    """emitted C lines of one generator path -> (max number of evaluated pastes of operand x over the C paths through them, exact?)
    if (...) { A } else { B } counts max(A, B) (+ the conditions); loop bodies count twice; anything unbalanced falls back to the plain sum."""
    items = []
    for raw in lines:
        for ln in _strip_sizeof(raw).split('\n'):
            plain = E.MARK.sub('M', ln).strip()
            n = _paste_count(ln, x)
            if re.match(r'^}\s*else\b.*{$', plain):
                kind = 'else'
            elif plain.endswith('{') and '}' not in plain:
                kind = 'loop' if re.match(r'^(for|while)\b', plain) else 'open'
            elif plain.startswith('}') and '{' not in plain:
                kind = 'close'
            else:
                kind = 'plain'
            items.append((n, kind))
    pos = [0]

    def seq():
        total = 0
        while pos[0] < len(items):
            n, kind = items[pos[0]]
            if kind == 'plain':
                total += n
                pos[0] += 1
            elif kind in ('open', 'loop'):
                pos[0] += 1
                branches = [seq()]
                cond = n
                while pos[0] < len(items) and items[pos[0]][1] == 'else':
                    cond += items[pos[0]][0]
                    pos[0] += 1
                    branches.append(seq())
                if pos[0] < len(items) and items[pos[0]][1] == 'close':
                    cond += items[pos[0]][0]
                    pos[0] += 1
                else:
                    raise _Unbalanced()
                total += (2 * (cond + max(branches))) if kind == 'loop' else cond + max(branches)
            else:
                return total
        return total
    try:
        t = seq()
        if pos[0] != len(items):
            raise _Unbalanced()
        return t, True
    except _Unbalanced:
        return sum(n for n, _ in items), False


def _texts(st):
    for ev in st.events:
        if ev[0] == 'code' and ev[2] in ('put', 'putln') and ev[3] and isinstance(ev[3][0], str):
            yield ev[3][0]


def multi_paste_paths(ix, c, xs, emu_cls=_Emu):
    """-> {x: [(entry assumptions, eqs, entry method, count, sample line)]} : generator paths that paste the C result of operand x more than once"""
    out = {x: [] for x in xs}
    for entry in ENTRIES:
        if entry not in c.methods:
            continue
        emu = emu_cls(ix, c, inline=lambda owner, name: owner is c and name not in ENTRIES and name not in OTHER_EMITTERS, unknown_loops='01', max_states=1500)
        for st, v in emu.run(c, c.methods[entry]):
            texts = list(_texts(st))
            if not texts:
                continue
            for x in xs:
                if not any(('self.%s.result' % x) in t for t in texts):
                    continue
                n, exact = c_path_max(texts, x)
                if n >= 2:
                    sample = next((E.MARK.sub(lambda m: m.group(1), t).strip() for t in texts if _paste_count(_strip_sizeof(t), x)), '')
                    out[x].append((P._slim(st.entry), dict(st.eqs), entry, n, sample))
    return out


def maker_methods(ix, c, x):
    """[(owner, method name)] along the MRO (own module only): non-emitting methods that mention a simple-coercion or a simplicity test"""
    res = []
    for k in ix.mro(c):
        if k.module is not c.module or k.name in E.GENERIC_OWNERS:
            continue
        for mname, fn in sorted(k.methods.items()):
            if mname.startswith('generate_') or mname in OTHER_EMITTERS:
                continue
            hit = False
            for n in walk_no_nested(fn):
                if isinstance(n, ast.Call) and isinstance(n.func, ast.Attribute) and n.func.attr in SIMPLE_COERCIONS:
                    # the coerced value must have something to do with operand x: `self.x`, a parameter / local called x, or an alias of self.x
                    names = {a.attr for a in ast.walk(n.func.value) if isinstance(a, ast.Attribute)} | {a.id for a in ast.walk(n.func.value) if isinstance(a, ast.Name)}
                    if x in names or _aliases(fn, x) & names:
                        hit = True
            if hit and (k, mname) not in res:
                res.append((k, mname))
    return res


def _aliases(fn, x):
    """local names assigned from self.x (directly) in fn"""
    out = set()
    for n in walk_no_nested(fn):
        if isinstance(n, ast.Assign) and isinstance(n.value, ast.Attribute) and isinstance(n.value.value, ast.Name) and n.value.value.id == 'self' and n.value.attr == x:
            for t in n.targets:
                if isinstance(t, ast.Name):
                    out.add(t.id)
    return out


def _norm_key(k, finals, written):
    """assumption key of an analysis path -> the same fact in terms of the state the code generator sees, or None if it does not carry over"""
    suffix = ''
    body = k
    if body.endswith(' is None'):
        body, suffix = body[:-8], ' is None'
    m = _STEM.match(body)
    if m:
        stem, a, rest = m.group(1), m.group(2), m.group(3)
        fin = finals.get(a)
        if fin is None:
            return ('self.%s.type%s%s' % (a, rest, suffix)) if stem == 'self.' + a else None
        if fin == stem or (fin.startswith(stem) and re.fullmatch(_TP_CHAIN, fin[len(stem):])) or (stem.startswith(fin) and re.fullmatch(_TP_CHAIN, stem[len(fin):])):
            return 'self.%s.type%s%s' % (a, rest, suffix)
        return None
    if P.SHARED_ATOM.match(body) or re.match(r'^self(\.\w+)+ (Is|IsNot) [\w.]+$', body):
        if body.startswith('directive['):
            return k
        first = body.split(' ')[0].split('.')[1]
        # facts about an attribute the method rebinds describe the old value - unless they are about its truth and the new value is a node again
        if any(w == 'self.' + first or w.startswith('self.' + first + '.') for w in written):
            if body == 'self.' + first and first in finals and finals[first] is not None:
                return k
            return None
        return k
    return None


class Row:
    __slots__ = ('shared', 'eqs', 'simple', 'returns_self')


def analysis_rows(ix, k, mname, xs, emu_cls=_Emu):
    """paths of an analysis method / constructor -> [Row]: facts that carry over to code generation, and which operands are simple afterwards"""
    fn = k.methods[mname]
    emu = emu_cls(ix, k, code_names=(), inline=lambda owner, name: owner is k and not name.startswith('generate_'), unknown_loops='01', max_states=8000)
    params = [a.arg for a in fn.args.args]
    args = {}
    is_init = mname == '__init__'
    if is_init:
        for x in xs:
            if x in params:
                args[x] = E.U('self.' + x)
    rows = []
    for st, v in emu.run(k, fn, args=args):
        if v is E.StopPath:
            continue
        r = Row()
        r.returns_self = is_init or (isinstance(v, E.U) and v.path == 'self')
        finals, r.simple = {}, {}
        for x in xs:
            val = st.attrs.get('self.' + x)
            if val is None and is_init and x in params:
                val = st.env.get(x)
            path = val.path if isinstance(val, E.U) else None
            finals[x] = path
            simple = False
            if val is None and ('self.' + x) in st.attrs:
                simple = True                      # the operand is None on this path: nothing to evaluate
            if path is not None:
                if any('.%s(' % w in path for w in SIMPLE_COERCIONS):
                    simple = True
                else:
                    # a test of the (final or an earlier, type-preserved) operand node that establishes simplicity on this path
                    stems = {path}
                    p2 = path
                    while True:
                        m = _NODE_TAIL.search(p2)
                        if not m:
                            break
                        p2 = p2[:m.start()]
                        stems.add(p2)
                    for s in stems:
                        for t in SIMPLE_TESTS:
                            if st.assume.get(s + t) is True:
                                simple = True
            elif val is not None and not isinstance(val, E.U):
                simple = simple or E.concrete(val)
            r.simple[x] = simple
        shared = {}
        for key, b in st.assume.items():
            nk = _norm_key(key, finals, st.written)
            if nk is not None and nk not in shared:
                shared[nk] = b
        r.shared = P._slim(shared)
        r.eqs = {}
        rows.append(r)
    return rows


def _compatible(a, b, ttable):
    for k, v in a.items():
        if k in b and b[k] != v:
            return False
    both = dict(a)
    both.update(b)
    for k, v in both.items():
        if k.endswith(' is None') and v and both.get(k[:-8]) is True:
            return False
    return P.flags_feasible(both, ttable)


def repaste_witnesses(rows, cpaths, x, ttable):
    """-> [(codegen path, flag valuation)]: a multi-paste path and a valuation of the shared flags under which the analysis leaves operand x
    non-simple whatever its other tests answer"""
    out = []
    uniq = {}
    for r in rows:
        if r.returns_self:
            uniq.setdefault((frozenset(r.shared.items()), r.simple[x]), r)
    rows = list(uniq.values())
    seen_cass = set()
    for cp in cpaths:
        cass = cp[0]
        kc = (frozenset(cass.items()), cp[2])
        if kc in seen_cass:
            continue
        seen_cass.add(kc)
        if not P.flags_feasible(cass, ttable):
            continue
        cand = [r for r in rows if _compatible(cass, r.shared, ttable)]
        for r in cand:
            if r.simple[x]:
                continue
            both = dict(cass)
            both.update(r.shared)
            if all(not r2.simple[x] for r2 in cand if _compatible(both, r2.shared, ttable)):
                out.append((cp, both))
                break
    return out


_ROWS_CACHE = {}
REPASTE_POSITIVE = '''
class FakeSliceNode(ExprNode):
    subexprs = ['base', 'start']

    def analyse_types(self, env):
        self.base = self.base.analyse_types(env)
        self.start = self.start.analyse_types(env)
        if self.base.type.is_ptr:
            if env.directives['boundscheck']:
                self.start = self.start.coerce_to_simple(env)
        self.is_temp = 1
        return self

    def start_code(self):
        return self.start.result()

    def generate_result_code(self, code):
        start = self.start_code()
        if self.base.type.is_ptr:
            code.putln("%s = make(%s + %s, n - %s, sizeof(%s));" % (self.result(), self.base.result(), start, start, self.base.result()))
        else:
            code.putln("%s = other(%s, %s);" % (self.result(), self.base.py_result(), start))
'''


def _repaste_class(r, ix, c, xs, ttable, rel, key_prefix=None):
    """evaluate one class; returns number of obligations"""
    try:
        demand = multi_paste_paths(ix, c, xs)
    except E.Unmodelled as e:
        r.info('not decided: %s (code generator: %s)' % (c.qual, e))
        return 0
    n = 0
    for x in xs:
        cpaths = demand[x]
        if not cpaths:
            continue
        key = '%s:%s' % (key_prefix or c.qual, x)
        n += 1
        cass, ceqs, where, cnt, sample = cpaths[0]
        makers = maker_methods(ix, c, x)
        if not makers:
            r.inst(key, sample='%s: %d multi-paste path(s), no method makes the operand simple' % (key, len(cpaths)))
            r.violate(key, rel, c.methods[where].lineno,
                      '%s.%s pastes self.%s.result() %d times into the C code of one path (e.g. `%s`), but no analysis method or constructor of the class makes '
                      'the operand simple (coerce_to_simple / coerce_to_temp / a test of is_name, is_simple()): a non-simple C operand - a call of a noexcept cdef '
                      'function, an arithmetic expression - is evaluated once per paste' % (c.name, where, x, cnt, sample[:140]))
            continue
        if len(makers) != 1:
            r.info('not decided: %s (made simple in several methods: %s)' % (key, ', '.join('%s.%s' % (k.name, mn) for k, mn in makers)))
            continue
        wk, wm = makers[0]
        try:
            ck = (wk.qual, wm, tuple(xs))
            if ck not in _ROWS_CACHE:
                _ROWS_CACHE.clear()
                _ROWS_CACHE[ck] = analysis_rows(ix, wk, wm, xs)
            rows = _ROWS_CACHE[ck]
            wit = repaste_witnesses(rows, cpaths, x, ttable)
        except E.Unmodelled as e:
            r.info('not decided: %s (%s.%s: %s)' % (key, wk.name, wm, e))
            continue
        r.inst(key, sample='%s: %d multi-paste path(s) vs %d path(s) of %s.%s' % (key, len(cpaths), len(rows), wk.name, wm))
        seen = set()
        for (cass, ceqs, where, cnt, sample), both in wit:
            if where in seen:
                continue
            seen.add(where)
            cond = ', '.join('%s=%s' % (k, v) for k, v in sorted(both.items()) if ' is None' not in k and not k.startswith('?'))
            r.violate(key, rel, wk.methods[wm].lineno,
                      '%s.%s pastes self.%s.result() %d times into the C code of one path (e.g. `%s`), but for %s %s.%s leaves the operand as it is: a non-simple C '
                      'operand (a call of a noexcept cdef function, an arithmetic expression) is evaluated once per paste'
                      % (c.name, where, x, cnt, sample[:140], cond[:400] or 'every flag valuation', wk.name, wm))
    return n


def rule_repaste(ctx, floor=3, modules=('ExprNodes',)):
    ix = ctx.index
    r = Rule('C20-REPASTE', 'an operand whose C result the code generator of an expression node class (generate_result_code / generate_assignment_code / generate_deletion_code '
             'and their helpers) pastes more than once into the code of one path has been made simple by the class\'s analysis method or constructor under every valuation '
             'of the shared flags that admits the path', floor)
    ttable = P.type_table(ix)
    nclasses = 0
    for ms in modules:
        m = ix.mod(ms)
        for c in sorted(m.classes.values(), key=lambda c: c.name):
            if not any(e in c.methods for e in ENTRIES):
                continue
            sub = ix.class_list_attr(c, 'subexprs')
            if not sub or not sub[1]:
                continue
            nclasses += 1
            # syntactic prefilter: fewer than two requests for an operand's result text in the own methods, none of them in a helper or a loop -> no double paste
            reqs = [n for fn in c.methods.values() for n in ast.walk(fn)
                    if isinstance(n, ast.Call) and isinstance(n.func, ast.Attribute) and n.func.attr in ('result', 'result_as')
                    and not (isinstance(n.func.value, ast.Name) and n.func.value.id == 'self')]
            if not reqs:
                continue
            _repaste_class(r, ix, c, sub[1], ttable, m.rel)
    if nclasses < 45:
        raise AnalysisError('C20-REPASTE: only %d expression node classes with own result / assignment code and operands found' % nclasses)
    # positive control: coerced under a directive only
    cn = ast.parse(REPASTE_POSITIVE).body[0]
    fix = P._OneClassIx(cn)
    fix.c.module = 'pc'
    pr = Rule('pc', 'pc')
    try:
        _repaste_class(pr, fix, fix.c, ['base', 'start'], ttable, 'pc')
    except E.Unmodelled:
        pass
    r.positive_control(any(f.construct.endswith(':start') and "directive['boundscheck']=False" in f.msg for f in pr.findings) and not any(f.construct.endswith(':base') for f in pr.findings),
                       'operand pasted twice, made simple under a directive only; sizeof() operand not counted')
    return r

