"""C22-EXCVARS: the exception variables of an `except` clause stay valid for the whole handler body.

`ExceptClauseNode` fetches the handled exception into three C temporaries, publishes their names as `code.funcstate.exc_vars` for the statements
of the handler body and releases them itself on every exit of the clause (with a plain DECREF on the break / continue exits).  Statements inside the
body READ them - a bare `raise` re-raises them, `except*` takes the group from them - and the body may run on after such a statement (the re-raised
exception can be caught by a nested try inside the handler).  Who-may-write rule, decided on the syntax tree of the code generators:

    a class that does not itself install `code.funcstate.exc_vars` (= is not the owner of the variables) never emits code that sets one of them to
    0 / NULL or clears it; it may hand out NEW references (incref + a stealing call) or replace all of them by other non-NULL values.

The violation this was written for: ReraiseStatNode passed the variables to the reference-stealing __Pyx_ErrRestoreWithState() and zeroed them, so a
second bare `raise` in the same handler restored a NULL exception and the clause's `break` exit did Py_DECREF(NULL)."""
import ast
import re

from ..core import Rule, AnalysisError
from ..engine.pyindex import walk_no_nested

GEN_MODULES = ('Nodes', 'ExprNodes', 'UtilNodes', 'MatchCaseNodes')
NULLING = re.compile(r'=\s*(?:0|NULL)\s*;')
CLEARERS = ('put_xdecref_clear', 'put_decref_clear', 'put_var_xdecref_clear', 'put_var_decref_clear', 'put_xdecref_set', 'put_decref_set')


def _is_excvars_attr(e):
    return isinstance(e, ast.Attribute) and e.attr == 'exc_vars' and isinstance(e.value, ast.Attribute) and e.value.attr == 'funcstate'


def _names(e):
    return {x.id for x in ast.walk(e) if isinstance(x, ast.Name)}


def nulling_sites(fn):
    """-> (reads exc_vars?, [(lineno, what)]) for one function"""
    alias = set()
    reads = False
    for n in walk_no_nested(fn):
        if isinstance(n, ast.Assign) and any(_is_excvars_attr(x) for x in ast.walk(n.value)):
            for t in n.targets:
                alias |= _names(t)
        if any(_is_excvars_attr(x) for x in ast.iter_child_nodes(n)) or _is_excvars_attr(n):
            reads = True
    if not reads:
        return False, []

    def refers(e, extra=()):
        return any(_is_excvars_attr(x) for x in ast.walk(e)) or bool(_names(e) & (alias | set(extra)))
    # names that range over the variables:  for v in vars / [.. for v in vars] / a, b, c = vars
    derived = set()
    grew = True
    while grew:
        grew = False
        for n in walk_no_nested(fn):
            pairs = []
            if isinstance(n, ast.For):
                pairs.append((n.target, n.iter))
            if isinstance(n, (ast.ListComp, ast.GeneratorExp, ast.SetComp)):
                pairs += [(g.target, g.iter) for g in n.generators]
            if isinstance(n, ast.Assign):
                pairs += [(t, n.value) for t in n.targets]
            for tgt, src in pairs:
                if refers(src, derived):
                    new = _names(tgt) - derived - alias
                    if new:
                        derived |= new
                        grew = True
    out = []
    for n in walk_no_nested(fn):
        if not (isinstance(n, ast.Call) and isinstance(n.func, ast.Attribute)):
            continue
        if n.func.attr in ('putln', 'put') and n.args:
            a = n.args[0]
            texts = [c.value for c in ast.walk(a) if isinstance(c, ast.Constant) and isinstance(c.value, str)]
            if any(NULLING.search(t) for t in texts) and refers(a, derived):
                # `vars[0] = <expr>;` with a non-zero right-hand side does not match NULLING; only literal 0 / NULL does
                out.append((n.lineno, 'emits `<exception variable> = 0;`'))
        elif n.func.attr in CLEARERS and n.args and refers(n.args[0], derived):
            out.append((n.lineno, 'calls code.%s() on an exception variable' % n.func.attr))
    return True, out


def rule_excvars(ctx, floor=2):
    r = Rule('C22-EXCVARS', 'a code generator that does not install code.funcstate.exc_vars itself never emits code that zeroes or clears the handler\'s exception variables '
                            '(a later bare `raise` and the clause\'s own exits read them)', floor)
    ix = ctx.index
    for m in ix.modules.values():
        if m.short not in GEN_MODULES:
            continue
        for cls in m.classes.values():
            owner = any(isinstance(n, ast.Assign) and any(_is_excvars_attr(t) for t in n.targets)
                        for fn in cls.methods.values() for n in walk_no_nested(fn))
            for name, fn in cls.methods.items():
                reads, sites = nulling_sites(fn)
                if not reads:
                    continue
                key = '%s.%s.%s' % (m.short, cls.name, name)
                r.inst(key, sample='%s reads code.funcstate.exc_vars (%s)' % (key, 'owner' if owner else 'not the owner'), nontrivial=not owner)
                if owner:
                    continue
                for line, what in sites:
                    r.violate(key + ':nulls-exc-vars', m.rel, line, '%s %s although the variables belong to the enclosing except / finally clause: the handler body can continue after this '
                              'statement (a re-raised exception caught by a nested try), and a second bare `raise`, `except*` or the clause\'s break / continue exit '
                              '(plain Py_DECREF) then meets NULL' % (key, what))
    pc = ast.parse('''
def generate_execution_code(self, code):
    vars = code.funcstate.exc_vars
    if vars:
        code.putln("__Pyx_ErrRestoreWithState(%s, %s, %s);" % tuple(vars))
        code.putln(" ".join([f"{varname} = 0; " for varname in vars]))
''').body[0]
    ok = ast.parse('''
def generate_execution_code(self, code):
    vars = code.funcstate.exc_vars
    code.putln(f"{vars[0]} = (PyObject*)Py_TYPE({self.exception.result()});")
    for v in vars[:2]:
        code.put_incref(v, py_object_type)
''').body[0]
    r.positive_control(bool(nulling_sites(pc)[1]) and not nulling_sites(ok)[1], 're-raise that steals and zeroes the variables')
    return r
