"""Strengthening rules for C13 (builtin call / method optimisations).

C13-USCORE  the digit-separator stripping loops of the optimised float() parsers (Cython/Utility/Optimize.c) accept no
            underscore that CPython rejects.  The loop is *extracted* as a finite automaton (state = the integer locals it
            updates, input = one character) by a small C statement interpreter that belongs to the checker; the product
            (extracted automaton) x (grammar of the stripped text accepted by PyOS_string_to_double) x (CPython's separator rule:
            an underscore stands between two digits) is explored completely; an accepting product state that carries a
            misplaced underscore is a string for which the optimised float() returns a value where CPython raises ValueError.
            No helper is run: the alphabet is the complete set of characters a valid stripped literal can contain, the state
            space is finite and explored exhaustively.

C13-NONEARG writer/reader agreement for the "runtime None means default" protocol: a value that a handler stores for the
            consumer which tests it by *truthiness* must be truthy whenever it is not None (a falsy 0 silently drops the None check).
"""
import ast, re
from collections import deque

from ..core import Rule, AnalysisError
from ..engine import cexpr
from ..engine.cutil import strip_c_comments
from . import pC17

# ------------------------------------------------------------------------------------------------------------ C13-USCORE
DIGITS = '0123456789'
ALPHABET = DIGITS + '_.eE+-'       # every character that can occur in a text whose '_'-stripped form strtod accepts completely
SEP = '_'
FAIL = 'FAIL'

DECL = re.compile(r'^(?:(?:const|unsigned|signed|static|register)\s+)*([A-Za-z_]\w*)\s+(\**)\s*([A-Za-z_]\w*)\s*(?:=\s*(.+))?$')
ASSIGN = re.compile(r'^([A-Za-z_]\w*)\s*(\|=|&=|\^=|\+=|-=|=)(?!=)\s*(.+)$')
KEYWORDS = ('return', 'goto', 'break', 'continue')


class _Jump(Exception):
    def __init__(self, kind, arg=None):
        self.kind, self.arg = kind, arg


class SepLoop:
    """One separator-stripping function: the loop that reads a character, compares it with '_' and copies it."""

    def __init__(self, name, params, body_text):
        self.name = name
        self.stmts = pC17.parse_body(body_text)
        self.pointers = set()
        for p in params or []:
            m = re.search(r'([A-Za-z_]\w*)\s*$', p)
            if m and '*' in p:
                self.pointers.add(m.group(1))
        loops = [(i, st) for i, st in enumerate(self.stmts) if st.kind in ('for', 'while')
                 and any(s.kind in ('simple', 'if') and re.search(r"[!=]=\s*'_'", s.text) for s in pC17.walk(pC17.as_list(st.body)))
                 and len(pC17.as_list(st.body)) >= 2]
        if len(loops) != 1:
            raise AnalysisError('%s: expected exactly one top-level character loop that tests for the separator, found %d' % (name, len(loops)))
        self.loop_index, self.loop = loops[0]
        # the character variable: the identifier compared with '_'
        cands = set()
        for s in pC17.walk(pC17.as_list(self.loop.body)):
            for m in re.finditer(r"\b([A-Za-z_]\w*)\s*[!=]=\s*'_'", s.text):
                cands.add(m.group(1))
        if len(cands) != 1:
            raise AnalysisError('%s: the character variable of the separator loop is ambiguous: %r' % (name, sorted(cands)))
        self.chr = cands.pop()
        # integer locals declared outside the loop: they carry the state from one character to the next
        self.persistent = set()
        for st in self.stmts:
            if st.kind == 'simple':
                m = DECL.match(st.text)
                if m and m.group(1) not in KEYWORDS and not ASSIGN.match(st.text) and not m.group(2):
                    self.persistent.add(m.group(3))
        self.labels = {st.text: i for i, st in enumerate(self.stmts) if st.kind == 'label'}

    # -- interpreter of the extracted statements (integers only; pointer stores/advances do not influence the decision) --
    def _ev(self, text, env):
        try:
            e = cexpr.parse(text)
        except cexpr.ParseError as ex:
            raise AnalysisError('%s: cannot parse C expression %r (%s)' % (self.name, text, ex))
        full = dict(env)
        full.setdefault('NULL', 0)
        for p in self.pointers:
            full.setdefault(p, 1)          # a valid (non-NULL) pointer
        try:
            return cexpr.evaluate(e, full)
        except cexpr.EvalError as ex:
            raise AnalysisError('%s: cannot evaluate %r over the integer state (%s)' % (self.name, text, ex))

    def _simple(self, text, env, cur):
        t = text.strip()
        if not t:
            return
        w = re.match(r'[A-Za-z_]\w*', t)
        if w and w.group(0) == 'goto':
            raise _Jump('goto', t[4:].strip())
        if w and w.group(0) == 'return':
            raise _Jump('return', self._ev(t[6:].strip(), env) if t[6:].strip() else 1)
        if w and w.group(0) in ('break', 'continue'):
            raise _Jump(w.group(0))
        if t.startswith('*'):
            return                          # store through a pointer: the copied text, not the decision
        m = DECL.match(t)
        if m and m.group(1) not in KEYWORDS and not ASSIGN.match(t):
            typ, stars, var, init = m.groups()
            if stars:
                self.pointers.add(var)
                return
            if var == self.chr:
                if cur is None:
                    raise AnalysisError('%s: character variable declared outside the loop' % self.name)
                env[var] = ord(cur)
                return
            if init is not None:
                env[var] = self._ev(init, env)
            return
        m = ASSIGN.match(t)
        if m:
            var, op, rhs = m.groups()
            if var in self.pointers:
                return
            if var == self.chr:
                if cur is None:
                    raise AnalysisError('%s: character variable assigned outside the loop' % self.name)
                env[var] = ord(cur)
                return
            v = self._ev(rhs, env)
            if op == '=':
                env[var] = v
                return
            if var not in env:
                raise AnalysisError('%s: %s is updated before it is initialised' % (self.name, var))
            env[var] = {'|=': env[var] | v, '&=': env[var] & v, '^=': env[var] ^ v, '+=': env[var] + v, '-=': env[var] - v}[op]
            return
        if re.fullmatch(r'[A-Za-z_]\w*\s*(\+\+|--)|(\+\+|--)\s*[A-Za-z_]\w*', t):
            return                          # loop counters
        if re.fullmatch(r'\(void\)\s*\w+|CYTHON_UNUSED_VAR\(\w+\)', t):
            return
        raise AnalysisError('%s: statement %r of the separator loop is not modelled' % (self.name, t))

    def _exec(self, stmts, env, cur):
        for st in stmts:
            if st.kind == 'simple':
                self._simple(st.text, env, cur)
            elif st.kind == 'block':
                self._exec(st.body, env, cur)
            elif st.kind == 'if':
                if self._ev(st.text, env):
                    self._exec(pC17.as_list(st.body), env, cur)
                elif st.orelse is not None:
                    self._exec(pC17.as_list(st.orelse), env, cur)
            elif st.kind in ('label', 'pp'):
                continue
            else:
                raise AnalysisError('%s: nested %s statement in the separator function is not modelled' % (self.name, st.kind))

    def _finish(self, start, env):
        """run the top-level statements from index `start` to the function's return -> True (a buffer is returned) / False"""
        i, hops = start, 0
        while True:
            try:
                self._exec(self.stmts[i:], env, None)
            except _Jump as j:
                if j.kind == 'return':
                    return bool(j.arg)
                if j.kind == 'goto' and j.arg in self.labels and hops < 8:
                    i, hops = self.labels[j.arg], hops + 1
                    continue
                raise AnalysisError('%s: jump %s %s is not modelled' % (self.name, j.kind, j.arg))
            raise AnalysisError('%s: control reaches the end without return' % self.name)

    def initial(self):
        env = {}
        try:
            self._exec(self.stmts[:self.loop_index], env, None)
        except _Jump as j:
            raise AnalysisError('%s: jump before the separator loop' % self.name)
        # loop header initialisers are counters only
        return self._freeze(env)

    @staticmethod
    def _freeze(env):
        return tuple(sorted(env.items()))

    def step(self, state, ch):
        env = dict(state)
        try:
            self._exec(pC17.as_list(self.loop.body), env, ch)
        except _Jump as j:
            if j.kind == 'continue':
                pass
            elif j.kind == 'break':
                raise AnalysisError('%s: break inside the separator loop is not modelled' % self.name)
            else:
                ok = self._jump_out(j, env)
                return FAIL if not ok else ('ACCEPT-EARLY',)
        # locals declared in the loop body do not survive the iteration
        return self._freeze({k: v for k, v in env.items() if k in self.persistent})

    def _jump_out(self, j, env):
        if j.kind == 'return':
            return bool(j.arg)
        if j.kind == 'goto' and j.arg in self.labels:
            return self._finish(self.labels[j.arg], env)
        raise AnalysisError('%s: jump %s %s out of the loop is not modelled' % (self.name, j.kind, j.arg))

    def accepts(self, state):
        return self._finish(self.loop_index + 1, dict(state))


# grammar of the stripped text: [+-]? (D+ ('.' D*)? | '.' D+) ([eE] [+-]? D+)?   (what PyOS_string_to_double consumes completely)
def _gram_step(g, ch):
    d = ch in DIGITS
    if g == 'S':
        return 'SG' if ch in '+-' else 'I' if d else 'P0' if ch == '.' else None
    if g == 'SG':
        return 'I' if d else 'P0' if ch == '.' else None
    if g == 'I':
        return 'I' if d else 'F' if ch == '.' else 'E' if ch in 'eE' else None
    if g == 'P0':
        return 'F' if d else None
    if g == 'F':
        return 'F' if d else 'E' if ch in 'eE' else None
    if g == 'E':
        return 'ES' if ch in '+-' else 'X' if d else None
    if g == 'ES':
        return 'X' if d else None
    if g == 'X':
        return 'X' if d else None
    return None


GRAM_ACCEPT = ('I', 'F', 'X')


def _cls(ch, g_before):
    """name of the neighbour class used in construct keys"""
    if ch in DIGITS:
        return 'digit'
    if ch in '+-':
        return 'exponent-sign' if g_before == 'E' else 'leading-sign'
    return {'.': "'.'", 'e': "'e'", 'E': "'E'", '_': "'_'"}[ch]


def misplaced_separators(loop, prefiltered=True):
    """-> {kind: shortest witness}: kinds of misplaced underscore (CPython: ValueError) that occur in a text the extracted
    automaton accepts and whose stripped form the float grammar accepts.  kind = ('after', class) | ('before', class|'end')."""
    init = (loop.initial(), 'S', ('ok', 'start'), '')
    seen = {init[:3]}
    todo = deque([init])
    found = {}
    while todo:
        cy, g, mon, w = todo.popleft()
        # end of text
        if g in GRAM_ACCEPT and cy != FAIL:
            endmon = mon
            if mon[0] == 'ok' and mon[1] == 'sep':
                endmon = ('bad', ('before', 'end'))
            if endmon[0] == 'bad' and loop.accepts(cy) and endmon[1] not in found:
                found[endmon[1]] = w
        if len(w) > 12:
            continue
        for ch in ALPHABET:
            if ch == SEP:
                g2 = g
                if prefiltered and g in ('S', 'SG'):
                    continue        # the callers reject a text whose first character (after a sign) is neither a digit nor '.'
            else:
                g2 = _gram_step(g, ch)
                if g2 is None:
                    continue
            cy2 = loop.step(cy, ch)
            if cy2 == FAIL:
                continue
            if cy2 == ('ACCEPT-EARLY',):
                raise AnalysisError('%s: returns a buffer from inside the loop' % loop.name)
            if mon[0] == 'bad':
                mon2 = mon
            elif ch == SEP:
                mon2 = ('ok', 'sep') if mon[1] == 'digit' else ('bad', ('after', "'_'" if mon[1] == 'sep' else mon[1]))
            elif mon[1] == 'sep' and ch not in DIGITS:
                mon2 = ('bad', ('before', _cls(ch, g)))
            else:
                mon2 = ('ok', _cls(ch, g))
            k = (cy2, g2, mon2)
            if k not in seen:
                seen.add(k)
                todo.append((cy2, g2, mon2, w + ch))
    return found, len(seen)


ALL_KINDS = [('after', "'_'"), ('after', "'.'"), ('after', "'e'"), ('after', "'E'"), ('after', 'exponent-sign'),
             ('before', "'.'"), ('before', "'e'"), ('before', "'E'"), ('before', 'end')]

_PC_BAD = ('static const char* pc(const char* start, char* buffer, Py_ssize_t length)',
           "{ int last = 1; int err = 0; Py_ssize_t i; for (i=0; i < length; i++) { char c = start[i]; int p = (c == '_') | (c == '.'); "
           "*buffer = c; buffer += (c != '_'); err |= last & p; last = p; } err |= last; *buffer = '\\0'; return err ? NULL : buffer; }")

def _sep_functions(ctx, rel='Cython/Utility/Optimize.c'):
    """functions of the utility file that contain a separator-stripping loop: (name, CDecl)"""
    out = []
    fname = rel.rsplit('/', 1)[1]
    for name, decls in sorted(ctx.cat.decls.items()):
        for d in decls:
            if d.kind != 'func' or d.file != fname or not d.body:
                continue
            if not re.search(r"[!=]=\s*'_'", d.body):
                continue
            try:
                stmts = pC17.parse_body(d.body)
            except AnalysisError:
                continue
            if any(st.kind in ('for', 'while') and len(pC17.as_list(st.body)) >= 2
                   and any(re.search(r"[!=]=\s*'_'", s.text) for s in pC17.walk(pC17.as_list(st.body)) if s.kind in ('simple', 'if'))
                   for st in stmts):
                out.append((name, d))
    return out


# constructs of FINDING_1 (fail on the unmodified tree): checked by rule_uscore(pending=True), which is not registered
PENDING_FINDING = {
    "__Pyx__PyBytes_AsDouble_Copy:'_' after exponent-sign",        # float("1e+_5") == 100000.0
    "__Pyx__PyUnicode_AsDouble_Copy:'_' after exponent-sign",
    "__Pyx__PyUnicode_AsDouble_Copy:'_' after 'e'",                # latent: the non-ASCII parser always falls back today (FINDING_2)
    "__Pyx__PyUnicode_AsDouble_Copy:'_' after 'E'",
    "__Pyx__PyUnicode_AsDouble_Copy:'_' before 'e'",
    "__Pyx__PyUnicode_AsDouble_Copy:'_' before 'E'",
}


def rule_uscore(ctx, pending=False, floor=None):
    """pending=False: the obligations that hold on today's tree (registered).
    pending=True : the obligations of FINDING_1 (exponent sign followed by '_' in the bytes/ASCII parser; the non-ASCII parser) —
                   NOT registered in run() until the finding is resolved."""
    rid = 'C13-USCORE' + ('-PENDING' if pending else '')
    r = Rule(rid, "optimised float(): the '_'-stripping copy loops (extracted automaton x strtod grammar x CPython separator rule, explored "
                  "completely) accept no text with an underscore that is not between two digits (CPython: ValueError; here a value would be returned)",
             floor if floor is not None else (10 if not pending else 1))
    funcs = _sep_functions(ctx)
    if not funcs:
        raise AnalysisError("no '_'-stripping character loop found in Cython/Utility/Optimize.c (pybytes_as_double / pyunicode_as_double moved?)")
    for name, d in funcs:
        loop = SepLoop(name, d.params, d.body)
        found, nstates = misplaced_separators(loop)
        for kind in ALL_KINDS:
            key = '%s:%s' % (name, "'_' %s %s" % kind)
            if (key in PENDING_FINDING) != pending:
                continue
            r.inst(key, sample='%s (%d product states explored)' % (key, nstates))
            if kind in found:
                w = found[kind]
                r.violate(key, 'Cython/Utility/Optimize.c', d.line,
                          "%s accepts an underscore %s %s: e.g. for the text %r the copy loop reports no parse error and the stripped text %r is a "
                          "complete float literal, so the optimised float() returns a value where CPython raises ValueError "
                          "(underscores are only allowed between digits)" % (name, kind[0], kind[1], w, w.replace('_', '')))
    bad, _ = misplaced_separators(SepLoop('pc', ['const char* start', 'char* buffer', 'Py_ssize_t length'], _PC_BAD[1]))
    r.positive_control(('after', "'e'") in bad and ('before', "'E'") in bad and ('after', "'.'") not in bad and ('before', 'end') not in bad,
                       "a loop whose punctuation class lacks 'e'/'E' accepts 1_e5 / 1e_5 but not 1._5 / 1_")
    return r


# ------------------------------------------------------------------------------------------------------------ C13-NONEARG
from . import pC02 as P
from ..engine.pyindex import walk_no_nested

_PURE_STR = {'lstrip', 'rstrip', 'strip', 'isdecimal', 'isdigit', 'isnumeric', 'isidentifier', 'lower', 'upper', 'startswith', 'endswith',
             'replace', 'format', 'join', 'split', 'removeprefix', 'removesuffix', 'zfill'}


class NodeVal:
    """An ExprNode built by the analysed code: class name + the keyword values that could be evaluated."""

    def __init__(self, cls, kw):
        self.cls, self.kw = cls, kw

    def __repr__(self):
        return '%s(%s)' % (self.cls, ', '.join('%s=%r' % kv for kv in sorted(self.kw.items()) if kv[1] is not P.UNKNOWN))


class _Fork(Exception):
    def __init__(self, key):
        self.key = key


class Ev2(P.Ev):
    """P.Ev + pure str methods + isinstance on builtin types + node constructors (ExprNodes.X(...), ExprNodes.X.for_*(...)) resolved
    through the index and kept as NodeVal records."""

    def __init__(self, ix, env, atoms):
        def on_atom(t, n):
            raise _Fork(t)
        P.Ev.__init__(self, env, atoms=atoms, symbols=True, on_atom=on_atom)
        self.ix = ix

    def e_Attribute(self, n):
        try:
            v = self.ev(n.value)
        except P.Unknown:
            raise
        if isinstance(v, str) and n.attr in _PURE_STR:
            return getattr(v, n.attr)
        return P.Ev.e_Attribute(self, n)

    def _node_class(self, sym):
        parts = sym.name.split('.')
        for i in range(len(parts)):
            if parts[i] == 'ExprNodes' and i + 1 < len(parts):
                try:
                    c = self.ix.cls('ExprNodes', parts[i + 1])
                except AnalysisError:
                    return None, None
                return c, parts[i + 2:]
        return None, None

    def e_Call(self, n):
        if isinstance(n.func, ast.Name) and n.func.id == 'isinstance' and len(n.args) == 2:
            v = self.ev(n.args[0])
            t = self.ev(n.args[1])
            ts = t if isinstance(t, tuple) else (t,)
            if isinstance(v, NodeVal):
                names = []
                for x in ts:
                    if not isinstance(x, P.Sym):
                        raise P.Unknown(P._txt(n))
                    names.append(x.name.split('.')[-1])
                c = self.ix.cls('ExprNodes', v.cls)
                return any(k.name in names for k in self.ix.mro(c))
            if all(isinstance(x, type) for x in ts) and not isinstance(v, (P.Sym, P.Obj)) and v is not P.UNKNOWN:
                return isinstance(v, tuple(ts))
            raise P.Unknown(P._txt(n))
        try:
            f = self.ev(n.func)
        except P.Unknown:
            f = None
        if isinstance(f, P.Sym):
            c, rest = self._node_class(f)
            if c is not None:
                kw = {}
                for k in n.keywords:
                    if k.arg:
                        try:
                            kw[k.arg] = self.ev(k.value)
                        except P.Unknown:
                            kw[k.arg] = P.UNKNOWN
                if not rest:
                    return NodeVal(c.name, kw)
                if len(rest) == 1:
                    found = self.ix.find_method(c, rest[0])
                    if found:
                        owner, fn = found
                        if any(isinstance(d, ast.Name) and d.id == 'classmethod' for d in fn.decorator_list):
                            return self._inline_classmethod(c, fn, n, kw)
        return P.Ev.e_Call(self, n)

    def _inline_classmethod(self, c, fn, call, kw, depth=0):
        params = [a.arg for a in fn.args.args]
        env = {params[0]: P.Sym('ExprNodes.' + c.name)}
        defaults = fn.args.defaults
        for p, d in zip(params[len(params) - len(defaults):], defaults):
            try:
                env[p] = Ev2(self.ix, {}, {}).ev(d)
            except (P.Unknown, _Fork):
                env[p] = P.UNKNOWN
        for p, a in zip(params[1:], call.args):
            try:
                env[p] = self.ev(a)
            except P.Unknown:
                env[p] = P.UNKNOWN
        env.update(kw)
        sub = Ev2(self.ix, env, {})
        for s in fn.body:
            if isinstance(s, ast.Return) and isinstance(s.value, ast.Call):
                try:
                    return sub.ev(s.value)
                except _Fork:
                    raise P.Unknown(P._txt(call))
            if isinstance(s, (ast.Assert, ast.Expr)):
                continue
            raise P.Unknown(P._txt(call))
        raise P.Unknown(P._txt(call))


def helper_paths(ix, fn, env0, limit=256):
    """All paths through a helper method for one call site.  -> [(atoms, events)]; events:
    ('store', attr, value, base name), ('bind', name, NodeVal)"""
    out = []
    todo = [dict()]
    n = 0
    while todo:
        d = todo.pop()
        n += 1
        if n > limit:
            raise AnalysisError('%s: more than %d paths' % (fn.name, limit))
        env = dict(env0)
        atoms = dict(d)
        events = []
        ev = Ev2(ix, env, atoms)

        def block(stmts):
            for s in stmts:
                if isinstance(s, ast.If):
                    r = block(s.body if ev.truth(s.test) else s.orelse)
                    if r:
                        return r
                elif isinstance(s, ast.Return):
                    return 'return'
                elif isinstance(s, ast.Raise):
                    return 'raise'
                elif isinstance(s, ast.Assign):
                    try:
                        v = ev.ev(s.value)
                    except P.Unknown:
                        v = P.UNKNOWN
                    for t in s.targets:
                        if isinstance(t, ast.Name):
                            env[t.id] = v
                            if isinstance(v, NodeVal):
                                events.append(('bind', t.id, v))
                        elif isinstance(t, ast.Attribute) and isinstance(t.value, ast.Name):
                            events.append(('store', t.attr, v, t.value.id))
                        elif isinstance(t, (ast.Tuple, ast.List)):
                            for x in ast.walk(t):
                                if isinstance(x, ast.Name):
                                    env[x.id] = P.UNKNOWN
                elif isinstance(s, ast.AugAssign):
                    if isinstance(s.target, ast.Name):
                        env[s.target.id] = P.UNKNOWN
                elif isinstance(s, (ast.Expr, ast.Pass, ast.Assert)):
                    continue
                else:
                    raise AnalysisError('%s: statement kind %s is outside the modelled helper subset' % (fn.name, type(s).__name__))
            return None
        try:
            block(fn.body)
        except _Fork as f:
            for b in (False, True):
                d2 = dict(d)
                d2[f.key] = b
                todo.append(d2)
            continue
        out.append((atoms, events))
    return out


def _c_const(v):
    """normal form of a value used as a C integer constant / name in emitted code"""
    if isinstance(v, bool):
        return None
    if isinstance(v, int):
        return str(v)
    if isinstance(v, str):
        t = v.strip()
        if re.fullmatch(r'[+-]?\d+', t):
            return str(int(t))
        return t
    return None


def channel_readers(ix, attr):
    """functions that take a parameter named like the channel and *use* it (not only forward it by keyword):
    -> [(module, qualname, fn, mode)]  mode: 'truth' (tested by truthiness) | 'notnone' | 'asserted-absent' | 'used'"""
    out = []
    for m in ix.modules.values():
        if not m.name.startswith('Cython.Compiler'):
            continue
        for qn, owner, fn in ix.functions_of(m):
            if attr not in [a.arg for a in fn.args.args + fn.args.kwonlyargs]:
                continue
            uses = []
            parents = {}
            for x in walk_no_nested(fn):
                for ch in ast.iter_child_nodes(x):
                    parents[id(ch)] = x
            for x in walk_no_nested(fn):
                if isinstance(x, ast.Name) and x.id == attr and isinstance(x.ctx, ast.Load):
                    par = parents.get(id(x))
                    if isinstance(par, ast.keyword) and par.arg == attr:
                        continue            # forwarded unchanged
                    uses.append((x, par))
            if not uses:
                continue
            mode = 'used'
            for x, par in uses:
                if isinstance(par, (ast.If, ast.IfExp, ast.While)) and par.test is x:
                    mode = 'truth'
                elif isinstance(par, ast.BoolOp):
                    mode = 'truth'
                elif isinstance(par, ast.UnaryOp) and isinstance(par.op, ast.Not):
                    gp = parents.get(id(par))
                    mode = 'asserted-absent' if isinstance(gp, ast.Assert) else 'truth'
                elif isinstance(par, ast.Compare) and len(par.ops) == 1 and isinstance(par.ops[0], (ast.Is, ast.IsNot)) \
                        and isinstance(par.comparators[0], ast.Constant) and par.comparators[0].value is None and mode == 'used':
                    mode = 'notnone'
            out.append((m, qn, fn, mode))
    return out


def none_ternary_problem(fn, attr):
    """In a reader: the C text built from the channel value must select it exactly when the source IS None.
    -> None | problem text | 'no-template' when no conditional template is found."""
    for x in walk_no_nested(fn):
        if isinstance(x, ast.BinOp) and isinstance(x.op, ast.Mod) and isinstance(x.left, ast.Constant) and isinstance(x.left.value, str) \
                and '?' in x.left.value and isinstance(x.right, ast.Tuple):
            names = [P._txt(e) for e in x.right.elts]
            if attr not in names:
                continue
            tpl = x.left.value
            n = 0

            def sub(m):
                nonlocal n
                n += 1
                return '__ph%d' % (n - 1)
            text = re.sub(r'%[sdr]', sub, tpl)
            if n != len(names):
                return 'template %r has %d placeholders for %d values' % (tpl, n, len(names))
            try:
                e = cexpr.parse(text)
            except cexpr.ParseError as ex:
                raise AnalysisError('%s: cannot parse the conditional template %r (%s)' % (fn.name, tpl, ex))
            while e[0] == 'call' and e[1] in ('likely', 'unlikely') and len(e[2]) == 1:
                e = e[2][0]
            if e[0] != 'tern':
                return 'template %r is not a conditional expression' % tpl
            cond, a, b = e[1], e[2], e[3]
            ph = '__ph%d' % names.index(attr)
            neg = False
            while True:
                if cond[0] == 'un' and cond[1] == '!':
                    neg, cond = not neg, cond[2]
                elif cond[0] == 'call' and cond[1] in ('likely', 'unlikely') and len(cond[2]) == 1:
                    cond = cond[2][0]
                else:
                    break
            is_none_test = None
            if cond[0] == 'call' and re.search(r'IsNone$|Is_None$', cond[1]):
                is_none_test = True
            elif cond[0] == 'bin' and cond[1] in ('==', '!=') and any(s[0] == 'id' and s[1] == 'Py_None' for s in (cond[2], cond[3])):
                is_none_test = cond[1] == '=='
            if is_none_test is None:
                return 'the condition of %r is not a test for None' % tpl
            selects_on_none = a if (is_none_test != neg) else b
            other = b if selects_on_none is a else a
            has = lambda t: any(s[0] == 'id' and s[1] == ph for s in cexpr.walk(t))
            if not has(selects_on_none) or has(other):
                return 'the special value is selected when the argument is NOT None (template %r with %s)' % (tpl, ', '.join(names))
            return None
    return 'no-template'


def rule_nonearg(ctx, floor=8):
    r = Rule('C13-NONEARG', "argument-injection helpers: where a literal None selects the default, a run-time None does too — the C value stored for "
             "the consumer (a) exists on the coercion path, (b) equals the default injected statically, (c) passes the consumer's own presence "
             "test (a falsy 0 tested by truthiness is dropped), and the consumer's C conditional selects it exactly for None", floor)
    ix = ctx.index
    cls = ix.cls('Optimize', 'OptimizeBuiltinCalls')
    coercion = ix.cls('ExprNodes', 'CoercionNode')
    # channels: attributes of coercion nodes with a class default of None that a method of the optimiser stores on a foreign node
    channels = {}
    for name, fn in cls.methods.items():
        for s in walk_no_nested(fn):
            if isinstance(s, ast.Assign):
                for t in s.targets:
                    if isinstance(t, ast.Attribute) and isinstance(t.value, ast.Name) and t.value.id != 'self':
                        owners = [c for c in ix.subclasses(coercion) if t.attr in c.attrs
                                  and isinstance(c.attrs[t.attr], ast.Constant) and c.attrs[t.attr].value is None]
                        if owners:
                            channels.setdefault(t.attr, {})[name] = fn
    if not channels:
        raise AnalysisError('no optimiser method stores a None-defaulted attribute on a coercion node (special_none_cvalue protocol moved?)')
    for attr, helpers in sorted(channels.items()):
        readers = channel_readers(ix, attr)
        modes = {mode for _, _, _, mode in readers if mode in ('truth', 'notnone', 'used')}
        if not readers or not modes:
            raise AnalysisError('channel %s has no consumer that uses the value' % attr)
        needs_truth = 'truth' in modes
        for m, qn, fn, mode in readers:
            if mode == 'asserted-absent':
                continue
            key = '%s.%s:%s:none-selects-value' % (m.short, qn, attr)
            prob = none_ternary_problem(fn, attr)
            if prob == 'no-template':
                r.info('%s uses %s without a %%-template conditional (not modelled)' % (qn, attr))
                continue
            r.inst(key, sample='%s (%s tested by %s)' % (key, attr, mode))
            if prob:
                r.violate(key, m.rel, fn.lineno, '%s.%s: %s — a run-time None would be converted (TypeError) and every other value replaced by the default'
                          % (m.short, qn, prob))
        for hname, hfn in sorted(helpers.items()):
            params = [a.arg for a in hfn.args.args]
            defaults = {}
            for p, d in zip(params[len(params) - len(hfn.args.defaults):], hfn.args.defaults):
                if isinstance(d, ast.Constant):
                    defaults[p] = d.value
            sites = []
            for cname, cfn in sorted(cls.methods.items()):
                for c in walk_no_nested(cfn):
                    if isinstance(c, ast.Call) and isinstance(c.func, ast.Attribute) and c.func.attr == hname \
                            and isinstance(c.func.value, ast.Name) and c.func.value.id == 'self':
                        sites.append((cname, c))
            if not sites:
                raise AnalysisError('%s is never called' % hname)
            seen_keys = {}
            for cname, c in sites:
                env = {p: P.UNKNOWN for p in params}
                env.update(defaults)
                bound = {}
                for p, a in zip(params[1:], c.args):
                    bound[p] = a
                for k in c.keywords:
                    if k.arg:
                        bound[k.arg] = k.value
                for p, a in bound.items():
                    if isinstance(a, ast.Constant):
                        env[p] = a.value
                    elif isinstance(a, ast.UnaryOp) and isinstance(a.op, ast.USub) and isinstance(a.operand, ast.Constant):
                        env[p] = -a.operand.value
                lits = ','.join('%s=%r' % (p, env[p]) for p in params[1:] if env.get(p) is not P.UNKNOWN and p in bound)
                key = 'OptimizeBuiltinCalls.%s<-%s(%s)' % (hname, cname, lits)
                seen_keys[key] = seen_keys.get(key, 0) + 1
                if seen_keys[key] > 1:
                    key += '#%d' % seen_keys[key]
                paths = helper_paths(ix, hfn, env)
                static_none = [(a, e) for a, e in paths if any(re.search(r'\.is_none$', k) and v for k, v in a.items())]
                stores = [(a, e, ev) for a, e in paths for ev in e if ev[0] == 'store' and ev[1] == attr]
                nodes = sorted({_c_const(ev[2].kw.get('value')) for a, e in paths for ev in e
                                if ev[0] == 'bind' and isinstance(ev[2], NodeVal) and _c_const(ev[2].kw.get('value')) is not None})
                r.inst(key, sample='%s: %d paths, static defaults %s, run-time None value %s' % (
                    key, len(paths), nodes, sorted({repr(ev[2]) for _, _, ev in stores})), nontrivial=bool(static_none or stores))
                if static_none and not stores:
                    r.violate(key, 'Cython/Compiler/Optimize.py', c.lineno,
                              '%s maps a literal None to the default %s but stores no %s on the coercion path: the same call with a variable that is '
                              'None at run time raises TypeError where the builtin method accepts None' % (hname, nodes, attr))
                for a, e, ev in stores:
                    v = ev[2]
                    if v is P.UNKNOWN or isinstance(v, (P.Sym, NodeVal)):
                        r.info('%s: value stored in %s is not a literal table value (not decided)' % (key, attr))
                        continue
                    if v is None:
                        continue
                    if needs_truth and not v:
                        r.violate(key, 'Cython/Compiler/Optimize.py', c.lineno,
                                  '%s stores %s = %r for a run-time None; the consumer (%s) tests the value by truthiness, so %r counts as "absent" and '
                                  'the None check is not generated: passing a variable that is None raises TypeError where the builtin method uses the default'
                                  % (hname, attr, v, ', '.join(sorted(q for _, q, _, md in readers if md == 'truth')), v))
                        continue
                    cv = _c_const(v)
                    if cv is None:
                        r.violate(key, 'Cython/Compiler/Optimize.py', c.lineno, '%s stores %s = %r, which is not a C constant' % (hname, attr, v))
                    elif nodes and cv not in nodes:
                        r.violate(key, 'Cython/Compiler/Optimize.py', c.lineno,
                                  '%s: a run-time None yields the C value %s but an omitted argument / a literal None yields %s — the same call gives '
                                  'different results depending on how None is spelt' % (hname, cv, ' / '.join(nodes)))
    # positive control: a helper that stores the integer 0 for a truthiness-testing consumer
    pc = ast.parse("def h(self, node, args, arg_index, type, default_value, none_is_default=True):\n"
                   "    if len(args) == arg_index or (none_is_default and args[arg_index].is_none):\n"
                   "        int_node = ExprNodes.IntNode(node.pos, value=str(default_value), type=type)\n"
                   "    else:\n"
                   "        arg = args[arg_index].coerce_to(type, self.current_env())\n"
                   "        arg.special_none_cvalue = int(default_value)\n").body[0]
    ps = helper_paths(ix, pc, {'self': P.UNKNOWN, 'node': P.UNKNOWN, 'args': P.UNKNOWN, 'arg_index': 2, 'type': P.UNKNOWN,
                               'default_value': '0', 'none_is_default': True})
    vals = [ev[2] for a, e in ps for ev in e if ev[0] == 'store']
    bound = [ev[2].kw.get('value') for a, e in ps for ev in e if ev[0] == 'bind']
    r.positive_control(vals and all(v == 0 and not isinstance(v, bool) for v in vals) and '0' in bound
                       and none_ternary_problem(ast.parse("def f(s, v, c):\n    return '(IsNone(%s) ? (%s) : (%s))' % (s, c, v)").body[0], 'v') is not None,
                       'stored integer 0 is seen as falsy while the static default is "0"; a swapped conditional template is rejected')
    return r


# ------------------------------------------------------------------------------------------------------------ C13-POPIX
# list.pop(i) / obj.pop(i) with a C integer index: the container helpers of Optimize.c that take the *user's* index as a Py_ssize_t
# (no wraparound / boundscheck flag parameters: Python semantics always) are walked with the index-status engine of C15
# (raw / length-added / bounds-tested; path enumeration per preprocessor configuration).  Obligations, all four necessary for
# `L.pop(i)` == list.pop for every i:
#   unchecked  an item is only touched through a raw accessor after __Pyx_is_valid_index (or an inline range test) succeeded on that index
#   nowrap     a raw / non-wrapping accessor never gets an index that may still be negative
#   reject     an index rejected by the bounds test without having had the length added goes to the generic (wrapping) fallback
#   rewrap     an index that had the length added reaches a wrapping consumer (PyLong_FromSsize_t -> generic pop, PySequence_*) only
#              when known non-negative — otherwise -2*len <= i < -len is wrapped twice and an element is silently removed (seed C13d)
INDEX_HELPER_FILES = ('Optimize.c', 'Builtins.c')


def index_helper_family(ctx):
    """C functions of the container-helper files with a Py_ssize_t value parameter and no flag parameters -> [CFun]"""
    from . import pC15 as X
    out, seen = [], set()
    for cname, decls in sorted(ctx.cat.decls.items()):
        for d in decls:
            if d.kind != 'func' or d.file not in INDEX_HELPER_FILES or cname in seen or '{{' in cname:
                continue
            seen.add(cname)
            for f in X.resolve_c(ctx.cat, cname, ('func',))[:1]:
                tp = f.typed_params()
                names = f.param_names()
                if 'wraparound' in names or 'boundscheck' in names:
                    continue
                if any(t.strip() == 'Py_ssize_t' for t, n in tp) and f.body:
                    out.append(f)
    return out


_POPFLOW = []


def _popflow_class():
    """OnceFlow restricted to accesses whose index is a plain variable: `&ITEM(L, cix+1)` inside a memmove is address arithmetic on a
    position derived from a checked index, not an access with the user's index."""
    if not _POPFLOW:
        from . import pC15 as X, sC15

        class PopFlow(sC15.OnceFlow):
            def consume(self, kind, accessor, argexpr, v, st):
                if X.strip_wrappers(argexpr)[0] != 'id':
                    self.events.add(('derived', accessor))
                    return
                return super().consume(kind, accessor, argexpr, v, st)
        _POPFLOW.append(PopFlow)
    return _POPFLOW[0]


def _run_index_flow(name, typed, body_text):
    from . import pC15 as X
    problems, events, paths = {}, set(), 0
    for cfg, text in X.pp_configs(body_text):
        tree = X.parse_c_function_body(text)
        fl = _popflow_class()(name, typed, tree, {}, {}, derived={})
        fl.run(1, 1, cfg)
        for k, v in fl.problems.items():
            problems.setdefault(k, v)
        events |= fl.events
        paths += fl.paths
    return problems, events, paths


PC_POPIX = '''{
    Py_ssize_t size = PyList_GET_SIZE(L);
    if (ix < 0) { ix += size; }
    if (likely(__Pyx_is_valid_index(ix, size))) {
        PyObject* v = PyList_GET_ITEM(L, ix);
        return v;
    }
    return __Pyx__PyObject_PopNewIndex(L, PyLong_FromSsize_t(ix));
}'''
PC_POPIX_OK = '''{
    Py_ssize_t size = PyList_GET_SIZE(L);
    Py_ssize_t cix = ix;
    if (cix < 0) { cix += size; }
    if (likely(__Pyx_is_valid_index(cix, size))) {
        PyObject* v = PyList_GET_ITEM(L, cix);
        return v;
    }
    return __Pyx__PyObject_PopNewIndex(L, PyLong_FromSsize_t(ix));
}'''
PC_POPIX_RAW = '''{
    Py_ssize_t size = PyList_GET_SIZE(L);
    Py_ssize_t cix = ix;
    if (cix < 0) { cix += size; }
    if (likely(cix < size)) {
        PyObject* v = PyList_GET_ITEM(L, cix);
        return v;
    }
    return __Pyx__PyObject_PopNewIndex(L, PyLong_FromSsize_t(ix));
}'''


def rule_popix(ctx, floor=2):
    from . import pC15 as X
    r = Rule('C13-POPIX', 'container helpers taking the user\'s index as Py_ssize_t (list.pop(i) fast path): item access only after a successful bounds test on a '
             'wrapped index; a rejected or length-added index reaches the generic (self-wrapping) fallback only in its original form - the length is never added twice',
             floor)
    fam = index_helper_family(ctx)
    if not fam:
        raise AnalysisError('no Py_ssize_t-taking container helper found in %s' % ', '.join(INDEX_HELPER_FILES))
    members = 0
    for f in fam:
        body = f.expanded_body()
        try:
            problems, events, paths = _run_index_flow(f.name, f.typed_params(), body)
        except AnalysisError as e:
            # loops / switch / goto: not an index fast path of the modelled shape (the float parsers, set iteration); nothing is claimed about them
            r.info('%s: outside the modelled C subset (%s)' % (f.name, str(e)[:80]))
            continue
        accesses = sorted(acc for kind, acc in events if kind in ('raw', 'nonwrap'))
        consumers = sorted(acc for kind, acc in events if kind == 'consumer')
        tests = sorted(acc for kind, acc in events if kind == 'validtest')
        # an index helper is a function that validates an index or hands one to a wrapping consumer; helpers that merely store at a
        # position they computed themselves (list append) are not
        if not ((tests or consumers) and (accesses or consumers)):
            continue
        members += 1
        for acc in accesses:
            r.inst('%s:access:%s' % (f.name, acc), sample='%s reaches %s (%d paths, bounds tests on %s)' % (f.name, acc, paths, ', '.join(tests) or '-'))
        for acc in consumers:
            r.inst('%s:fallback:%s' % (f.name, acc), sample='%s hands an index to %s' % (f.name, acc))
        for k, msg in sorted(problems.items()):
            r.violate('%s:%s' % (f.name, k), f.file, f.line, msg)
    if not members:
        raise AnalysisError('no container helper validates a Py_ssize_t index any more (pop_index moved?)')
    typed = [('PyObject *', 'L'), ('PyObject *', 'py_ix'), ('Py_ssize_t', 'ix')]
    bad, _, _ = _run_index_flow('positive_control', typed, PC_POPIX)
    good, _, _ = _run_index_flow('negative_control', typed, PC_POPIX_OK)
    raw, _, _ = _run_index_flow('positive_control_2', typed, PC_POPIX_RAW)
    r.positive_control('rewrap:PyLong_FromSsize_t' in bad and not good and any(k.startswith('unchecked:') for k in raw),
                       'index wrapped in place and handed to the generic fallback is reported, a wrapped copy is not; an item access behind a one-sided test is reported')
    return r


# ------------------------------------------------------------------------------------------------------------ tree-builder based rules
# (engine: sa/rules/pC01.py TB - the rewriting functions are run on symbolic nodes by an interpreter of the checker, never imported)
from . import pC01 as TBM


def rule_minmax(ctx):
    """min()/max() belong to the covered builtins of C13 as well: same decision as C01-MINMAX, registered under the C13 id."""
    return TBM.rule_minmax(ctx, rid='C13-MINMAX')


PC_ANYALL = '''
class K:
    def _handle_simple_function_any(self, node, pos_args):
        return self._t(node, pos_args, True)
    def _t(self, node, pos_args, is_any):
        gen = pos_args[0]
        loop_node = gen.def_node.gbody.body
        yield_expression, yield_stat_node = _find_single_yield_expression(loop_node)
        test_node = Nodes.IfStatNode(yield_expression.pos, else_clause=None, if_clauses=[Nodes.IfClauseNode(
            yield_expression.pos, condition=yield_expression,
            body=Nodes.ReturnStatNode(node.pos, value=ExprNodes.BoolNode(yield_expression.pos, value=not is_any)))])
        loop_node.else_clause = Nodes.ReturnStatNode(node.pos, value=ExprNodes.BoolNode(yield_expression.pos, value=is_any))
        Visitor.recursively_replace_node(gen, yield_stat_node, test_node)
        return ExprNodes.InlinedGeneratorExpressionNode(gen.pos, gen=gen, orig_func='any')
'''


def _anyall_table(ix, mod, cls, hname):
    """run the any()/all() handler on a symbolic generator expression -> [(stop-on-element-truth, value returned on stop, value when exhausted)] per replacing path"""
    T = TBM
    holder = {}

    def make_args():
        loop = T.SNode('loop', cls='ForInStatNode')
        gbody = T.SNode('gbody', {'body': loop}, cls='GeneratorBodyDefNode')
        dn = T.SNode('def_node', {'gbody': gbody}, cls='GeneratorDefNode')
        gen = T.SNode('genexpr', {'def_node': dn, 'expr_scope': T.Opaque('scope'), 'has_local_scope': True}, cls='GeneratorExpressionNode')
        node = T.SNode('call', cls='SimpleCallNode')
        holder.update(loop=loop, gen=gen, node=node)
        holder['yexpr'] = T.SNode('element_test', cls='NameNode')
        holder['ystat'] = T.SNode('yield_stat', cls='ExprStatNode')
        return [T.self_node(), node, [gen]], {}

    def find_yield(tb, args, kw):
        return (holder['yexpr'], holder['ystat'])
    rows = []
    for res in T.explore(ix, mod, cls, cls.methods[hname], make_args, stubs={'_find_single_yield_expression': find_yield}, with_tb=True):
        d, (kind, v), tb = res
        if kind != 'return' or v is holder['node']:
            continue
        if not (isinstance(v, T.BNode)):
            raise AnalysisError('%s returns %r' % (hname, v))
        reps = [c for c in tb.calls if c[0].endswith('recursively_replace_node')]
        if len(reps) != 1 or len(reps[0][1]) != 3:
            raise AnalysisError('%s: the yield statement is not replaced exactly once through Visitor.recursively_replace_node' % hname)
        _, (root, old, new), _ = reps[0]
        if old is not holder['ystat']:
            raise AnalysisError('%s replaces %r instead of the yield statement' % (hname, old))

        def boolval(ret):
            if not (isinstance(ret, T.BNode) and ret.cls == 'ReturnStatNode'):
                raise AnalysisError('%s: %r where a ReturnStatNode is expected' % (hname, ret))
            b = ret.fields.get('value')
            if not (isinstance(b, T.BNode) and b.cls == 'BoolNode' and isinstance(b.fields.get('value'), bool)):
                raise AnalysisError('%s: the returned value %r is not a constant BoolNode' % (hname, b))
            return b.fields['value']
        if not (isinstance(new, T.BNode) and new.cls == 'IfStatNode' and isinstance(new.fields.get('if_clauses'), list) and len(new.fields['if_clauses']) == 1
                and new.fields.get('else_clause') is None):
            raise AnalysisError('%s: the yield statement is replaced by %r (one-clause IfStatNode without else expected)' % (hname, new))
        clause = new.fields['if_clauses'][0]
        cond = clause.fields.get('condition')
        stop_on = True
        while isinstance(cond, T.BNode) and cond.cls == 'NotNode':
            stop_on = not stop_on
            cond = cond.fields.get('operand')
        if cond is not holder['yexpr']:
            raise AnalysisError('%s: the loop test %r is not the yielded expression' % (hname, cond))
        els = holder['loop'].facts.get('else_clause')
        rows.append((stop_on, boolval(clause.fields.get('body')), boolval(els), v.fields.get('orig_func')))
    return rows


ANYALL_REF = {'any': (True, True, False), 'all': (False, False, True)}      # library reference: any() / all() "equivalent to" loops


def rule_anyall(ctx, floor=2):
    T = TBM
    r = Rule('C13-ANYALL', 'any(genexpr) / all(genexpr) inlined into a loop (EarlyReplaceBuiltinCalls): the loop stops on the element truth value, returns the constant '
             'and falls back to the constant that the library reference gives for any() / all()', floor)
    ix = ctx.index
    mod = ix.mod('Optimize')
    cls = ix.cls('Optimize', 'EarlyReplaceBuiltinCalls')

    def check(rule, klass, name, ref, rel, report=True):
        hname = '_handle_simple_function_' + name
        if hname not in klass.methods:
            rule.info('%s() is not inlined' % name)
            return []
        try:
            rows = _anyall_table(ix, mod, klass, hname)
        except T.TBGiveUp as e:
            raise AnalysisError('C13-ANYALL: %s leaves the modelled subset of the tree-builder interpreter: %s' % (hname, e))
        key = '%s.%s' % (klass.name, hname)
        rule.inst(key, sample='%s: %s' % (key, rows), nontrivial=bool(rows))
        probs = []
        for stop_on, early, late, orig in rows:
            if (stop_on, early, late) != ref:
                probs.append('%s(genexpr) is expanded into a loop that stops at the first %s element returning %s and returns %s when exhausted; the builtin stops at the '
                             'first %s element returning %s, else %s' % (name, 'true' if stop_on else 'false', early, late, 'true' if ref[0] else 'false', ref[1], ref[2]))
        if report:
            for m in probs:
                rule.violate(key + ':table', rel, klass.methods[hname].lineno, m)
        return probs
    for name, ref in sorted(ANYALL_REF.items()):
        check(r, cls, name, ref, mod.rel)
    k = TBM._MiniClass(ast.parse(PC_ANYALL).body[0])
    pc = Rule('x', 'x')
    r.positive_control(bool(check(pc, k, 'any', ANYALL_REF['any'], 'pc', report=False)), 'an any() loop with the two constants exchanged is reported')
    return r


# ---- C13-HTAB: the calls emitted by the method handlers, per number of arguments, against the reference of the replaced method
PYMAX = 'PY_SSIZE_T_MAX'
# (type in the handler name, method) -> {'defaults': {argument position: value injected when the argument is omitted}, 'tail': [constants appended after the
#  user's arguments]}.  Positions count the receiver as 0.  Sources: Python library reference (str.startswith/endswith/find/rfind/count: "optional arguments start
#  and end are interpreted as in slice notation" - the whole string is [0, PY_SSIZE_T_MAX) after clamping; str.split(sep=None, maxsplit=-1); str.replace(old, new,
#  count=-1); dict.get(key, default=None); dict.setdefault(key, default=None)) and the C-API reference (PyUnicode_Tailmatch: direction -1 prefix, 1 suffix;
#  PyUnicode_Find: direction 1 forward, -1 backward; PyUnicode_Split: sep NULL splits at whitespace, maxsplit negative = no limit; PyUnicode_Replace: maxcount -1 = all).
HTAB_REF = {
    ('unicode', 'endswith'): {'defaults': {2: 0, 3: PYMAX}, 'tail': [1]},
    ('unicode', 'startswith'): {'defaults': {2: 0, 3: PYMAX}, 'tail': [-1]},
    ('bytes', 'endswith'): {'defaults': {2: 0, 3: PYMAX}, 'tail': [1]},
    ('bytes', 'startswith'): {'defaults': {2: 0, 3: PYMAX}, 'tail': [-1]},
    ('bytearray', 'endswith'): {'defaults': {2: 0, 3: PYMAX}, 'tail': [1]},
    ('bytearray', 'startswith'): {'defaults': {2: 0, 3: PYMAX}, 'tail': [-1]},
    ('unicode', 'find'): {'defaults': {2: 0, 3: PYMAX}, 'tail': [1]},
    ('unicode', 'rfind'): {'defaults': {2: 0, 3: PYMAX}, 'tail': [-1]},
    ('unicode', 'count'): {'defaults': {2: 0, 3: PYMAX}, 'tail': []},
    ('unicode', 'split'): {'defaults': {1: 'NULL', 2: -1}, 'tail': []},
    ('unicode', 'replace'): {'defaults': {3: -1}, 'tail': []},
    ('dict', 'get'): {'defaults': {2: 'None'}, 'tail': []},
    ('dict', 'setdefault'): {'defaults': {2: 'None'}, 'tail': None},
}
# methods whose result is a value of the program: a helper that returns a C status code may only replace them when the result is not used
VALUE_METHODS = {'pop', 'get', 'setdefault', 'find', 'rfind', 'count', 'split', 'splitlines', 'join', 'replace', 'encode', 'decode', 'index'}
HANDLER_NAME = re.compile(r'^_handle_simple_method_([A-Za-z0-9]+)_(\w+)$')


def _const_of(v):
    """normal form of an injected argument node: int | 'PY_SSIZE_T_MAX' | 'NULL' | 'None' | True/False | None (not a constant)"""
    T = TBM
    if not isinstance(v, T.BNode):
        return None
    if v.cls == 'NullNode':
        return 'NULL'
    if v.cls == 'NoneNode':
        return 'None'
    if v.cls == 'BoolNode':
        return v.fields.get('value') if isinstance(v.fields.get('value'), bool) else None
    if v.cls == 'IntNode':
        x = v.fields.get('value')
        if isinstance(x, bool):
            return None
        if isinstance(x, int):
            return x
        if isinstance(x, str):
            t = x.strip()
            if re.fullmatch(r'[+-]?\d+', t):
                return int(t)
            return t
    return None


def handler_calls(ix, mod, cls, hname, nargs, result_used=True, none_at=None):
    """run one method handler for `nargs` arguments (receiver included) -> [(decisions, BNode call | 'unchanged' | other)]"""
    T = TBM

    def make_args():
        args = [T.SNode('a%d' % i, {'is_none': (i == none_at), 'is_literal': False, 'is_sequence_constructor': False}, cls='NameNode') for i in range(nargs)]
        node = T.SNode('call', {'is_temp': True, 'result_is_used': result_used}, cls='SimpleCallNode')
        return [T.self_node(), node, T.SNode('function', cls='AttributeNode'), args, False], {}
    out = []
    for d, (kind, v) in T.explore(ix, mod, cls, cls.methods[hname], make_args, limit=128):
        if kind == 'raise':
            out.append((d, 'raise:' + v))
        elif isinstance(v, T.SNode) and v.label == 'call':
            out.append((d, 'unchanged'))
        else:
            out.append((d, v))
    return out


def _owner_functype_return(ix, cls, ft):
    """declared return type name of a CFuncType class attribute referred to as self.<name> -> 'py_object_type' / 'c_int_type' ... or None"""
    T = TBM
    if not (isinstance(ft, T.SNode) and ft.label.startswith('self.')):
        return None
    found = ix.find_class_attr(cls, ft.label[5:])
    if not found:
        return None
    val = found[1]
    if isinstance(val, ast.Call) and val.args:
        a = val.args[0]
        return a.attr if isinstance(a, ast.Attribute) else (a.id if isinstance(a, ast.Name) else None)
    return None


def c_param_null_tested(ctx, cname, pos, depth=0):
    """does every configuration of the C function `cname` that mentions its parameter #pos test it against NULL (or only hand it on to functions that do /
    to C-API functions, whose contract is not ours to check)?  -> (known, ok, detail)"""
    from . import pC15 as X
    decls = [f for f in X.resolve_c(ctx.cat, cname, ('func',)) if f.body]
    if not decls or depth > 4:
        return False, True, 'no C definition in the utility catalogue'
    for f in decls:
        names = f.param_names()
        if pos >= len(names) or not names[pos] or len(names) != len(f.params or []):
            return False, True, 'parameter list of %s is not modelled' % cname
        p = re.escape(names[pos])
        body = f.expanded_body()
        for cfg, text in X.pp_configs(body):
            t = strip_c_comments(text)
            uses = [m.start() for m in re.finditer(r'\b%s\b' % p, t)]
            if not uses:
                continue
            tested = re.search(r'\(\s*(?:un)?likely\(\s*!?\s*%s\s*\)|if\s*\(\s*!?\s*%s\s*\)|\b%s\s*(?:==|!=)\s*NULL|\bNULL\s*(?:==|!=)\s*%s\b|\(\s*!?%s\s*\)\s*\?|\b%s\s*\?|[!(&|]\s*!%s\b|&&\s*%s\b|\|\|\s*%s\b'
                               % ((p,) * 9), t)
            if tested:
                continue
            # every use must be a complete argument of a call
            forwarded = []
            ok_all = True
            for callee, args, off in X.c_calls_in_text(t):
                for k, a in enumerate(args):
                    if re.fullmatch(r'\(?\s*%s\s*\)?' % p, a.strip()):
                        forwarded.append((callee, k))
            n_marker = len(re.findall(r'CYTHON_(?:MAYBE_)?UNUSED_VAR\(\s*%s\s*\)' % p, t))
            real = [(c, k) for c, k in forwarded if not c.startswith('CYTHON_')]
            if len(forwarded) < len(uses):
                ok_all = False
            for callee, k in real:
                if callee in ('Py_INCREF', 'Py_DECREF', 'Py_XINCREF', 'Py_CLEAR', '__Pyx_NewRef', 'Py_NewRef', '__Pyx_INCREF', '__Pyx_GOTREF'):
                    ok_all = False
                elif X.resolve_c(ctx.cat, callee, ('func',)):
                    known, ok, detail = c_param_null_tested(ctx, callee, k, depth + 1)
                    if known and not ok:
                        return True, False, detail
            if not ok_all:
                return True, False, 'configuration [%s] of %s uses parameter %r without testing it for NULL' % (cfg or 'default', cname, names[pos])
    return True, True, ''


# Methods whose behaviour depends on whether the optional argument was GIVEN even when the result of the call is not used (library reference): the helper that
# receives NULL for "not given" has to look at the parameter.  (For a call whose result is used every optional argument is observable through the result.)
ABSENT_OBSERVABLE = {
    ('dict', 'pop'): 'd.pop(key) raises KeyError(key) for a missing key, d.pop(key, default) does not',
    ('dict', 'setdefault'): 'the value stored for a missing key is the argument (None when omitted)',
}


def c_param_ignored(ctx, cname, pos):
    """-> (known, [configuration descriptions in which the C function `cname` never reads its parameter #pos (no use at all, or only inside an
    'unused variable' marker / a (void) cast)])"""
    from . import pC15 as X
    decls = [f for f in X.resolve_c(ctx.cat, cname, ('func',)) if f.body]
    if not decls:
        return False, []
    out = []
    for f in decls:
        names = f.param_names()
        if pos >= len(names) or not names[pos] or len(names) != len(f.params or []):
            return False, []
        p = re.escape(names[pos])
        for cfg, text in X.pp_configs(f.expanded_body()):
            if not _param_read_in(strip_c_comments(text), names[pos]):
                out.append(cfg or 'default')
    return True, out


def _param_read_in(text, name):
    """is the C identifier `name` read anywhere in `text` other than inside an unused-variable marker / a (void) cast"""
    p = re.escape(name)
    t = re.sub(r'\b(?:CYTHON_(?:MAYBE_)?UNUSED_VAR|Py_UNUSED|CYTHON_UNUSED)\s*\(\s*%s\s*\)' % p, '', text)
    t = re.sub(r'\(\s*void\s*\)\s*%s\b' % p, '', t)
    return bool(re.search(r'\b%s\b' % p, t))


def rule_htab(ctx, floor=85):
    T = TBM
    r = Rule('C13-HTAB', 'method handlers of OptimizeBuiltinCalls run per number of arguments (tree-builder interpreter): arguments the caller omitted are filled with the '
             'default of the replaced method, direction / flag constants agree with the method name and the C-API reference, NULL is only passed to a parameter the C helper '
             'tests, a status-returning helper is only used when the result is unused, and `is_<attr>` flags have the polarity of the attribute they are computed from', floor)
    ix = ctx.index
    mod = ix.mod('Optimize')
    cls = ix.cls('Optimize', 'OptimizeBuiltinCalls')
    gaveup = 0
    seen_null = set()
    seen_ignored = set()
    _violate = r.violate
    reported = set()

    def violate_once(key, *a, **k):
        if key not in reported:
            reported.add(key)
            _violate(key, *a, **k)
    r.violate = violate_once
    for hname, fn in sorted(cls.methods.items()):
        m = HANDLER_NAME.match(hname)
        if not m:
            continue
        tname, meth = m.group(1), m.group(2)
        ref = HTAB_REF.get((tname, meth))
        tables = {}
        for nargs in (1, 2, 3, 4, 5):
            for used in (True, False):
                try:
                    outs = handler_calls(ix, mod, cls, hname, nargs, used)
                except T.TBGiveUp as e:
                    gaveup += 1
                    if ref is not None:
                        raise AnalysisError('C13-HTAB: %s with %d arguments leaves the modelled subset of the tree-builder interpreter: %s' % (hname, nargs, e))
                    continue
                calls = [(d, v) for d, v in outs if isinstance(v, T.BNode) and v.cls == 'PythonCapiCallNode']
                if not calls:
                    continue
                key = 'OptimizeBuiltinCalls.%s:%d-args%s' % (hname, nargs, '' if used else ':result-unused')
                r.inst(key, sample='%s -> %s' % (key, sorted({v.args[1] for _, v in calls if len(v.args) > 1 and isinstance(v.args[1], str)})))
                for d, v in calls:
                    cname = v.args[1] if len(v.args) > 1 and isinstance(v.args[1], str) else None
                    cargs = v.fields.get('args')
                    if not isinstance(cargs, list):
                        continue
                    # ---- NULL only to parameters the helper tests
                    for i, a in enumerate(cargs):
                        if isinstance(a, T.BNode) and a.cls == 'NullNode' and cname and (cname, i) not in seen_null:
                            seen_null.add((cname, i))
                            known, ok, detail = c_param_null_tested(ctx, cname, i)
                            if known:
                                r.inst('null:%s:%d' % (cname, i), sample='%s passes NULL as argument %d of %s' % (hname, i + 1, cname))
                                if not ok:
                                    r.violate('OptimizeBuiltinCalls.%s:null:%s:%d' % (hname, cname, i), mod.rel, fn.lineno,
                                              '%s passes NULL as argument %d of %s for a call with %d argument(s), but %s: the helper dereferences NULL (crash) where the '
                                              'method uses its default' % (hname, i + 1, cname, nargs, detail))
                    # ---- NULL ("argument not given") only to a parameter the helper reads: a helper that ignores the parameter cannot tell m(a) from m(a, x)
                    for i, a in enumerate(cargs):
                        if isinstance(a, T.BNode) and a.cls == 'NullNode' and cname and i >= nargs and (cname, i, used) not in seen_ignored:
                            seen_ignored.add((cname, i, used))
                            known, cfgs = c_param_ignored(ctx, cname, i)
                            if not known:
                                continue
                            r.inst('null-read:%s:%d:%s' % (cname, i, 'used' if used else 'unused'),
                                   sample='%s passes NULL for the omitted argument %d to %s (result %s)' % (hname, i + 1, cname, 'used' if used else 'unused'))
                            if not cfgs:
                                continue
                            why = 'the result of the call depends on it' if used else ABSENT_OBSERVABLE.get((tname, meth))
                            if why is None:
                                r.info('%s passes NULL for an omitted argument to %s, which ignores that parameter, for a call whose result is unused: %s.%s is not in the '
                                       'table of methods whose omitted argument is observable without the result (not claimed)' % (hname, cname, tname, meth))
                                continue
                            r.violate('OptimizeBuiltinCalls.%s:null-ignored:%s:%d' % (hname, cname, i), mod.rel, fn.lineno,
                                      '%s replaces %s.%s(...) called with %d argument(s)%s by %s and passes NULL for the omitted argument %d, but %s never reads that parameter '
                                      '(configuration %s): the helper cannot tell the call without the argument from a call with it (%s), so the %d-argument form behaves '
                                      'like the form with a default' % (hname, tname, meth, nargs, '' if used else ' whose result is unused', cname, i + 1, cname,
                                                                        ', '.join('[%s]' % c for c in cfgs[:3]), why, nargs))
                    # ---- status-returning helper only when the result is unused
                    if used and meth in VALUE_METHODS and len(v.args) > 2:
                        rt = _owner_functype_return(ix, cls, v.args[2])
                        if rt in ('c_int_type', 'c_returncode_type', 'c_void_type'):
                            r.violate('OptimizeBuiltinCalls.%s:status-result:%s' % (hname, cname), mod.rel, fn.lineno,
                                      '%s replaces %s.%s(...) whose RESULT IS USED by %s, declared to return %s (a status code): the expression evaluates to the status '
                                      'instead of the value the method returns' % (hname, tname, meth, cname, rt))
                    # ---- flag polarity: IntNode/BoolNode computed from an attribute `x.<attr>` passed for a C parameter is_<attr> / <attr>
                    tables.setdefault((nargs, used, cname), []).append((d, cargs))
                    # ---- reference defaults / tail constants
                    if ref is not None and used:
                        tail = ref['tail']
                        want_len = None
                        for i, a in enumerate(cargs):
                            if i < nargs:
                                continue
                            c = _const_of(a)
                            if i in ref['defaults']:
                                want = ref['defaults'][i]
                                if c != want:
                                    r.violate('OptimizeBuiltinCalls.%s:default:%d' % (hname, i), mod.rel, fn.lineno,
                                              '%s.%s called with %d argument(s): argument %d of %s is filled with %r, the method\'s default corresponds to %r'
                                              % (tname, meth, nargs, i + 1, cname, c if c is not None else a, want))
                        if tail is not None:
                            nfix = max(list(ref['defaults']) + [nargs - 1]) + 1
                            got_tail = [_const_of(a) for a in cargs[nfix:]]
                            if got_tail != tail:
                                r.violate('OptimizeBuiltinCalls.%s:tail' % hname, mod.rel, fn.lineno,
                                          '%s.%s: the constant argument(s) after the user\'s arguments are %r, the C-API reference requires %r for this method '
                                          '(direction of the match / search)' % (tname, meth, got_tail, tail))
        # polarity across paths
        for (nargs, used, cname), rows in tables.items():
            if not cname or len(rows) < 2:
                continue
            from . import pC15 as X
            pnames = None
            for f in X.resolve_c(ctx.cat, cname, ('macro', 'func', 'proto')):
                pn = f.param_names()
                if pn and len(pn) == len(rows[0][1]):
                    pnames = pn
                    break
            if not pnames:
                continue
            for i, pn in enumerate(pnames):
                if not pn:
                    continue
                attr = pn[3:] if pn.startswith('is_') else pn
                if len(attr) < 4:
                    continue
                by = {}
                for d, cargs in rows:
                    keys = [k for k in d if isinstance(k, str) and k.endswith('.' + attr)]
                    if len(keys) != 1:
                        continue
                    c = _const_of(cargs[i])
                    if c is None:
                        continue
                    by.setdefault(d[keys[0]], set()).add(bool(c))
                if set(by) == {True, False}:
                    r.inst('polarity:%s:%s:%s' % (hname, cname, pn), sample='%s passes %s of %s from an attribute .%s' % (hname, pn, cname, attr))
                    if by[True] != {True} or by[False] != {False}:
                        r.violate('OptimizeBuiltinCalls.%s:polarity:%s:%s' % (hname, cname, pn), mod.rel, fn.lineno,
                                  '%s passes %s = %s when the attribute .%s is true and %s when it is false: the flag parameter %r of %s has the opposite meaning'
                                  % (hname, pn, sorted(by[True]), attr, sorted(by[False]), pn, cname))
    r.info('%d handler/arity combinations are outside the modelled subset (not claimed)' % gaveup)
    # positive control: dict.get with a NULL default against the real helper
    known, ok, _ = c_param_null_tested(ctx, '__Pyx_PyDict_GetItemDefault', 2)
    known2, ok2, _ = c_param_null_tested(ctx, '__Pyx_PyDict_Pop', 2)
    # (the tested-ness of __Pyx_PyDict_Pop itself is an obligation of the rule (null:__Pyx_PyDict_Pop:2), not part of the control: a helper that loses its test is a VIOLATION)
    if not known2:
        raise AnalysisError('C13-HTAB: __Pyx_PyDict_Pop is not in the utility catalogue')
    r.positive_control(known and not ok and _param_read_in('PyObject *v; CYTHON_UNUSED_VAR(dflt); (void) dflt; v = f(d, key, Py_None); return v ? 0 : -1;', 'dflt') is False
                       and _param_read_in('if (!r) { r = dflt; } return r;', 'dflt') is True,
                       '__Pyx_PyDict_GetItemDefault does not test default_value (NULL would crash); a parameter that only occurs in unused-variable markers is not read, one that is assigned from is')
    return r


# ------------------------------------------------------------------------------------------------------------ C13-TABNAME
# Table rows that map a builtin method / a builtin type to a C function by NAME: the function named must be the one for that method / type.
#   (a) Builtin.py `("dict", "&PyDict_Type", [BuiltinMethod("keys", ..., "__Pyx_PyDict_Keys"), ...])`: where the C function is a catalogue helper that calls
#       a method by name (CALL_UNBOUND_METHOD(PyDict_Type, "keys", d) / PYIDENT("keys")), that name is the row's method; otherwise the C-API naming
#       convention Py<Type>_<Method> (C-API reference) must hold: the method name, without underscores, is contained in the C name.
#   (b) functions that return a C function name per builtin type test (`if typ.is_pylist_type: return "__Pyx_PyList_GET_SIZE"`): the name contains the type.
METHOD_ALIASES = {'has_key': 'contains', '__contains__': 'contains', '__mul__': 'multiply'}     # dict.has_key == `in` (Py2 legacy), operator slots
TYPE_WORDS = {'pystr': 'unicode', 'pybytes': 'bytes', 'pybytearray': 'bytearray', 'pylist': 'list', 'pytuple': 'tuple', 'pyanyset': 'set',
              'pyset': 'set', 'pyfrozenset': 'frozenset', 'pyanydict': 'dict', 'pydict': 'dict'}


def builtin_method_rows(ix):
    """-> [(type name, method name, C name, lineno)] from the (name, typeptr, [BuiltinMethod...]) rows of Builtin.py"""
    m = ix.mod('Builtin')
    rows = []
    for n in ast.walk(m.tree):
        if isinstance(n, ast.Tuple) and len(n.elts) >= 3 and isinstance(n.elts[0], ast.Constant) and isinstance(n.elts[0].value, str) \
                and isinstance(n.elts[2], ast.List):
            tname = n.elts[0].value
            for c in n.elts[2].elts:
                if isinstance(c, ast.Call) and isinstance(c.func, ast.Name) and c.func.id == 'BuiltinMethod' and len(c.args) >= 4 \
                        and all(isinstance(a, ast.Constant) for a in (c.args[0], c.args[3])):
                    rows.append((tname, c.args[0].value, c.args[3].value, c.lineno))
    return m, rows


def _called_method_names(ctx, cname):
    """names of the Python methods a catalogue helper calls by name -> set, or None when the helper has no body in the catalogue"""
    from . import pC15 as X
    decls = [f for f in X.resolve_c(ctx.cat, cname, ('func', 'macro')) if f.body]
    if not decls:
        return None
    out = set()
    for f in decls:
        t = strip_c_comments(f.expanded_body() or '')
        out |= set(re.findall(r'CALL_UNBOUND_METHOD\(\s*\w+\s*,\s*"(\w+)"', t))
        out |= set(re.findall(r'CallMethod\d?\(\s*\w+\s*,\s*PYIDENT\("(\w+)"\)', t))
    return out


def rule_tabname(ctx, floor=30):
    r = Rule('C13-TABNAME', 'rows that select a C function by name for a builtin method / builtin type: the helper calls the method of that name, or its C-API name '
             'carries the method (Py<Type>_<Method>) / the type it is selected for', floor)
    ix = ctx.index
    m, rows = builtin_method_rows(ix)
    if len(rows) < 15:
        raise AnalysisError('only %d BuiltinMethod rows found in Builtin.py' % len(rows))
    for tname, meth, cname, ln in rows:
        key = 'Builtin:%s.%s->%s' % (tname, meth, cname)
        want = METHOD_ALIASES.get(meth, meth).replace('_', '').lower()
        called = _called_method_names(ctx, cname)
        r.inst(key, sample='%s (%s)' % (key, 'calls %s' % sorted(called) if called else 'by C-API name'))
        if called:
            # dict.iterkeys / dict.viewkeys (Py2 spellings) are served by the helper that calls keys(): the called name may be a part of the row's name
            if not any(c.lower() in want or want in c.lower() for c in called):
                r.violate(key, m.rel, ln, 'the row maps %s.%s to %s, but that helper calls the method(s) %s: %s.%s() runs a different method'
                          % (tname, meth, cname, sorted(called), tname, meth))
        elif want not in cname.replace('_', '').lower():
            r.violate(key, m.rel, ln, 'the row maps %s.%s to the C function %s, whose name does not carry the method (C-API naming Py<Type>_<Method>): '
                      '%s.%s() is compiled into a different operation' % (tname, meth, cname, tname, meth))
    # (b) per-type name selection functions
    opt = ix.mod('Optimize')
    n_b = 0
    for qn, owner, fn in ix.functions_of(opt):
        for s in ast.walk(fn):
            if not isinstance(s, ast.If):
                continue
            t = s.test
            if not (isinstance(t, ast.Attribute) and re.fullmatch(r'is_(py\w+)_type', t.attr)):
                continue
            word = TYPE_WORDS.get(re.fullmatch(r'is_(py\w+)_type', t.attr).group(1))
            if not word or len(s.body) != 1 or not isinstance(s.body[0], ast.Return) or not isinstance(s.body[0].value, ast.Constant) \
                    or not isinstance(s.body[0].value.value, str):
                continue
            cname = s.body[0].value.value
            if not re.match(r'(__Pyx_)?Py[A-Z]', cname):
                continue
            n_b += 1
            key = '%s:%s->%s' % (qn, t.attr, cname)
            r.inst(key, sample=key)
            if ('py' + word) not in cname.lower():
                r.violate(key, opt.rel, s.lineno, '%s returns %s for objects with %s: the C function belongs to a different builtin type (wrong struct layout / '
                          'wrong result for %s objects)' % (qn, cname, t.attr, word))
    if not n_b:
        raise AnalysisError('no per-type C function selection (`if typ.is_py<type>_type: return "<name>"`) found in Optimize.py')
    r.positive_control('keys' in (_called_method_names(ctx, '__Pyx_PyDict_Keys') or ()) and 'values' not in (_called_method_names(ctx, '__Pyx_PyDict_Keys') or ()),
                       'the helper behind dict.keys calls "keys" (a row naming it for dict.values would be reported)')
    return r


# ------------------------------------------------------------------------------------------------------------ C13-WITHERR
# Dictionary lookups of the C-API that return NULL both for "missing" and for "error" (PyDict_GetItemWithError, _PyDict_GetItem_KnownHash): on the
# path where the result is NULL, PyErr_Occurred() has to be consulted before a non-error result is produced - otherwise a lookup that failed with an
# exception (unhashable key, failing __eq__/__hash__) is answered with the default and the exception stays set.
WITHERR_FUNCS = ('PyDict_GetItemWithError', '_PyDict_GetItem_KnownHash', '__Pyx_PyDict_GetItemStrWithError')
WITHERR_FILES = ('Optimize.c', 'Builtins.c', 'ObjectHandling.c', 'FunctionArguments.c', 'ModuleSetupCode.c')


def witherr_sites(ctx):
    from ..engine import cguard
    out = []
    for uf in WITHERR_FILES:
        rel = 'Cython/Utility/' + uf
        try:
            text = strip_c_comments(ctx.read(rel))
        except AnalysisError:
            continue
        for m in re.finditer(r'(\*?\s*[A-Za-z_]\w*)\s*=\s*(%s)\s*\(' % '|'.join(WITHERR_FUNCS), text):
            if re.match(r'\s*#\s*define', text[text.rfind('\n', 0, m.start()) + 1:m.start()]):
                continue
            f = cguard.function_at(text, m.start())
            if f is None:
                # header written with preprocessor alternatives (`#if .. static T f(a) #else static T f(a, b) #endif {`): take the brace block at column 0
                lb = text.rfind('\n{', 0, m.start())
                if lb < 0:
                    continue
                rb = cguard._match_brace(text, lb + 1)
                if rb < m.start():
                    continue
                hm = re.findall(r'([A-Za-z_]\w*)\s*\([^;{}]*\)\s*(?:#[^\n]*\n\s*)*$', text[max(0, lb - 400):lb + 1])
                heads = re.findall(r'\b(__Pyx\w+)\s*\(', text[max(0, lb - 400):lb])
                f = ((heads[-1] + '(') if heads else '?(', lb + 1, rb)
            head, lb, rb = f
            var = m.group(1).replace(' ', '')
            out.append((rel, text, m.start(), text.count('\n', 0, m.start()) + 1, head, lb, rb, var, m.group(2)))
    return out


def witherr_problem(text, pos, rb, var):
    """-> None when PyErr_Occurred() is consulted on the NULL path after the lookup at `pos` (function body ends at rb), else a message"""
    from ..engine import cguard
    v = re.escape(var)
    rest = text[pos:rb]
    # the preprocessor alternative the lookup belongs to ends at the next #else / #elif / #endif of its own level
    depth, end = 0, len(rest)
    for m in re.finditer(r'^[ \t]*#[ \t]*(if|ifdef|ifndef|elif|else|endif)\b', rest, re.M):
        d = m.group(1)
        if d in ('if', 'ifdef', 'ifndef'):
            depth += 1
        elif d == 'endif':
            if depth == 0:
                end = m.start()
                break
            depth -= 1
        elif depth == 0:
            end = m.start()
            break
    seg = rest[:end]
    for m in re.finditer(r'PyErr_Occurred\s*\(\s*\)', seg):
        gs = cguard.guards(text, pos + m.start())
        ok = True
        for cond, pol in gs:
            c = re.sub(r'\s+', '', cond)
            c = re.sub(r'(?:un)?likely\((.*)\)$', r'\1', c)
            c = c.strip('()')
            if re.fullmatch(r'!%s' % v, c) or re.fullmatch(r'%s==NULL' % v, c):
                if not pol:
                    ok = False
            elif re.fullmatch(v, c) or re.fullmatch(r'%s!=NULL' % v, c):
                if pol:
                    ok = False
        if ok:
            return None
    return ('the result %r of the lookup may be NULL because of an exception, but PyErr_Occurred() is not consulted on the NULL path before the function goes on: '
            'an unhashable / failing key is treated as "missing" and the exception stays set' % var)


def rule_witherr(ctx, floor=4):
    r = Rule('C13-WITHERR', 'dict lookups that return NULL for "missing" and for "error" (PyDict_GetItemWithError, _PyDict_GetItem_KnownHash): PyErr_Occurred() is consulted on '
             'the NULL path before a non-error result is produced', floor)
    for rel, text, pos, line, head, lb, rb, var, fn in witherr_sites(ctx):
        name = re.findall(r'([A-Za-z_]\w*)\s*\($', head.strip() + '(')
        fname = (re.findall(r'([A-Za-z_]\w*)\s*\(', head) or ['?'])[0]
        key = '%s:%s:%s=%s' % (rel.rsplit('/', 1)[1], fname, var, fn)
        r.inst(key, sample=key)
        p = witherr_problem(text, pos, rb, var)
        if p:
            r.violate(key, rel, line, '%s: %s' % (fname, p))
    pc = 'static PyObject* f(PyObject* d, PyObject* k, PyObject* dv) {\n PyObject* value;\n value = PyDict_GetItemWithError(d, k);\n if (unlikely(!value)) {\n value = dv;\n }\n Py_INCREF(value);\n return value;\n}\n'
    ok = 'static PyObject* f(PyObject* d, PyObject* k, PyObject* dv) {\n PyObject* value;\n value = PyDict_GetItemWithError(d, k);\n if (likely(value)) {\n ;\n } else if (unlikely(PyErr_Occurred())) {\n return NULL;\n } else {\n value = dv;\n }\n return value;\n}\n'
    r.positive_control(witherr_problem(pc, pc.index('value = PyDict'), len(pc) - 2, 'value') is not None
                       and witherr_problem(ok, ok.index('value = PyDict'), len(ok) - 2, 'value') is None,
                       'a NULL branch that substitutes the default without PyErr_Occurred() is reported; the else-if form is accepted')
    return r


# ============================================================================================================ LinSym
# Symbolic execution of small C helpers on LINEAR FORMS over integer symbols, with linear path conditions.  Conditions that compare linear forms split the
# path and add the (integer-tightened) constraint; infeasible paths are pruned by Fourier-Motzkin elimination.  Used to decide slice normalisation and list
# surgery helpers against a reference written in the same C subset - for ALL index values at once, not for sampled ones.
class Lf:
    """integer linear form  c + sum k_i * sym_i"""
    __slots__ = ('c', 'k')

    def __init__(self, c=0, k=None):
        self.c = c
        self.k = {s: v for s, v in (k or {}).items() if v != 0}

    @staticmethod
    def sym(s):
        return Lf(0, {s: 1})

    def __add__(self, o):
        k = dict(self.k)
        for s, v in o.k.items():
            k[s] = k.get(s, 0) + v
        return Lf(self.c + o.c, k)

    def __neg__(self):
        return Lf(-self.c, {s: -v for s, v in self.k.items()})

    def __sub__(self, o):
        return self + (-o)

    def scale(self, n):
        return Lf(self.c * n, {s: v * n for s, v in self.k.items()})

    def is_const(self):
        return not self.k

    def key(self):
        return (self.c, tuple(sorted(self.k.items())))

    def __eq__(self, o):
        return isinstance(o, Lf) and self.key() == o.key()

    def __hash__(self):
        return hash(self.key())

    def __repr__(self):
        parts = []
        for s, v in sorted(self.k.items()):
            parts.append(('%+d*%s' % (v, s)).replace('+1*', '+').replace('-1*', '-'))
        if self.c or not parts:
            parts.append('%+d' % self.c)
        return ''.join(parts).lstrip('+')


def fm_feasible(cons, depth=0):
    """is the system  {f >= 0 for f in cons}  satisfiable over the rationals?  (Fourier-Motzkin; forms are integer-tightened by the caller, so for the
    unit-coefficient systems met here rational and integer feasibility coincide in practice; a 'feasible' answer is only ever used to REPORT, together
    with an integer witness)"""
    cons = list({c.key(): c for c in cons}.values())
    for c in cons:
        if c.is_const() and c.c < 0:
            return False
    cons = [c for c in cons if not c.is_const()]
    if not cons:
        return True
    if len(cons) > 400 or depth > 12:
        return True
    # eliminate the variable occurring in the fewest products
    vars_ = {}
    for c in cons:
        for s in c.k:
            vars_.setdefault(s, [0, 0])[0 if c.k[s] > 0 else 1] += 1
    v = min(vars_, key=lambda s: vars_[s][0] * vars_[s][1])
    pos = [c for c in cons if c.k.get(v, 0) > 0]
    neg = [c for c in cons if c.k.get(v, 0) < 0]
    rest = [c for c in cons if v not in c.k]
    for p in pos:
        for n in neg:
            a, b = p.k[v], -n.k[v]
            rest.append(p.scale(b) + n.scale(a))
    return fm_feasible(rest, depth + 1)


_WITNESS_BUDGET = [0]


def find_witness(cons, syms, box=6):
    """an integer point of the box satisfying all constraints, or None.  Constraints over symbols that are not index quantities (pointer tests) are
    dropped: they do not restrict the indices.  Depth-first with pruning; a global budget keeps a violating run fast."""
    idx = sorted(s for s in syms if '@' not in s or s.split('@')[0].endswith(('len', 'length', 'size')))
    keep = [c for c in cons if all(s in idx for s in c.k)]
    if len(idx) > 5 or _WITNESS_BUDGET[0] > 60:
        return None
    _WITNESS_BUDGET[0] += 1
    order = sorted(range(-box, box + 1), key=abs)
    env = {}

    def ok_partial():
        for c in keep:
            if all(s in env for s in c.k):
                if c.c + sum(k * env[s] for s, k in c.k.items()) < 0:
                    return False
        return True

    def rec(i):
        if i == len(idx):
            return dict(env)
        for v in order:
            env[idx[i]] = v
            if ok_partial():
                r = rec(i + 1)
                if r is not None:
                    return r
        env.pop(idx[i], None)
        return None
    return rec(0)


class LsGiveUp(Exception):
    pass


class LinSym:
    """One symbolic run of a parsed C function body (sa/rules/pC15.CParser AST)."""
    MAX_PATHS = 3000

    def __init__(self, inputs, base_cons=(), hooks=None, fixed=None):
        self.inputs = dict(inputs)            # C variable -> Lf (initial value)
        self.base = list(base_cons)
        self.hooks = hooks or {}
        self.fixed = fixed or {}              # C variable -> int constant (scenario parameters such as direction)
        self.results = []                     # (path constraints, outcome, events)
        self.paths = 0
        self.nsym = 0

    def fresh(self, hint='u'):
        self.nsym += 1
        return Lf.sym('%s%d' % (hint, self.nsym))

    # -------------------------------------------------------------------------------------------------------- expressions
    def lin(self, e, st):
        """-> Lf or None (not a linear integer expression of known symbols)"""
        from . import pC15 as X
        e = X.strip_wrappers(e)
        k = e[0]
        if k == 'num':
            return Lf(e[1]) if e[1] is not None else None
        if k == 'id':
            if e[1] in st['env']:
                v = st['env'][e[1]]
                return v if isinstance(v, Lf) else None
            if e[1] in self.fixed:
                return Lf(self.fixed[e[1]])
            return None
        if k == 'un' and e[1] == '-':
            v = self.lin(e[2], st)
            return -v if v is not None else None
        if k == 'un' and e[1] == '+':
            return self.lin(e[2], st)
        if k == 'bin' and e[1] in ('+', '-'):
            a, b = self.lin(e[2], st), self.lin(e[3], st)
            if a is None or b is None:
                return None
            return a + b if e[1] == '+' else a - b
        if k == 'bin' and e[1] == '*':
            a, b = self.lin(e[2], st), self.lin(e[3], st)
            if a is not None and b is not None:
                if a.is_const():
                    return b.scale(a.c)
                if b.is_const():
                    return a.scale(b.c)
            return None
        if k == 'tern':
            return None
        if k == 'call':
            h = self.hooks.get('call_value')
            if h:
                return h(self, e, st)
        if k == 'bin' and e[1] == '>>':
            h = self.hooks.get('shift_value')
            if h:
                return h(self, e, st)
        return None

    def branches(self, cond, st):
        """-> [(truth, new state)] for the feasible outcomes of a condition"""
        from . import pC15 as X
        c = X.strip_wrappers(cond)
        k = c[0]
        if k == 'un' and c[1] == '!':
            return [(not t, s) for t, s in self.branches(c[2], st)]
        if k == 'bin' and c[1] in ('&&', '&'):
            out = []
            for t, s in self.branches(c[2], st):
                if t:
                    out += self.branches(c[3], s)
                else:
                    out.append((False, s))
            return out
        if k == 'bin' and c[1] in ('||', '|'):
            out = []
            for t, s in self.branches(c[2], st):
                if t:
                    out.append((True, s))
                else:
                    out += self.branches(c[3], s)
            return out
        if k == 'bin' and c[1] in ('<', '<=', '>', '>=', '==', '!='):
            a, b = self.lin(c[2], st), self.lin(c[3], st)
            if a is not None and b is not None:
                d = a - b
                op = c[1]
                # forms f with the meaning f >= 0 (integers)
                true_c = {'<': [-d - Lf(1)], '<=': [-d], '>': [d - Lf(1)], '>=': [d], '==': [d, -d], '!=': None}[op]
                false_c = {'<': [d], '<=': [d - Lf(1)], '>': [-d], '>=': [-d - Lf(1)], '==': None, '!=': [d, -d]}[op]
                out = []
                for truth, cs in ((True, true_c), (False, false_c)):
                    alts = [cs] if cs is not None else [[d - Lf(1)], [-d - Lf(1)]]      # a != b: two half spaces
                    for alt in alts:
                        s2 = self.copy(st)
                        s2['pc'] = s2['pc'] + alt
                        if fm_feasible(self.base + s2['pc']):
                            out.append((truth, s2))
                return out
        if k == 'num' and c[1] is not None:
            return [(c[1] != 0, st)]
        v = self.lin(c, st)
        if v is not None:
            return self.branches(('bin', '!=', c, ('num', 0)), st)
        h = self.hooks.get('condition')
        if h:
            r = h(self, c, st)
            if r is not None:
                return r
        key = '?' + X.c_text(c)
        if key in st['atoms']:
            return [(st['atoms'][key], st)]
        out = []
        for t in (True, False):
            s2 = self.copy(st)
            s2['atoms'][key] = t
            out.append((t, s2))
        return out

    def copy(self, st):
        return {'env': dict(st['env']), 'pc': list(st['pc']), 'atoms': dict(st['atoms']), 'events': list(st['events']), 'aux': dict(st['aux'])}

    # -------------------------------------------------------------------------------------------------------- statements
    def run(self, tree):
        st = {'env': dict(self.inputs), 'pc': [], 'atoms': {}, 'events': [], 'aux': {}}
        top = tree[1]
        labels = {s[1]: i for i, s in enumerate(top) if s[0] == 'label'}
        todo = [(0, st)]
        while todo:
            i, s = todo.pop()
            for kind, payload, s2 in self.exec_list(top[i:], s):
                if kind == 'goto':
                    if payload not in labels:
                        raise LsGiveUp('goto %s' % payload)
                    todo.append((labels[payload], s2))
                else:
                    self.finish(('fall',), s2)
        return self.results

    def finish(self, outcome, st):
        self.paths += 1
        if self.paths > self.MAX_PATHS:
            raise LsGiveUp('more than %d paths' % self.MAX_PATHS)
        self.results.append((st['pc'], outcome, st['events'], st['atoms'], st['aux']))

    def exec_list(self, stmts, st):
        cur, esc = [st], []
        for s in stmts:
            nxt = []
            for s1 in cur:
                for kind, payload, s2 in self.exec_stmt(s, s1):
                    if kind == 'fall':
                        nxt.append(s2)
                    else:
                        esc.append((kind, payload, s2))
            cur = nxt
            if not cur:
                break
        return [('fall', None, s) for s in cur] + esc

    def assign(self, name, rhs, st):
        v = self.lin(rhs, st)
        h = self.hooks.get('assign')
        if h:
            r = h(self, name, rhs, v, st)
            if r is not None:
                st['env'][name] = r
                return
        st['env'][name] = v if v is not None else self.fresh(name + '_')

    def effect(self, e, st):
        """expression statement"""
        from . import pC15 as X
        e0 = X.strip_wrappers(e)
        if e0[0] == 'assign':
            op, l, r = e0[1], X.strip_wrappers(e0[2]), e0[3]
            if l[0] == 'id':
                if op == '=':
                    self.assign(l[1], r, st)
                elif op in ('+=', '-='):
                    cur = st['env'].get(l[1])
                    v = self.lin(r, st)
                    if isinstance(cur, Lf) and v is not None:
                        st['env'][l[1]] = cur + v if op == '+=' else cur - v
                    else:
                        st['env'][l[1]] = self.fresh(l[1] + '_')
                else:
                    st['env'][l[1]] = self.fresh(l[1] + '_')
            return
        if e0[0] == 'post' or (e0[0] == 'un' and e0[1] in ('++', '--')):
            t = X.strip_wrappers(e0[2])
            if t[0] == 'id' and isinstance(st['env'].get(t[1]), Lf):
                st['env'][t[1]] = st['env'][t[1]] + Lf(1 if e0[1] == '++' else -1)
            return
        h = self.hooks.get('effect')
        if h:
            h(self, e0, st)

    def exec_stmt(self, s, st):
        from . import pC15 as X
        k = s[0]
        if k == 'block':
            return self.exec_list(s[1], st)
        if k == 'label':
            return [('fall', None, st)]
        if k == 'goto':
            return [('goto', s[1], st)]
        if k == 'decl':
            states = [self.copy(st)]
            for name, init, typ in s[1]:
                nxt = []
                for s1 in states:
                    if init is None:
                        s1['env'][name] = None
                        nxt.append(s1)
                        continue
                    i0 = X.strip_wrappers(init)
                    if i0[0] == 'tern':         # x = c ? a : b  splits the path
                        for t, s2 in self.branches(i0[1], s1):
                            s2 = self.copy(s2)
                            self.assign(name, i0[2] if t else i0[3], s2)
                            nxt.append(s2)
                    else:
                        self.assign(name, init, s1)
                        nxt.append(s1)
                states = nxt
            return [('fall', None, s1) for s1 in states]
        if k == 'expr':
            e0 = X.strip_wrappers(s[1])
            if e0[0] == 'assign' and e0[1] == '=' and X.strip_wrappers(e0[3])[0] == 'tern' and X.strip_wrappers(e0[2])[0] == 'id':
                tn = X.strip_wrappers(e0[3])
                out = []
                for t, s2 in self.branches(tn[1], st):
                    s2 = self.copy(s2)
                    self.assign(X.strip_wrappers(e0[2])[1], tn[2] if t else tn[3], s2)
                    out.append(('fall', None, s2))
                return out
            st = self.copy(st)
            self.effect(s[1], st)
            return [('fall', None, st)]
        if k == 'return':
            st = self.copy(st)
            h = self.hooks.get('return')
            out = h(self, s[1], st) if h else ('return', X.c_text(s[1]) if s[1] is not None else None)
            self.finish(out, st)
            return []
        if k == 'if':
            out = []
            for t, s2 in self.branches(s[1], st):
                if t:
                    out += self.exec_stmt(s[2], s2)
                elif s[3] is not None:
                    out += self.exec_stmt(s[3], s2)
                else:
                    out.append(('fall', None, s2))
            return out
        raise LsGiveUp('statement kind %s' % k)


def implied(base, pc, form):
    """does  base & pc  imply  form >= 0 ?  (the negation  form <= -1  is infeasible)"""
    return not fm_feasible(base + pc + [-form - Lf(1)])


def equal_under(base, pc, a, b):
    return not fm_feasible(base + pc + [a - b - Lf(1)]) and not fm_feasible(base + pc + [b - a - Lf(1)])


# ------------------------------------------------------------------------------------------------------------ C13-SLICE
# start / end handling of the string helpers that implement slicing semantics themselves, decided against a reference written in the same C subset:
#   __Pyx_PyBytes_SingleTailmatch  vs  CPython's tailmatch()  (Objects/bytes_methods.c: ADJUST_INDICES; startswith: start > len - slen -> no match;
#                                      endswith: end - start < slen || start > len -> no match, start = max(start, end - slen); end - start < slen -> no match;
#                                      memcmp(str + start, sub, slen))
#   __Pyx_PyUnicode_Substring      vs  PySlice_AdjustIndices with step 1 (Objects/sliceobject.c) followed by "empty when stop <= start"
# Both sides are run symbolically (LinSym); for every pair of jointly feasible paths the outcomes must agree as linear forms under the path
# condition, and every memory access of the candidate must lie inside [0, len] on its path.
REF_TAILMATCH = '''{
    if (end > len) end = len; else if (end < 0) { end += len; if (end < 0) end = 0; }
    if (start < 0) { start += len; if (start < 0) start = 0; }
    if (direction < 0) {
        if (start > len - slen) return NOMATCH();
    } else {
        if (end - start < slen || start > len) return NOMATCH();
        if (end - slen > start) start = end - slen;
    }
    if (end - start < slen) return NOMATCH();
    return MATCH(start, slen);
}'''
REF_SUBSTRING = '''{
    if (start < 0) { start += len; if (start < 0) start = 0; } else if (start > len) start = len;
    if (stop < 0) { stop += len; if (stop < 0) stop = 0; } else if (stop > len) stop = len;
    if (stop <= start) return EMPTY();
    return SLICE(start, stop - start);
}'''
_SIZE_CALL = re.compile(r'(GET_SIZE|_Size|GET_LENGTH|GetLength|_GET_LEN)$')


class _SliceSym(LinSym):
    """LinSym + unknown values named after the variable they are stored in, non-negative sizes, out-parameters, tagged outcomes"""

    def __init__(self, *a, **k):
        super().__init__(*a, **k)
        self.nonneg = set()

    def unknown_for(self, name, st, nonneg=False):
        n = st['aux'].get('cnt:' + name, 0)
        st['aux']['cnt:' + name] = n + 1
        sym = '%s@%d' % (name, n)
        if nonneg and sym not in self.nonneg:
            self.nonneg.add(sym)
            self.base.append(Lf.sym(sym))
        return Lf.sym(sym)

    def lin(self, e, st):
        from . import pC15 as X
        e1 = X.strip_wrappers(e)
        if e1[0] == 'id' and st['env'].get(e1[1]) is None and e1[1] not in self.fixed and re.fullmatch(r'[a-z_]\w*', e1[1]) and e1[1] not in ('NULL',):
            # a local that is filled through an out-parameter or declared without initialiser: one symbol per variable
            st['env'][e1[1]] = Lf.sym(e1[1] + '@in')
        return super().lin(e, st)

    def assign(self, name, rhs, st):
        from . import pC15 as X
        r = X.strip_wrappers(rhs)
        tag = self.tagged(r, st)
        if tag is not None:
            st['env'][name] = tag
            return
        v = super().lin(rhs, st)
        if v is not None:
            st['env'][name] = v
            return
        size_like = (r[0] == 'call' and r[1][0] == 'id' and _SIZE_CALL.search(r[1][1])) or (r[0] == 'mem' and r[3] in ('len', 'length', 'size'))
        st['env'][name] = self.unknown_for(name, st, nonneg=bool(size_like))

    def tagged(self, r, st):
        """`!memcmp(p + off, q, n)` -> ('match', off, n);  None otherwise"""
        from . import pC15 as X
        neg = False
        while r[0] == 'un' and r[1] == '!':
            neg = not neg
            r = X.strip_wrappers(r[2])
        if r[0] == 'call' and r[1][0] == 'id' and r[1][1] == 'memcmp' and len(r[2]) == 3 and neg:
            p = self.lin(r[2][0], st)
            n = self.lin(r[2][2], st)
            if p is None or n is None:
                raise LsGiveUp('memcmp with non-linear arguments')
            ptrs = [s for s in p.k if s.split('@')[0].endswith('ptr') or s.split('@')[0].endswith('buf') or s.split('@')[0].endswith('data')]
            base = [s for s, c in p.k.items() if c == 1 and s not in st['aux'].get('index_syms', ())]
            # the base pointer: the one symbol of the address that is not an integer index quantity (it never appears in a comparison)
            cand = [s for s in p.k if p.k[s] == 1 and s not in self.compared]
            if len(cand) != 1:
                raise LsGiveUp('cannot tell the base pointer of memcmp(%s, ...)' % X.c_text(r[2][0]))
            off = p - Lf.sym(cand[0])
            return ('match', off, n)
        return None

    compared = frozenset()

    def branches(self, cond, st):
        # calls inside a condition fill their out-parameters before the result is tested:  if (PyBytes_AsStringAndSize(o, &p, &n) == -1) return -1;
        from . import pC15 as X
        calls = []

        def rec(e):
            if not isinstance(e, tuple):
                return
            if e[0] == 'call' and any(X.strip_wrappers(a)[0] == 'un' and X.strip_wrappers(a)[1] == '&' for a in e[2]):
                calls.append(e)
            for x in e[1:]:
                if isinstance(x, tuple):
                    rec(x)
                elif isinstance(x, list):
                    for y in x:
                        rec(y)
        rec(cond)
        if calls:
            st = self.copy(st)
            for c in calls:
                self.effect(c, st)
        return super().branches(cond, st)

    def effect(self, e0, st):
        from . import pC15 as X
        if e0[0] == 'call':
            name = e0[1][1] if e0[1][0] == 'id' else None
            outs = [X.strip_wrappers(a) for a in e0[2]]
            outs = [a[2] for a in outs if a[0] == 'un' and a[1] == '&']
            outs = [X.strip_wrappers(a) for a in outs]
            for i, a in enumerate(outs):
                if a[0] == 'id':
                    is_size = name is not None and ('AndSize' in name) and i == len(outs) - 1
                    st['env'][a[1]] = self.unknown_for(a[1], st, nonneg=is_size)
            return
        return super().effect(e0, st)


def _compared_symbols(tree, inputs):
    """names of the variables that take part in an integer comparison somewhere in the function (index quantities, not pointers)"""
    from . import pC15 as X
    out = set()

    def rec_e(e):
        if not isinstance(e, tuple):
            return
        if e[0] == 'bin' and e[1] in ('<', '<=', '>', '>='):
            out.update(X.c_ids(e))
        for x in e[1:]:
            if isinstance(x, tuple):
                rec_e(x)
            elif isinstance(x, list):
                for y in x:
                    rec_e(y)
    for s in X.c_walk_stmts(tree):
        if s[0] == 'if':
            rec_e(s[1])
        elif s[0] in ('expr', 'return') and s[1] is not None:
            rec_e(s[1])
        elif s[0] == 'decl':
            for _, init, _ in s[1]:
                if init is not None:
                    rec_e(init)
    return out


def _ref_paths(text, inputs, base, fixed, outcome_names):
    from . import pC15 as X

    def ret(sym, e, st):
        e = X.strip_wrappers(e)
        if e[0] == 'call' and e[1][0] == 'id' and e[1][1] in outcome_names:
            return (e[1][1],) + tuple(sym.lin(a, st) for a in e[2])
        raise LsGiveUp('reference return')
    s = LinSym(inputs, base, hooks={'return': ret}, fixed=fixed)
    return s.run(X.parse_c_function_body(text))


def tailmatch_problems(fname, typed, body_text):
    """-> (number of path pairs compared, [message])"""
    from . import pC15 as X
    from . import sC02
    ints = [n for t, n in typed if t.strip() == 'Py_ssize_t']
    flags = [n for t, n in typed if t.strip() == 'int']
    if len(ints) != 2 or len(flags) != 1:
        raise LsGiveUp('%s: expected (.., Py_ssize_t start, Py_ssize_t end, int direction)' % fname)
    pstart, pend, pdir = ints[0], ints[1], flags[0]
    problems, pairs = [], 0
    seen_sigs = set()
    for cfg, text in sC02._pp_texts(body_text):
        tree = X.parse_c_function_body(text)
        cmpd = _compared_symbols(tree, None)
        for direction in (1, -1):
            def ret(sym, e, st):
                if e is None:
                    return ('void',)
                e1 = X.strip_wrappers(e)
                if e1[0] == 'id' and isinstance(st['env'].get(e1[1]), tuple):
                    return st['env'][e1[1]]
                v = sym.lin(e1, st)
                if v is not None and v.is_const():
                    return ('const', v.c)
                return ('other', X.c_text(e1))
            sym = _SliceSym({pstart: Lf.sym('start'), pend: Lf.sym('end')}, [], hooks={'return': ret}, fixed={pdir: direction})
            sym.compared = frozenset(s + sfx for s in cmpd for sfx in ('@0', '@1', '@in', '')) | {'start', 'end'}
            cand = sym.run(tree)
            # the preprocessor variants differ in how the buffers are obtained, not in the index arithmetic: identical path sets are compared once.
            # Constraints over pointer symbols do not restrict the indices and are dropped before the comparison.
            def index_only(pc):
                return [c for c in pc if all(('@' not in s_) or s_ in sym.nonneg for s_ in c.k)]
            cand = [(index_only(pc), o, ev, at, aux) for pc, o, ev, at, aux in cand]
            uniq = {}
            for pc, o, ev, at, aux in cand:
                uniq.setdefault((tuple(sorted(c.key() for c in pc)), repr(o)), (pc, o, ev, at, aux))
            cand = list(uniq.values())
            sig = (direction, frozenset(uniq))
            if sig in seen_sigs:
                continue
            seen_sigs.add(sig)
            matches = [(pc, o) for pc, o, ev, at, aux in cand if o[0] == 'match']
            if not matches:
                problems.append('%s never compares the bytes for direction %+d [%s]' % (fname, direction, cfg))
                continue
            slen_syms = {tuple(sorted(o[2].k)) for _, o in matches}
            if len(slen_syms) != 1 or len(next(iter(slen_syms))) != 1:
                raise LsGiveUp('%s: the compared length is not one size symbol' % fname)
            slen = next(iter(slen_syms))[0]
            others = sorted(sym.nonneg - {slen})
            if len(others) != 1:
                raise LsGiveUp('%s: cannot identify the length of the searched object among %s' % (fname, sorted(sym.nonneg)))
            length = others[0]
            base = [Lf.sym(slen), Lf.sym(length)]
            ref = _ref_paths(REF_TAILMATCH, {'start': Lf.sym('start'), 'end': Lf.sym('end'), 'len': Lf.sym(length), 'slen': Lf.sym(slen)}, base,
                             {'direction': direction}, ('MATCH', 'NOMATCH'))
            names = {'start': pstart, 'end': pend, length: 'len(self)', slen: 'len(sub)'}
            for pc, o, ev, at, aux in cand:
                if len(problems) >= 6:
                    break
                if o[0] == 'const' and o[1] < 0:
                    continue                # error return of the buffer acquisition
                if o[0] not in ('match', 'const'):
                    raise LsGiveUp('%s returns %r' % (fname, o))
                if o[0] == 'match':
                    off, n = o[1], o[2]
                    for what, form in (('starts before the buffer', off), ('ends behind the buffer', Lf.sym(length) - off - n)):
                        if not implied(base, pc, form):
                            w = find_witness(base + pc + [-form - Lf(1)], {s for c in base + pc + [form] for s in c.k})
                            if w is not None:
                                problems.append('%s (direction %+d): memcmp(self + %r, sub, %r) %s for %s [%s]' % (
                                    fname, direction, off, n, what, ', '.join('%s=%d' % (names.get(k, k), v) for k, v in sorted(w.items())), cfg))
                for rpc, ro, _, _, _ in ref:
                    joint = pc + rpc
                    if not fm_feasible(base + joint):
                        continue
                    pairs += 1
                    cm = o[0] == 'match'
                    rm = ro[0] == 'MATCH'
                    bad = None
                    if cm != rm:
                        # a comparison of zero bytes at a valid offset is "match"; the reference says so explicitly
                        bad = 'the helper %s where bytes.%s %s' % ('compares the bytes' if cm else 'reports no match', 'endswith' if direction > 0 else 'startswith',
                                                                    'compares the bytes' if rm else 'reports no match')
                        extra = []
                    elif cm:
                        if not equal_under(base, joint + [Lf.sym(slen) - Lf(1)], o[1], ro[1]):
                            bad = 'the helper compares at offset %r, the reference at offset %r' % (o[1], ro[1])
                            extra = [Lf.sym(slen) - Lf(1)]
                            # need a point where the offsets really differ
                            w = find_witness(base + joint + extra + [o[1] - ro[1] - Lf(1)], {s for c in base + joint for s in c.k}) or \
                                find_witness(base + joint + extra + [ro[1] - o[1] - Lf(1)], {s for c in base + joint for s in c.k})
                            if w is None:
                                bad = None
                            else:
                                problems.append('%s (direction %+d): %s for %s [%s]' % (fname, direction, bad, ', '.join('%s=%d' % (names.get(k, k), v) for k, v in sorted(w.items())), cfg))
                                bad = None
                    if bad:
                        w = find_witness(base + joint, {s for c in base + joint for s in c.k})
                        if w is not None:
                            problems.append('%s (direction %+d): %s for %s [%s]' % (fname, direction, bad, ', '.join('%s=%d' % (names.get(k, k), v) for k, v in sorted(w.items())), cfg))
    seen, out = set(), []
    for p in problems:
        k = re.sub(r' for .*', '', p)
        if k not in seen:
            seen.add(k)
            out.append(p)
    return pairs, out


def substring_problems(fname, typed, body_text):
    from . import pC15 as X
    from . import sC02
    ints = [n for t, n in typed if t.strip() == 'Py_ssize_t']
    if len(ints) != 2:
        raise LsGiveUp('%s: expected (text, Py_ssize_t start, Py_ssize_t stop)' % fname)
    pstart, pstop = ints
    obj = [n for t, n in typed if 'PyObject' in t]
    problems, pairs = [], 0
    for cfg, text in sC02._pp_texts(body_text):
        tree = X.parse_c_function_body(text)

        def ret(sym, e, st):
            e1 = X.strip_wrappers(e)
            if e1[0] == 'id' and e1[1] == 'NULL':
                return ('error',)
            if e1[0] == 'call' and e1[1][0] == 'id':
                nm, args = e1[1][1], e1[2]
                if nm in ('__Pyx_NewRef', 'Py_NewRef') and len(args) == 1:
                    a = X.strip_wrappers(args[0])
                    if a[0] == 'id' and a[1] in obj:
                        return ('whole',)
                    return ('empty',)
                if nm == 'PyUnicode_FromKindAndData' and len(args) == 3:
                    p = X.strip_wrappers(args[1])
                    n = sym.lin(args[2], st)
                    off = None
                    if p[0] == 'bin' and p[1] == '+':
                        m = X.strip_wrappers(p[3])
                        if m[0] == 'bin' and m[1] == '*':
                            off = sym.lin(m[2], st)
                            if off is None:
                                off = sym.lin(m[3], st)
                    if off is None or n is None:
                        raise LsGiveUp('PyUnicode_FromKindAndData(%s)' % X.c_text(e1))
                    return ('slice', off, n)
                if nm == 'PyUnicode_Substring' and len(args) == 3:
                    a, b = sym.lin(args[1], st), sym.lin(args[2], st)
                    if a is None or b is None:
                        raise LsGiveUp('PyUnicode_Substring arguments')
                    return ('slice', a, b - a)
            return ('other', X.c_text(e1))
        sym = _SliceSym({pstart: Lf.sym('start'), pstop: Lf.sym('stop')}, [], hooks={'return': ret})
        cand = sym.run(tree)
        if len(sym.nonneg) != 1:
            raise LsGiveUp('%s: the text length is not one size symbol (%s)' % (fname, sorted(sym.nonneg)))
        length = next(iter(sym.nonneg))
        L = Lf.sym(length)
        base = [L]
        ref = _ref_paths(REF_SUBSTRING, {'start': Lf.sym('start'), 'stop': Lf.sym('stop'), 'len': L}, base, {}, ('EMPTY', 'SLICE'))
        names = {'start': pstart, 'stop': pstop, length: 'len(text)'}

        def norm(o):
            if o[0] == 'whole':
                return (Lf(0), L)
            if o[0] in ('empty', 'EMPTY'):
                return (Lf(0), Lf(0))
            return (o[1], o[2])
        for pc, o, ev, at, aux in cand:
            if len(problems) >= 6:
                break
            if o[0] == 'error':
                continue
            if o[0] == 'other':
                raise LsGiveUp('%s returns %s' % (fname, o[1]))
            off, n = norm(o)
            if o[0] == 'slice':
                for what, form in (('a negative length', n), ('an offset before the text', off), ('a range that ends behind the text', L - off - n)):
                    if not implied(base, pc, form):
                        w = find_witness(base + pc + [-form - Lf(1)], {s for c in base + pc + [form] for s in c.k})
                        if w is not None:
                            problems.append('%s builds the result from data + %r with length %r: %s for %s [%s]' % (
                                fname, off, n, what, ', '.join('%s=%d' % (names.get(k, k), v) for k, v in sorted(w.items())), cfg))
            for rpc, ro, _, _, _ in ref:
                joint = pc + rpc
                if not fm_feasible(base + joint):
                    continue
                pairs += 1
                roff, rn = norm(ro)
                if not equal_under(base, joint, n, rn):
                    w = find_witness(base + joint + [n - rn - Lf(1)], {s for c in base + joint for s in c.k}) or \
                        find_witness(base + joint + [rn - n - Lf(1)], {s for c in base + joint for s in c.k})
                    if w is not None:
                        problems.append('%s returns %r characters where text[start:stop] has %r for %s [%s]' % (
                            fname, n, rn, ', '.join('%s=%d' % (names.get(k, k), v) for k, v in sorted(w.items())), cfg))
                elif not equal_under(base, joint + [rn - Lf(1)], off, roff):
                    w = find_witness(base + joint + [rn - Lf(1), off - roff - Lf(1)], {s for c in base + joint for s in c.k}) or \
                        find_witness(base + joint + [rn - Lf(1), roff - off - Lf(1)], {s for c in base + joint for s in c.k})
                    if w is not None:
                        problems.append('%s starts the result at %r where text[start:stop] starts at %r for %s [%s]' % (
                            fname, off, roff, ', '.join('%s=%d' % (names.get(k, k), v) for k, v in sorted(w.items())), cfg))
    seen, out = set(), []
    for p in problems:
        k = re.sub(r' for .*', '', p)
        if k not in seen:
            seen.add(k)
            out.append(p)
    return pairs, out


def rule_slice(ctx, floor=2):
    from . import pC15 as X
    _WITNESS_BUDGET[0] = 0
    r = Rule('C13-SLICE', 'start / end handling of __Pyx_PyBytes_SingleTailmatch and __Pyx_PyUnicode_Substring, run symbolically on linear forms: on every path the outcome '
             'equals that of CPython\'s tailmatch() / slicing for all index values, and every memory access stays inside the object', floor)
    for cname, fn in (('__Pyx_PyBytes_SingleTailmatch', tailmatch_problems), ('__Pyx_PyUnicode_Substring', substring_problems)):
        fs = [f for f in X.resolve_c(ctx.cat, cname, ('func',)) if f.body]
        if not fs:
            raise AnalysisError('%s not found in the utility catalogue' % cname)
        f = fs[0]
        try:
            pairs, probs = fn(cname, f.typed_params(), f.expanded_body())
        except (LsGiveUp, AnalysisError) as e:
            raise AnalysisError('C13-SLICE: %s is outside the modelled C subset: %s' % (cname, e))
        r.inst(cname, sample='%s: %d jointly feasible path pairs compared with the reference' % (cname, pairs), nontrivial=pairs > 0)
        for i, m in enumerate(probs[:4]):
            r.violate('%s:%d' % (cname, i), f.file, f.line, m)
    typed = [('PyObject *', 'text'), ('Py_ssize_t', 'start'), ('Py_ssize_t', 'stop')]
    pc = '{ Py_ssize_t length; length = __Pyx_PyUnicode_GET_LENGTH(text); if (start < 0) { start += length; if (start < 0) start = 0; } if (stop < 0) stop += length; ' \
         'if (stop <= start) return __Pyx_NewRef(EMPTY(unicode)); return PyUnicode_FromKindAndData(PyUnicode_KIND(text), PyUnicode_1BYTE_DATA(text) + start*PyUnicode_KIND(text), stop-start); }'
    _, probs = substring_problems('pc', typed, pc)
    r.positive_control(bool(probs), 'a substring helper without the upper clamp of stop is reported')
    return r


# ------------------------------------------------------------------------------------------------------------ C13-LISTPOP
# list.pop() / list.pop(i) fast paths that operate on the PyListObject directly (Py_SET_SIZE): symbolic run over the list size n, half the allocation
# h = allocated >> 1 (h >= 0) and the index.  Decided on every path that shrinks the list:
#   NONEMPTY  the size is decremented only where the path condition implies n >= 1 (an empty list must reach list.pop, which raises IndexError)
#   ITEM      the item handed back is element n-1 (pop()) resp. element i / n+i for i >= 0 / i < 0 (pop(i)), inside [0, n)
#   SHIFT     pop(i) moves exactly the n-1-k elements behind position k one place down (memmove(&item[k], &item[k+1], (n-1-k) * sizeof))
#   SIZE      the list ends up with n-1 elements
_LIST_SIZE = ('PyList_GET_SIZE', 'Py_SIZE', '__Pyx_PyList_GET_SIZE')
_LIST_ITEM = ('PyList_GET_ITEM', '__Pyx_PyList_GET_ITEM')


def listpop_problems(fname, typed, body_text):
    from . import pC15 as X
    from . import sC02
    ix_params = [n for t, n in typed if t.strip() == 'Py_ssize_t']
    problems, shrinking = [], 0
    for cfg, text in sC02._pp_texts(body_text):
        tree = X.parse_c_function_body(text)
        n0, half = Lf.sym('n'), Lf.sym('half_alloc')
        base = [n0, half]

        def size(st):
            return st['aux'].get('N', n0)

        def call_value(sym, e, st):
            nm = e[1][1] if e[1][0] == 'id' else None
            if nm in _LIST_SIZE and len(e[2]) == 1:
                return size(st)
            return None

        def shift_value(sym, e, st):
            l = X.strip_wrappers(e[2])
            if l[0] == 'mem' and l[3] == 'allocated' and X.strip_wrappers(e[3]) == ('num', 1):
                return half
            return None

        def item_index(e, sym, st):
            e = X.strip_wrappers(e)
            if e[0] == 'call' and e[1][0] == 'id' and e[1][1] in _LIST_ITEM and len(e[2]) == 2:
                return sym.lin(e[2][1], st)
            return None

        def assign(sym, name, rhs, v, st):
            i = item_index(rhs, sym, st)
            if i is not None:
                return ('item', i)
            return None

        def effect(sym, e0, st):
            if e0[0] != 'call' or e0[1][0] != 'id':
                return
            nm = e0[1][1]
            if nm == 'Py_SET_SIZE' and len(e0[2]) == 2:
                new = sym.lin(e0[2][1], st)
                if new is None:
                    raise LsGiveUp('Py_SET_SIZE with a non-linear size')
                st['events'].append(('setsize', size(st), new, list(st['pc'])))
                st['aux']['N'] = new
            elif nm == 'memmove' and len(e0[2]) == 3:
                def addr(a):
                    a = X.strip_wrappers(a)
                    if a[0] == 'un' and a[1] == '&':
                        return item_index(a[2], sym, st)
                    return None
                d, s_ = addr(e0[2][0]), addr(e0[2][1])
                c = X.strip_wrappers(e0[2][2])
                cnt = None
                if c[0] == 'bin' and c[1] == '*':
                    cnt = sym.lin(c[2], st) if X.strip_wrappers(c[3])[0] == 'sizeof' else (sym.lin(c[3], st) if X.strip_wrappers(c[2])[0] == 'sizeof' else None)
                st['events'].append(('memmove', d, s_, cnt))

        def condition(sym, c, st):
            if c[0] == 'call' and c[1][0] == 'id' and c[1][1] == '__Pyx_is_valid_index' and len(c[2]) == 2:
                i, n = sym.lin(c[2][0], st), sym.lin(c[2][1], st)
                if i is None or n is None:
                    return None
                out = []
                for truth, alts in ((True, [[i, n - i - Lf(1)]]), (False, [[-i - Lf(1)], [i - n]])):
                    for alt in alts:
                        s2 = sym.copy(st)
                        s2['pc'] = s2['pc'] + alt
                        if fm_feasible(sym.base + s2['pc']):
                            out.append((truth, s2))
                return out
            return None

        def ret(sym, e, st):
            if e is None:
                return ('void',)
            e1 = X.strip_wrappers(e)
            if e1[0] == 'id' and isinstance(st['env'].get(e1[1]), tuple):
                return st['env'][e1[1]] + (size(st),)
            i = item_index(e1, sym, st)
            if i is not None:
                return ('item', i, size(st))
            return ('generic', X.c_text(e1))
        inputs = {p: Lf.sym(p) for p in ix_params}
        sym = LinSym(inputs, base, hooks={'call_value': call_value, 'shift_value': shift_value, 'assign': assign, 'effect': effect, 'condition': condition, 'return': ret})
        res = sym.run(tree)
        for pc, o, ev, at, aux in res:
            sets = [e for e in ev if e[0] == 'setsize']
            if not sets:
                if o[0] == 'item':
                    problems.append('%s returns a list item without shrinking the list [%s]' % (fname, cfg))
                continue
            shrinking += 1
            for _, before, new, pc_at in sets:
                if not equal_under(base, pc_at, new, before - Lf(1)):
                    problems.append('%s sets the list size to %r where it was %r (pop removes exactly one element) [%s]' % (fname, new, before, cfg))
                if not implied(base, pc_at, before - Lf(1)):
                    w = find_witness(base + pc_at + [-before], {s_ for c in base + pc_at for s_ in c.k} | {'n'})
                    problems.append('%s decrements the list size on a path where the list may be empty%s: the size becomes -1 and memory before the item array is '
                                    'touched instead of raising IndexError [%s]' % (fname, (' (e.g. %s)' % ', '.join('%s=%d' % kv for kv in sorted(w.items()))) if w else '', cfg))
            if o[0] != 'item':
                problems.append('%s shrinks the list but returns %s [%s]' % (fname, o[1] if len(o) > 1 else o[0], cfg))
                continue
            i = o[1]
            if not (implied(base, pc, i) and implied(base, pc, n0 - i - Lf(1))):
                problems.append('%s returns element %r, which is not inside [0, n) on this path [%s]' % (fname, i, cfg))
            if not ix_params:
                if not equal_under(base, pc, i, n0 - Lf(1)):
                    problems.append('%s returns element %r of a list of n elements; pop() returns the last one (n-1) [%s]' % (fname, i, cfg))
            else:
                ixs = Lf.sym(ix_params[-1])
                ok = True
                for sign_c, want in (([ixs], ixs), ([-ixs - Lf(1)], ixs + n0)):
                    if fm_feasible(base + pc + sign_c) and not equal_under(base, pc + sign_c, i, want):
                        ok = False
                if not ok:
                    problems.append('%s returns element %r for the index %s: pop(i) returns element i (i >= 0) or n+i (i < 0) [%s]' % (fname, i, ix_params[-1], cfg))
                mm = [e for e in ev if e[0] == 'memmove']
                if len(mm) != 1:
                    problems.append('%s removes an inner element with %d memmove calls (one expected) [%s]' % (fname, len(mm), cfg))
                else:
                    _, d, s_, cnt = mm[0]
                    if d is None or s_ is None or cnt is None:
                        raise LsGiveUp('%s: memmove arguments are not item addresses / a linear count' % fname)
                    if not (equal_under(base, pc, d, i) and equal_under(base, pc, s_, i + Lf(1)) and equal_under(base, pc, cnt, n0 - Lf(1) - i)):
                        problems.append('%s closes the gap with memmove(&item[%r], &item[%r], %r elements); removing element k of n needs memmove(&item[k], &item[k+1], n-1-k) '
                                        '[%s]' % (fname, d, s_, cnt, cfg))
    seen, out = set(), []
    for p_ in problems:
        k = re.sub(r' \[.*\]$', '', p_)
        if k not in seen:
            seen.add(k)
            out.append(p_)
    return shrinking, out


def rule_listpop(ctx, floor=2):
    from . import pC15 as X
    r = Rule('C13-LISTPOP', 'list.pop() / list.pop(i) fast paths on the PyListObject (symbolic run over size, allocation and index): the size is only decremented for a '
             'non-empty list, the element returned is the one pop returns, the tail is moved down by exactly one place, the list ends with n-1 elements', floor)
    _WITNESS_BUDGET[0] = 0
    found = 0
    for cname, decls in sorted(ctx.cat.decls.items()):
        for d in decls:
            if d.kind != 'func' or d.file != 'Optimize.c' or '{{' in cname or not d.body:
                continue
            shrinks = re.search(r'Py_SET_SIZE\s*\([^;]*-\s*1\s*\)', d.body)
            removes = 'memmove' in d.body and re.search(r'\bPyList_GET_ITEM\b', d.body)
            if not (shrinks or removes):
                continue            # append helpers grow the list; everything else does not touch the item array
            f = X.resolve_c(ctx.cat, cname, ('func',))[0]
            body = f.expanded_body()
            found += 1
            try:
                paths, probs = listpop_problems(cname, f.typed_params(), body)
            except (LsGiveUp, AnalysisError) as e:
                raise AnalysisError('C13-LISTPOP: %s is outside the modelled C subset: %s' % (cname, e))
            r.inst(cname, sample='%s: %d shrinking path(s)' % (cname, paths), nontrivial=paths > 0)
            for i, m in enumerate(probs[:4]):
                r.violate('%s:%d' % (cname, i), f.file, f.line, m)
            break
    if not found:
        raise AnalysisError('no list-shrinking helper (Py_SET_SIZE(L, size - 1)) found in Optimize.c')
    pc = '{ if (likely(PyList_GET_SIZE(L) >= (((PyListObject*)L)->allocated >> 1))) { Py_SET_SIZE(L, Py_SIZE(L) - 1); return PyList_GET_ITEM(L, PyList_GET_SIZE(L)); } return CALL_UNBOUND_METHOD(PyList_Type, "pop", L); }'
    _, probs = listpop_problems('pc', [('PyObject *', 'L')], pc)
    r.positive_control(any('may be empty' in p_ for p_ in probs), 'a fast path admitting size >= allocated/2 (an empty list with no allocation) is reported')
    return r


# ------------------------------------------------------------------------------------------------------------ C13-TRISTATE
# C-API predicates with three results (1 / 0 / -1 = error with an exception set): a helper that goes on to raise its OWN exception (KeyError for a
# missing key ...) must do so only on paths where the result cannot be -1 - otherwise the pending exception (TypeError: unhashable type, an exception
# from __eq__ / __hash__) is replaced.  Symbolic run: every variable assigned from such a predicate (or from a catalogue helper that returns one, or an
# int parameter that receives one at every call site) is a symbol in [-1, 1]; at every PyErr_Set* the path condition must exclude -1 for the latest
# tri-state value, unless PyErr_Clear() was called after it was obtained.
TRISTATE_API = {'PySet_Discard', 'PySet_Contains', 'PyDict_Contains', 'PySequence_Contains', 'PyObject_IsTrue', 'PyObject_RichCompareBool', 'PyObject_IsInstance',
                'PyObject_IsSubclass', 'PyObject_Not', 'PyUnicode_Contains', 'PyObject_HasAttrWithError', 'PyMapping_HasKeyWithError'}
TRISTATE_FILES = ('Optimize.c', 'ObjectHandling.c', 'Builtins.c')
_RAISERS = ('PyErr_SetObject', 'PyErr_SetString', 'PyErr_Format', 'PyErr_SetNone')


def tristate_functions(ctx):
    """catalogue functions (of the container helper files) that return the tri-state result of a C-API predicate, and int parameters that only ever receive one
    -> (set of function names, {(function, parameter name)})"""
    from . import pC15 as X
    funcs = {}
    for cname, decls in ctx.cat.decls.items():
        for d in decls:
            if d.kind == 'func' and d.file in TRISTATE_FILES and d.body and '{{' not in cname and '{{' not in d.body and cname not in funcs:
                fs = X.resolve_c(ctx.cat, cname, ('func',))
                if fs:
                    funcs[cname] = fs[0]
    derived = set()
    changed = True
    while changed:
        changed = False
        for name, f in funcs.items():
            if name in derived or not re.match(r'\s*(static\s+)?(CYTHON_INLINE\s+)?int\b', (f.decl.ret or '') + ' ') and 'int' not in (f.decl.ret or ''):
                continue
            body = strip_c_comments(f.expanded_body() or '')
            tri_vars = set(re.findall(r'\b([A-Za-z_]\w*)\s*=\s*(?:%s)\s*\(' % '|'.join(sorted(TRISTATE_API | derived)), body))
            rets = re.findall(r'\breturn\s+([^;]+);', body)
            if tri_vars and rets and all(r.strip() in tri_vars or re.fullmatch(r'-?[01]', r.strip()) for r in rets) and any(r.strip() in tri_vars for r in rets):
                derived.add(name)
                changed = True
    params = set()
    for name, f in funcs.items():
        pn = f.typed_params()
        for i, (t, p) in enumerate(pn):
            if t.strip() != 'int' or not p:
                continue
            sites = []
            for caller, g in funcs.items():
                body = strip_c_comments(g.expanded_body() or '')
                for callee, args, off in X.c_calls_in_text(body):
                    if callee == name and i < len(args):
                        a = args[i].strip()
                        src = re.search(r'\b%s\s*=\s*(%s)\s*\(' % (re.escape(a), '|'.join(sorted(TRISTATE_API | derived))), body) if re.fullmatch(r'[A-Za-z_]\w*', a) else None
                        sites.append(bool(src))
            if sites and all(sites):
                params.add((name, p))
    return funcs, derived, params


def tristate_problems(fname, f, derived, tri_params):
    from . import pC15 as X
    from . import sC02
    problems, raises = [], 0
    sources = TRISTATE_API | derived
    for cfg, text in sC02._pp_texts(f.expanded_body()):
        tree = X.parse_c_function_body(text)
        base = []

        def tri(sym, st, name):
            n = st['aux'].get('tri#', 0)
            st['aux']['tri#'] = n + 1
            v = Lf.sym('%s$%d' % (name, n))
            st['pc'] = st['pc'] + [v + Lf(1), Lf(1) - v]
            st['aux']['pending'] = (v, name)
            return v

        def assign(sym, name, rhs, v, st):
            r = X.strip_wrappers(rhs)
            if r[0] == 'call' and r[1][0] == 'id' and r[1][1] in sources:
                return tri(sym, st, name)
            return None

        def effect(sym, e0, st):
            if e0[0] == 'call' and e0[1][0] == 'id':
                nm = e0[1][1]
                if nm == 'PyErr_Clear':
                    st['aux']['pending'] = None
                elif nm in _RAISERS:
                    st['events'].append(('raise', X.c_text(e0[2][0]) if e0[2] else '?', st['aux'].get('pending'), list(st['pc'])))
        inputs = {}
        sym = LinSym(inputs, base, hooks={'assign': assign, 'effect': effect})
        st0 = None
        # tri-state parameters start as pending results
        pre = [p for (fn_, p) in tri_params if fn_ == fname]
        orig_run = sym.run

        def run_with_params(tree):
            st = {'env': {}, 'pc': [], 'atoms': {}, 'events': [], 'aux': {}}
            for p in pre:
                v = Lf.sym(p + '$in')
                st['env'][p] = v
                st['pc'] += [v + Lf(1), Lf(1) - v]
                st['aux']['pending'] = (v, p)
            top = tree[1]
            for kind, payload, s2 in sym.exec_list(top, st):
                if kind == 'goto':
                    raise LsGiveUp('goto')
                sym.finish(('fall',), s2)
            return sym.results
        res = run_with_params(tree)
        for pc, o, ev, at, aux in res:
            for e in ev:
                if e[0] != 'raise':
                    continue
                raises += 1
                _, exc, pending, pc_at = e
                if pending is None:
                    continue
                v, name = pending
                if fm_feasible(base + pc_at + [-v - Lf(1)]):
                    problems.append('%s sets %s on a path where the tri-state result %r may be -1 (an exception is already set by the failed lookup / comparison): the '
                                    'pending exception - TypeError for an unhashable key, an error raised by __eq__ - is replaced [%s]' % (fname, exc, name, cfg))
    seen, out = set(), []
    for p_ in problems:
        k = re.sub(r' \[.*\]$', '', p_)
        if k not in seen:
            seen.add(k)
            out.append(p_)
    return raises, out


def rule_tristate(ctx, floor=1):
    r = Rule('C13-TRISTATE', 'helpers built on three-valued C-API predicates (PySet_Discard, PyDict_Contains, ...: 1 / 0 / -1 with an exception set): a new exception is '
             'only raised on paths where the latest result cannot be -1 (or after PyErr_Clear())', floor)
    funcs, derived, params = tristate_functions(ctx)
    r.info('helpers returning a tri-state result: %s; tri-state parameters: %s' % (sorted(derived), sorted(params)))
    n = 0
    for name, f in sorted(funcs.items()):
        body = strip_c_comments(f.expanded_body() or '')
        uses = re.search(r'\b(%s)\s*\(' % '|'.join(sorted(TRISTATE_API | derived)), body) or any(fn_ == name for fn_, _ in params)
        if not uses or not re.search(r'\b(%s)\s*\(' % '|'.join(_RAISERS), body):
            continue
        try:
            raises, probs = tristate_problems(name, f, derived, params)
        except (LsGiveUp, AnalysisError) as e:
            r.info('%s: outside the modelled C subset (%s)' % (name, str(e)[:60]))
            continue
        n += 1
        r.inst(name, sample='%s: %d raise site(s) on the explored paths' % (name, raises), nontrivial=raises > 0)
        for i, m in enumerate(probs[:3]):
            r.violate('%s:%d' % (name, i), f.file, f.line, m)
    if not n:
        raise AnalysisError('no helper that raises after a tri-state predicate found (py_set_remove moved?)')

    class _F:
        def __init__(self, body):
            self._b = body

        def expanded_body(self):
            return self._b
    pc = _F('{ if (unlikely(found < 0)) { found = __Pyx_PySet_DiscardUnhashable(set, key); } if (likely(found <= 0)) { PyErr_SetObject(PyExc_KeyError, key); return -1; } return found; }')
    _, probs = tristate_problems('pc', pc, {'__Pyx_PySet_DiscardUnhashable'}, {('pc', 'found')})
    r.positive_control(bool(probs), 'KeyError raised for found <= 0 (including the error result -1) is reported')
    return r
