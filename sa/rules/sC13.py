"""Strengthening rules for C13 (builtin call / method optimisations).

C13-USCORE  the digit-separator stripping loops of the optimised float() parsers (Cython/Utility/Optimize.c) accept no
            underscore that CPython rejects.  The loop is *extracted* as a finite automaton (state = the integer locals it
            updates, input = one character) by a small C statement interpreter that belongs to the checker; the product
            (extracted automaton) x (grammar of the stripped text accepted by PyOS_string_to_double) x (CPython's separator rule:
            an underscore stands between two digits) is explored completely; an accepting product state that carries a
            misplaced underscore is a string for which the optimised float() returns a value where CPython raises ValueError.
            No helper is run: the alphabet is the complete set of characters a valid stripped literal can contain, the state
            space is finite and explored exhaustively.

C13-NONEARG writer/reader agreement for the "runtime None means default" protocol: a value that a handler stores for the
            consumer which tests it by *truthiness* must be truthy whenever it is not None (a falsy 0 silently drops the None check).
"""
import ast, re
from collections import deque

from ..core import Rule, AnalysisError
from ..engine import cexpr
from ..engine.cutil import strip_c_comments
from . import pC17

# ------------------------------------------------------------------------------------------------------------ C13-USCORE
DIGITS = '0123456789'
ALPHABET = DIGITS + '_.eE+-'       # every character that can occur in a text whose '_'-stripped form strtod accepts completely
SEP = '_'
FAIL = 'FAIL'

DECL = re.compile(r'^(?:(?:const|unsigned|signed|static|register)\s+)*([A-Za-z_]\w*)\s+(\**)\s*([A-Za-z_]\w*)\s*(?:=\s*(.+))?$')
ASSIGN = re.compile(r'^([A-Za-z_]\w*)\s*(\|=|&=|\^=|\+=|-=|=)(?!=)\s*(.+)$')
KEYWORDS = ('return', 'goto', 'break', 'continue')


class _Jump(Exception):
    def __init__(self, kind, arg=None):
        self.kind, self.arg = kind, arg


class SepLoop:
    """One separator-stripping function: the loop that reads a character, compares it with '_' and copies it."""

    def __init__(self, name, params, body_text):
        self.name = name
        self.stmts = pC17.parse_body(body_text)
        self.pointers = set()
        for p in params or []:
            m = re.search(r'([A-Za-z_]\w*)\s*$', p)
            if m and '*' in p:
                self.pointers.add(m.group(1))
        loops = [(i, st) for i, st in enumerate(self.stmts) if st.kind in ('for', 'while')
                 and any(s.kind in ('simple', 'if') and re.search(r"[!=]=\s*'_'", s.text) for s in pC17.walk(pC17.as_list(st.body)))
                 and len(pC17.as_list(st.body)) >= 2]
        if len(loops) != 1:
            raise AnalysisError('%s: expected exactly one top-level character loop that tests for the separator, found %d' % (name, len(loops)))
        self.loop_index, self.loop = loops[0]
        # the character variable: the identifier compared with '_'
        cands = set()
        for s in pC17.walk(pC17.as_list(self.loop.body)):
            for m in re.finditer(r"\b([A-Za-z_]\w*)\s*[!=]=\s*'_'", s.text):
                cands.add(m.group(1))
        if len(cands) != 1:
            raise AnalysisError('%s: the character variable of the separator loop is ambiguous: %r' % (name, sorted(cands)))
        self.chr = cands.pop()
        # integer locals declared outside the loop: they carry the state from one character to the next
        self.persistent = set()
        for st in self.stmts:
            if st.kind == 'simple':
                m = DECL.match(st.text)
                if m and m.group(1) not in KEYWORDS and not ASSIGN.match(st.text) and not m.group(2):
                    self.persistent.add(m.group(3))
        self.labels = {st.text: i for i, st in enumerate(self.stmts) if st.kind == 'label'}

    # -- interpreter of the extracted statements (integers only; pointer stores/advances do not influence the decision) --
    def _ev(self, text, env):
        try:
            e = cexpr.parse(text)
        except cexpr.ParseError as ex:
            raise AnalysisError('%s: cannot parse C expression %r (%s)' % (self.name, text, ex))
        full = dict(env)
        full.setdefault('NULL', 0)
        for p in self.pointers:
            full.setdefault(p, 1)          # a valid (non-NULL) pointer
        try:
            return cexpr.evaluate(e, full)
        except cexpr.EvalError as ex:
            raise AnalysisError('%s: cannot evaluate %r over the integer state (%s)' % (self.name, text, ex))

    def _simple(self, text, env, cur):
        t = text.strip()
        if not t:
            return
        w = re.match(r'[A-Za-z_]\w*', t)
        if w and w.group(0) == 'goto':
            raise _Jump('goto', t[4:].strip())
        if w and w.group(0) == 'return':
            raise _Jump('return', self._ev(t[6:].strip(), env) if t[6:].strip() else 1)
        if w and w.group(0) in ('break', 'continue'):
            raise _Jump(w.group(0))
        if t.startswith('*'):
            return                          # store through a pointer: the copied text, not the decision
        m = DECL.match(t)
        if m and m.group(1) not in KEYWORDS and not ASSIGN.match(t):
            typ, stars, var, init = m.groups()
            if stars:
                self.pointers.add(var)
                return
            if var == self.chr:
                if cur is None:
                    raise AnalysisError('%s: character variable declared outside the loop' % self.name)
                env[var] = ord(cur)
                return
            if init is not None:
                env[var] = self._ev(init, env)
            return
        m = ASSIGN.match(t)
        if m:
            var, op, rhs = m.groups()
            if var in self.pointers:
                return
            if var == self.chr:
                if cur is None:
                    raise AnalysisError('%s: character variable assigned outside the loop' % self.name)
                env[var] = ord(cur)
                return
            v = self._ev(rhs, env)
            if op == '=':
                env[var] = v
                return
            if var not in env:
                raise AnalysisError('%s: %s is updated before it is initialised' % (self.name, var))
            env[var] = {'|=': env[var] | v, '&=': env[var] & v, '^=': env[var] ^ v, '+=': env[var] + v, '-=': env[var] - v}[op]
            return
        if re.fullmatch(r'[A-Za-z_]\w*\s*(\+\+|--)|(\+\+|--)\s*[A-Za-z_]\w*', t):
            return                          # loop counters
        if re.fullmatch(r'\(void\)\s*\w+|CYTHON_UNUSED_VAR\(\w+\)', t):
            return
        raise AnalysisError('%s: statement %r of the separator loop is not modelled' % (self.name, t))

    def _exec(self, stmts, env, cur):
        for st in stmts:
            if st.kind == 'simple':
                self._simple(st.text, env, cur)
            elif st.kind == 'block':
                self._exec(st.body, env, cur)
            elif st.kind == 'if':
                if self._ev(st.text, env):
                    self._exec(pC17.as_list(st.body), env, cur)
                elif st.orelse is not None:
                    self._exec(pC17.as_list(st.orelse), env, cur)
            elif st.kind in ('label', 'pp'):
                continue
            else:
                raise AnalysisError('%s: nested %s statement in the separator function is not modelled' % (self.name, st.kind))

    def _finish(self, start, env):
        """run the top-level statements from index `start` to the function's return -> True (a buffer is returned) / False"""
        i, hops = start, 0
        while True:
            try:
                self._exec(self.stmts[i:], env, None)
            except _Jump as j:
                if j.kind == 'return':
                    return bool(j.arg)
                if j.kind == 'goto' and j.arg in self.labels and hops < 8:
                    i, hops = self.labels[j.arg], hops + 1
                    continue
                raise AnalysisError('%s: jump %s %s is not modelled' % (self.name, j.kind, j.arg))
            raise AnalysisError('%s: control reaches the end without return' % self.name)

    def initial(self):
        env = {}
        try:
            self._exec(self.stmts[:self.loop_index], env, None)
        except _Jump as j:
            raise AnalysisError('%s: jump before the separator loop' % self.name)
        # loop header initialisers are counters only
        return self._freeze(env)

    @staticmethod
    def _freeze(env):
        return tuple(sorted(env.items()))

    def step(self, state, ch):
        env = dict(state)
        try:
            self._exec(pC17.as_list(self.loop.body), env, ch)
        except _Jump as j:
            if j.kind == 'continue':
                pass
            elif j.kind == 'break':
                raise AnalysisError('%s: break inside the separator loop is not modelled' % self.name)
            else:
                ok = self._jump_out(j, env)
                return FAIL if not ok else ('ACCEPT-EARLY',)
        # locals declared in the loop body do not survive the iteration
        return self._freeze({k: v for k, v in env.items() if k in self.persistent})

    def _jump_out(self, j, env):
        if j.kind == 'return':
            return bool(j.arg)
        if j.kind == 'goto' and j.arg in self.labels:
            return self._finish(self.labels[j.arg], env)
        raise AnalysisError('%s: jump %s %s out of the loop is not modelled' % (self.name, j.kind, j.arg))

    def accepts(self, state):
        return self._finish(self.loop_index + 1, dict(state))


# grammar of the stripped text: [+-]? (D+ ('.' D*)? | '.' D+) ([eE] [+-]? D+)?   (what PyOS_string_to_double consumes completely)
def _gram_step(g, ch):
    d = ch in DIGITS
    if g == 'S':
        return 'SG' if ch in '+-' else 'I' if d else 'P0' if ch == '.' else None
    if g == 'SG':
        return 'I' if d else 'P0' if ch == '.' else None
    if g == 'I':
        return 'I' if d else 'F' if ch == '.' else 'E' if ch in 'eE' else None
    if g == 'P0':
        return 'F' if d else None
    if g == 'F':
        return 'F' if d else 'E' if ch in 'eE' else None
    if g == 'E':
        return 'ES' if ch in '+-' else 'X' if d else None
    if g == 'ES':
        return 'X' if d else None
    if g == 'X':
        return 'X' if d else None
    return None


GRAM_ACCEPT = ('I', 'F', 'X')


def _cls(ch, g_before):
    """name of the neighbour class used in construct keys"""
    if ch in DIGITS:
        return 'digit'
    if ch in '+-':
        return 'exponent-sign' if g_before == 'E' else 'leading-sign'
    return {'.': "'.'", 'e': "'e'", 'E': "'E'", '_': "'_'"}[ch]


def misplaced_separators(loop, prefiltered=True):
    """-> {kind: shortest witness}: kinds of misplaced underscore (CPython: ValueError) that occur in a text the extracted
    automaton accepts and whose stripped form the float grammar accepts.  kind = ('after', class) | ('before', class|'end')."""
    init = (loop.initial(), 'S', ('ok', 'start'), '')
    seen = {init[:3]}
    todo = deque([init])
    found = {}
    while todo:
        cy, g, mon, w = todo.popleft()
        # end of text
        if g in GRAM_ACCEPT and cy != FAIL:
            endmon = mon
            if mon[0] == 'ok' and mon[1] == 'sep':
                endmon = ('bad', ('before', 'end'))
            if endmon[0] == 'bad' and loop.accepts(cy) and endmon[1] not in found:
                found[endmon[1]] = w
        if len(w) > 12:
            continue
        for ch in ALPHABET:
            if ch == SEP:
                g2 = g
                if prefiltered and g in ('S', 'SG'):
                    continue        # the callers reject a text whose first character (after a sign) is neither a digit nor '.'
            else:
                g2 = _gram_step(g, ch)
                if g2 is None:
                    continue
            cy2 = loop.step(cy, ch)
            if cy2 == FAIL:
                continue
            if cy2 == ('ACCEPT-EARLY',):
                raise AnalysisError('%s: returns a buffer from inside the loop' % loop.name)
            if mon[0] == 'bad':
                mon2 = mon
            elif ch == SEP:
                mon2 = ('ok', 'sep') if mon[1] == 'digit' else ('bad', ('after', "'_'" if mon[1] == 'sep' else mon[1]))
            elif mon[1] == 'sep' and ch not in DIGITS:
                mon2 = ('bad', ('before', _cls(ch, g)))
            else:
                mon2 = ('ok', _cls(ch, g))
            k = (cy2, g2, mon2)
            if k not in seen:
                seen.add(k)
                todo.append((cy2, g2, mon2, w + ch))
    return found, len(seen)


ALL_KINDS = [('after', "'_'"), ('after', "'.'"), ('after', "'e'"), ('after', "'E'"), ('after', 'exponent-sign'),
             ('before', "'.'"), ('before', "'e'"), ('before', "'E'"), ('before', 'end')]

_PC_BAD = ('static const char* pc(const char* start, char* buffer, Py_ssize_t length)',
           "{ int last = 1; int err = 0; Py_ssize_t i; for (i=0; i < length; i++) { char c = start[i]; int p = (c == '_') | (c == '.'); "
           "*buffer = c; buffer += (c != '_'); err |= last & p; last = p; } err |= last; *buffer = '\\0'; return err ? NULL : buffer; }")

def _sep_functions(ctx, rel='Cython/Utility/Optimize.c'):
    """functions of the utility file that contain a separator-stripping loop: (name, CDecl)"""
    out = []
    fname = rel.rsplit('/', 1)[1]
    for name, decls in sorted(ctx.cat.decls.items()):
        for d in decls:
            if d.kind != 'func' or d.file != fname or not d.body:
                continue
            if not re.search(r"[!=]=\s*'_'", d.body):
                continue
            try:
                stmts = pC17.parse_body(d.body)
            except AnalysisError:
                continue
            if any(st.kind in ('for', 'while') and len(pC17.as_list(st.body)) >= 2
                   and any(re.search(r"[!=]=\s*'_'", s.text) for s in pC17.walk(pC17.as_list(st.body)) if s.kind in ('simple', 'if'))
                   for st in stmts):
                out.append((name, d))
    return out


# constructs of FINDING_1 (fail on the unmodified tree): checked by rule_uscore(pending=True), which is not registered
PENDING_FINDING = {
    "__Pyx__PyBytes_AsDouble_Copy:'_' after exponent-sign",        # float("1e+_5") == 100000.0
    "__Pyx__PyUnicode_AsDouble_Copy:'_' after exponent-sign",
    "__Pyx__PyUnicode_AsDouble_Copy:'_' after 'e'",                # latent: the non-ASCII parser always falls back today (FINDING_2)
    "__Pyx__PyUnicode_AsDouble_Copy:'_' after 'E'",
    "__Pyx__PyUnicode_AsDouble_Copy:'_' before 'e'",
    "__Pyx__PyUnicode_AsDouble_Copy:'_' before 'E'",
}


def rule_uscore(ctx, pending=False, floor=None):
    """pending=False: the obligations that hold on today's tree (registered).
    pending=True : the obligations of FINDING_1 (exponent sign followed by '_' in the bytes/ASCII parser; the non-ASCII parser) —
                   NOT registered in run() until the finding is resolved."""
    rid = 'C13-USCORE' + ('-PENDING' if pending else '')
    r = Rule(rid, "optimised float(): the '_'-stripping copy loops (extracted automaton x strtod grammar x CPython separator rule, explored "
                  "completely) accept no text with an underscore that is not between two digits (CPython: ValueError; here a value would be returned)",
             floor if floor is not None else (10 if not pending else 1))
    funcs = _sep_functions(ctx)
    if not funcs:
        raise AnalysisError("no '_'-stripping character loop found in Cython/Utility/Optimize.c (pybytes_as_double / pyunicode_as_double moved?)")
    for name, d in funcs:
        loop = SepLoop(name, d.params, d.body)
        found, nstates = misplaced_separators(loop)
        for kind in ALL_KINDS:
            key = '%s:%s' % (name, "'_' %s %s" % kind)
            if (key in PENDING_FINDING) != pending:
                continue
            r.inst(key, sample='%s (%d product states explored)' % (key, nstates))
            if kind in found:
                w = found[kind]
                r.violate(key, 'Cython/Utility/Optimize.c', d.line,
                          "%s accepts an underscore %s %s: e.g. for the text %r the copy loop reports no parse error and the stripped text %r is a "
                          "complete float literal, so the optimised float() returns a value where CPython raises ValueError "
                          "(underscores are only allowed between digits)" % (name, kind[0], kind[1], w, w.replace('_', '')))
    bad, _ = misplaced_separators(SepLoop('pc', ['const char* start', 'char* buffer', 'Py_ssize_t length'], _PC_BAD[1]))
    r.positive_control(('after', "'e'") in bad and ('before', "'E'") in bad and ('after', "'.'") not in bad and ('before', 'end') not in bad,
                       "a loop whose punctuation class lacks 'e'/'E' accepts 1_e5 / 1e_5 but not 1._5 / 1_")
    return r


# ------------------------------------------------------------------------------------------------------------ C13-NONEARG
from . import pC02 as P
from ..engine.pyindex import walk_no_nested

_PURE_STR = {'lstrip', 'rstrip', 'strip', 'isdecimal', 'isdigit', 'isnumeric', 'isidentifier', 'lower', 'upper', 'startswith', 'endswith',
             'replace', 'format', 'join', 'split', 'removeprefix', 'removesuffix', 'zfill'}


class NodeVal:
    """An ExprNode built by the analysed code: class name + the keyword values that could be evaluated."""

    def __init__(self, cls, kw):
        self.cls, self.kw = cls, kw

    def __repr__(self):
        return '%s(%s)' % (self.cls, ', '.join('%s=%r' % kv for kv in sorted(self.kw.items()) if kv[1] is not P.UNKNOWN))


class _Fork(Exception):
    def __init__(self, key):
        self.key = key


class Ev2(P.Ev):
    """P.Ev + pure str methods + isinstance on builtin types + node constructors (ExprNodes.X(...), ExprNodes.X.for_*(...)) resolved
    through the index and kept as NodeVal records."""

    def __init__(self, ix, env, atoms):
        def on_atom(t, n):
            raise _Fork(t)
        P.Ev.__init__(self, env, atoms=atoms, symbols=True, on_atom=on_atom)
        self.ix = ix

    def e_Attribute(self, n):
        try:
            v = self.ev(n.value)
        except P.Unknown:
            raise
        if isinstance(v, str) and n.attr in _PURE_STR:
            return getattr(v, n.attr)
        return P.Ev.e_Attribute(self, n)

    def _node_class(self, sym):
        parts = sym.name.split('.')
        for i in range(len(parts)):
            if parts[i] == 'ExprNodes' and i + 1 < len(parts):
                try:
                    c = self.ix.cls('ExprNodes', parts[i + 1])
                except AnalysisError:
                    return None, None
                return c, parts[i + 2:]
        return None, None

    def e_Call(self, n):
        if isinstance(n.func, ast.Name) and n.func.id == 'isinstance' and len(n.args) == 2:
            v = self.ev(n.args[0])
            t = self.ev(n.args[1])
            ts = t if isinstance(t, tuple) else (t,)
            if isinstance(v, NodeVal):
                names = []
                for x in ts:
                    if not isinstance(x, P.Sym):
                        raise P.Unknown(P._txt(n))
                    names.append(x.name.split('.')[-1])
                c = self.ix.cls('ExprNodes', v.cls)
                return any(k.name in names for k in self.ix.mro(c))
            if all(isinstance(x, type) for x in ts) and not isinstance(v, (P.Sym, P.Obj)) and v is not P.UNKNOWN:
                return isinstance(v, tuple(ts))
            raise P.Unknown(P._txt(n))
        try:
            f = self.ev(n.func)
        except P.Unknown:
            f = None
        if isinstance(f, P.Sym):
            c, rest = self._node_class(f)
            if c is not None:
                kw = {}
                for k in n.keywords:
                    if k.arg:
                        try:
                            kw[k.arg] = self.ev(k.value)
                        except P.Unknown:
                            kw[k.arg] = P.UNKNOWN
                if not rest:
                    return NodeVal(c.name, kw)
                if len(rest) == 1:
                    found = self.ix.find_method(c, rest[0])
                    if found:
                        owner, fn = found
                        if any(isinstance(d, ast.Name) and d.id == 'classmethod' for d in fn.decorator_list):
                            return self._inline_classmethod(c, fn, n, kw)
        return P.Ev.e_Call(self, n)

    def _inline_classmethod(self, c, fn, call, kw, depth=0):
        params = [a.arg for a in fn.args.args]
        env = {params[0]: P.Sym('ExprNodes.' + c.name)}
        defaults = fn.args.defaults
        for p, d in zip(params[len(params) - len(defaults):], defaults):
            try:
                env[p] = Ev2(self.ix, {}, {}).ev(d)
            except (P.Unknown, _Fork):
                env[p] = P.UNKNOWN
        for p, a in zip(params[1:], call.args):
            try:
                env[p] = self.ev(a)
            except P.Unknown:
                env[p] = P.UNKNOWN
        env.update(kw)
        sub = Ev2(self.ix, env, {})
        for s in fn.body:
            if isinstance(s, ast.Return) and isinstance(s.value, ast.Call):
                try:
                    return sub.ev(s.value)
                except _Fork:
                    raise P.Unknown(P._txt(call))
            if isinstance(s, (ast.Assert, ast.Expr)):
                continue
            raise P.Unknown(P._txt(call))
        raise P.Unknown(P._txt(call))


def helper_paths(ix, fn, env0, limit=256):
    """All paths through a helper method for one call site.  -> [(atoms, events)]; events:
    ('store', attr, value, base name), ('bind', name, NodeVal)"""
    out = []
    todo = [dict()]
    n = 0
    while todo:
        d = todo.pop()
        n += 1
        if n > limit:
            raise AnalysisError('%s: more than %d paths' % (fn.name, limit))
        env = dict(env0)
        atoms = dict(d)
        events = []
        ev = Ev2(ix, env, atoms)

        def block(stmts):
            for s in stmts:
                if isinstance(s, ast.If):
                    r = block(s.body if ev.truth(s.test) else s.orelse)
                    if r:
                        return r
                elif isinstance(s, ast.Return):
                    return 'return'
                elif isinstance(s, ast.Raise):
                    return 'raise'
                elif isinstance(s, ast.Assign):
                    try:
                        v = ev.ev(s.value)
                    except P.Unknown:
                        v = P.UNKNOWN
                    for t in s.targets:
                        if isinstance(t, ast.Name):
                            env[t.id] = v
                            if isinstance(v, NodeVal):
                                events.append(('bind', t.id, v))
                        elif isinstance(t, ast.Attribute) and isinstance(t.value, ast.Name):
                            events.append(('store', t.attr, v, t.value.id))
                        elif isinstance(t, (ast.Tuple, ast.List)):
                            for x in ast.walk(t):
                                if isinstance(x, ast.Name):
                                    env[x.id] = P.UNKNOWN
                elif isinstance(s, ast.AugAssign):
                    if isinstance(s.target, ast.Name):
                        env[s.target.id] = P.UNKNOWN
                elif isinstance(s, (ast.Expr, ast.Pass, ast.Assert)):
                    continue
                else:
                    raise AnalysisError('%s: statement kind %s is outside the modelled helper subset' % (fn.name, type(s).__name__))
            return None
        try:
            block(fn.body)
        except _Fork as f:
            for b in (False, True):
                d2 = dict(d)
                d2[f.key] = b
                todo.append(d2)
            continue
        out.append((atoms, events))
    return out


def _c_const(v):
    """normal form of a value used as a C integer constant / name in emitted code"""
    if isinstance(v, bool):
        return None
    if isinstance(v, int):
        return str(v)
    if isinstance(v, str):
        t = v.strip()
        if re.fullmatch(r'[+-]?\d+', t):
            return str(int(t))
        return t
    return None


def channel_readers(ix, attr):
    """functions that take a parameter named like the channel and *use* it (not only forward it by keyword):
    -> [(module, qualname, fn, mode)]  mode: 'truth' (tested by truthiness) | 'notnone' | 'asserted-absent' | 'used'"""
    out = []
    for m in ix.modules.values():
        if not m.name.startswith('Cython.Compiler'):
            continue
        for qn, owner, fn in ix.functions_of(m):
            if attr not in [a.arg for a in fn.args.args + fn.args.kwonlyargs]:
                continue
            uses = []
            parents = {}
            for x in walk_no_nested(fn):
                for ch in ast.iter_child_nodes(x):
                    parents[id(ch)] = x
            for x in walk_no_nested(fn):
                if isinstance(x, ast.Name) and x.id == attr and isinstance(x.ctx, ast.Load):
                    par = parents.get(id(x))
                    if isinstance(par, ast.keyword) and par.arg == attr:
                        continue            # forwarded unchanged
                    uses.append((x, par))
            if not uses:
                continue
            mode = 'used'
            for x, par in uses:
                if isinstance(par, (ast.If, ast.IfExp, ast.While)) and par.test is x:
                    mode = 'truth'
                elif isinstance(par, ast.BoolOp):
                    mode = 'truth'
                elif isinstance(par, ast.UnaryOp) and isinstance(par.op, ast.Not):
                    gp = parents.get(id(par))
                    mode = 'asserted-absent' if isinstance(gp, ast.Assert) else 'truth'
                elif isinstance(par, ast.Compare) and len(par.ops) == 1 and isinstance(par.ops[0], (ast.Is, ast.IsNot)) \
                        and isinstance(par.comparators[0], ast.Constant) and par.comparators[0].value is None and mode == 'used':
                    mode = 'notnone'
            out.append((m, qn, fn, mode))
    return out


def none_ternary_problem(fn, attr):
    """In a reader: the C text built from the channel value must select it exactly when the source IS None.
    -> None | problem text | 'no-template' when no conditional template is found."""
    for x in walk_no_nested(fn):
        if isinstance(x, ast.BinOp) and isinstance(x.op, ast.Mod) and isinstance(x.left, ast.Constant) and isinstance(x.left.value, str) \
                and '?' in x.left.value and isinstance(x.right, ast.Tuple):
            names = [P._txt(e) for e in x.right.elts]
            if attr not in names:
                continue
            tpl = x.left.value
            n = 0

            def sub(m):
                nonlocal n
                n += 1
                return '__ph%d' % (n - 1)
            text = re.sub(r'%[sdr]', sub, tpl)
            if n != len(names):
                return 'template %r has %d placeholders for %d values' % (tpl, n, len(names))
            try:
                e = cexpr.parse(text)
            except cexpr.ParseError as ex:
                raise AnalysisError('%s: cannot parse the conditional template %r (%s)' % (fn.name, tpl, ex))
            while e[0] == 'call' and e[1] in ('likely', 'unlikely') and len(e[2]) == 1:
                e = e[2][0]
            if e[0] != 'tern':
                return 'template %r is not a conditional expression' % tpl
            cond, a, b = e[1], e[2], e[3]
            ph = '__ph%d' % names.index(attr)
            neg = False
            while True:
                if cond[0] == 'un' and cond[1] == '!':
                    neg, cond = not neg, cond[2]
                elif cond[0] == 'call' and cond[1] in ('likely', 'unlikely') and len(cond[2]) == 1:
                    cond = cond[2][0]
                else:
                    break
            is_none_test = None
            if cond[0] == 'call' and re.search(r'IsNone$|Is_None$', cond[1]):
                is_none_test = True
            elif cond[0] == 'bin' and cond[1] in ('==', '!=') and any(s[0] == 'id' and s[1] == 'Py_None' for s in (cond[2], cond[3])):
                is_none_test = cond[1] == '=='
            if is_none_test is None:
                return 'the condition of %r is not a test for None' % tpl
            selects_on_none = a if (is_none_test != neg) else b
            other = b if selects_on_none is a else a
            has = lambda t: any(s[0] == 'id' and s[1] == ph for s in cexpr.walk(t))
            if not has(selects_on_none) or has(other):
                return 'the special value is selected when the argument is NOT None (template %r with %s)' % (tpl, ', '.join(names))
            return None
    return 'no-template'


def rule_nonearg(ctx, floor=8):
    r = Rule('C13-NONEARG', "argument-injection helpers: where a literal None selects the default, a run-time None does too — the C value stored for "
             "the consumer (a) exists on the coercion path, (b) equals the default injected statically, (c) passes the consumer's own presence "
             "test (a falsy 0 tested by truthiness is dropped), and the consumer's C conditional selects it exactly for None", floor)
    ix = ctx.index
    cls = ix.cls('Optimize', 'OptimizeBuiltinCalls')
    coercion = ix.cls('ExprNodes', 'CoercionNode')
    # channels: attributes of coercion nodes with a class default of None that a method of the optimiser stores on a foreign node
    channels = {}
    for name, fn in cls.methods.items():
        for s in walk_no_nested(fn):
            if isinstance(s, ast.Assign):
                for t in s.targets:
                    if isinstance(t, ast.Attribute) and isinstance(t.value, ast.Name) and t.value.id != 'self':
                        owners = [c for c in ix.subclasses(coercion) if t.attr in c.attrs
                                  and isinstance(c.attrs[t.attr], ast.Constant) and c.attrs[t.attr].value is None]
                        if owners:
                            channels.setdefault(t.attr, {})[name] = fn
    if not channels:
        raise AnalysisError('no optimiser method stores a None-defaulted attribute on a coercion node (special_none_cvalue protocol moved?)')
    for attr, helpers in sorted(channels.items()):
        readers = channel_readers(ix, attr)
        modes = {mode for _, _, _, mode in readers if mode in ('truth', 'notnone', 'used')}
        if not readers or not modes:
            raise AnalysisError('channel %s has no consumer that uses the value' % attr)
        needs_truth = 'truth' in modes
        for m, qn, fn, mode in readers:
            if mode == 'asserted-absent':
                continue
            key = '%s.%s:%s:none-selects-value' % (m.short, qn, attr)
            prob = none_ternary_problem(fn, attr)
            if prob == 'no-template':
                r.info('%s uses %s without a %%-template conditional (not modelled)' % (qn, attr))
                continue
            r.inst(key, sample='%s (%s tested by %s)' % (key, attr, mode))
            if prob:
                r.violate(key, m.rel, fn.lineno, '%s.%s: %s — a run-time None would be converted (TypeError) and every other value replaced by the default'
                          % (m.short, qn, prob))
        for hname, hfn in sorted(helpers.items()):
            params = [a.arg for a in hfn.args.args]
            defaults = {}
            for p, d in zip(params[len(params) - len(hfn.args.defaults):], hfn.args.defaults):
                if isinstance(d, ast.Constant):
                    defaults[p] = d.value
            sites = []
            for cname, cfn in sorted(cls.methods.items()):
                for c in walk_no_nested(cfn):
                    if isinstance(c, ast.Call) and isinstance(c.func, ast.Attribute) and c.func.attr == hname \
                            and isinstance(c.func.value, ast.Name) and c.func.value.id == 'self':
                        sites.append((cname, c))
            if not sites:
                raise AnalysisError('%s is never called' % hname)
            seen_keys = {}
            for cname, c in sites:
                env = {p: P.UNKNOWN for p in params}
                env.update(defaults)
                bound = {}
                for p, a in zip(params[1:], c.args):
                    bound[p] = a
                for k in c.keywords:
                    if k.arg:
                        bound[k.arg] = k.value
                for p, a in bound.items():
                    if isinstance(a, ast.Constant):
                        env[p] = a.value
                    elif isinstance(a, ast.UnaryOp) and isinstance(a.op, ast.USub) and isinstance(a.operand, ast.Constant):
                        env[p] = -a.operand.value
                lits = ','.join('%s=%r' % (p, env[p]) for p in params[1:] if env.get(p) is not P.UNKNOWN and p in bound)
                key = 'OptimizeBuiltinCalls.%s<-%s(%s)' % (hname, cname, lits)
                seen_keys[key] = seen_keys.get(key, 0) + 1
                if seen_keys[key] > 1:
                    key += '#%d' % seen_keys[key]
                paths = helper_paths(ix, hfn, env)
                static_none = [(a, e) for a, e in paths if any(re.search(r'\.is_none$', k) and v for k, v in a.items())]
                stores = [(a, e, ev) for a, e in paths for ev in e if ev[0] == 'store' and ev[1] == attr]
                nodes = sorted({_c_const(ev[2].kw.get('value')) for a, e in paths for ev in e
                                if ev[0] == 'bind' and isinstance(ev[2], NodeVal) and _c_const(ev[2].kw.get('value')) is not None})
                r.inst(key, sample='%s: %d paths, static defaults %s, run-time None value %s' % (
                    key, len(paths), nodes, sorted({repr(ev[2]) for _, _, ev in stores})), nontrivial=bool(static_none or stores))
                if static_none and not stores:
                    r.violate(key, 'Cython/Compiler/Optimize.py', c.lineno,
                              '%s maps a literal None to the default %s but stores no %s on the coercion path: the same call with a variable that is '
                              'None at run time raises TypeError where the builtin method accepts None' % (hname, nodes, attr))
                for a, e, ev in stores:
                    v = ev[2]
                    if v is P.UNKNOWN or isinstance(v, (P.Sym, NodeVal)):
                        r.info('%s: value stored in %s is not a literal table value (not decided)' % (key, attr))
                        continue
                    if v is None:
                        continue
                    if needs_truth and not v:
                        r.violate(key, 'Cython/Compiler/Optimize.py', c.lineno,
                                  '%s stores %s = %r for a run-time None; the consumer (%s) tests the value by truthiness, so %r counts as "absent" and '
                                  'the None check is not generated: passing a variable that is None raises TypeError where the builtin method uses the default'
                                  % (hname, attr, v, ', '.join(sorted(q for _, q, _, md in readers if md == 'truth')), v))
                        continue
                    cv = _c_const(v)
                    if cv is None:
                        r.violate(key, 'Cython/Compiler/Optimize.py', c.lineno, '%s stores %s = %r, which is not a C constant' % (hname, attr, v))
                    elif nodes and cv not in nodes:
                        r.violate(key, 'Cython/Compiler/Optimize.py', c.lineno,
                                  '%s: a run-time None yields the C value %s but an omitted argument / a literal None yields %s — the same call gives '
                                  'different results depending on how None is spelt' % (hname, cv, ' / '.join(nodes)))
    # positive control: a helper that stores the integer 0 for a truthiness-testing consumer
    pc = ast.parse("def h(self, node, args, arg_index, type, default_value, none_is_default=True):\n"
                   "    if len(args) == arg_index or (none_is_default and args[arg_index].is_none):\n"
                   "        int_node = ExprNodes.IntNode(node.pos, value=str(default_value), type=type)\n"
                   "    else:\n"
                   "        arg = args[arg_index].coerce_to(type, self.current_env())\n"
                   "        arg.special_none_cvalue = int(default_value)\n").body[0]
    ps = helper_paths(ix, pc, {'self': P.UNKNOWN, 'node': P.UNKNOWN, 'args': P.UNKNOWN, 'arg_index': 2, 'type': P.UNKNOWN,
                               'default_value': '0', 'none_is_default': True})
    vals = [ev[2] for a, e in ps for ev in e if ev[0] == 'store']
    bound = [ev[2].kw.get('value') for a, e in ps for ev in e if ev[0] == 'bind']
    r.positive_control(vals and all(v == 0 and not isinstance(v, bool) for v in vals) and '0' in bound
                       and none_ternary_problem(ast.parse("def f(s, v, c):\n    return '(IsNone(%s) ? (%s) : (%s))' % (s, c, v)").body[0], 'v') is not None,
                       'stored integer 0 is seen as falsy while the static default is "0"; a swapped conditional template is rejected')
    return r
