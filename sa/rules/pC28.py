"""Helpers for C28 (and, for the evaluator, C30).

* MiniPy  — a small evaluator for the Python subset the compiler's *generator functions* are written in.  It runs a
  function's AST inside the checker on mock objects / constants; everything the driver does not supply is the OPAQUE
  value.  A test that depends on an opaque value stops the evaluation (Stopped); nothing from /repo is imported or
  executed by the interpreter running the checker, only whitelisted pure methods of str/list/dict/tuple/set values.
* MiniC   — parser + evaluator for the small C fragment that ModuleNode.generate_richcmp_function emits (switch,
  if/else, ?:, !, &&, calls), used to evaluate the *generated* comparison function on the outcomes of a total order.
* CPython struct layouts / function-pointer typedefs parsed from the installed headers.
* the frozen slot <-> special-method table of the language reference.
"""
import ast, os, re

from ..core import AnalysisError, node_src
from ..engine import tables
from ..engine.cutil import strip_c_comments, split_args


# ======================================================================================= MiniPy
class _Opaque:
    def __repr__(self):
        return '<?>'


OPQ = _Opaque()
NOT_HANDLED = object()


class PStr:
    """A string of which only a prefix is known."""
    def __init__(self, prefix):
        self.prefix = prefix

    def __repr__(self):
        return 'PStr(%r...)' % self.prefix


class NS:
    """Mock object: attributes are what the driver put there; anything else is opaque."""
    def __init__(self, _name='obj', **kw):
        self.__dict__['_name'] = _name
        self.__dict__.update(kw)

    def __repr__(self):
        return '<mock %s>' % self._name


class Undecidable(Exception):
    def __init__(self, node, why=''):
        Exception.__init__(self, why)
        self.node, self.why = node, why


class Stopped(Exception):
    """Evaluation reached a statement it cannot decide; .rest = statements (of the current function) not executed."""
    def __init__(self, rest, node, env, why=''):
        Exception.__init__(self, why)
        self.rest, self.node, self.env, self.why = rest, node, env, why


class Raised(Exception):
    """The evaluated repo code raised (raise statement, failed assert, KeyError on a table, ...)."""
    def __init__(self, what, node=None):
        Exception.__init__(self, what)
        self.what, self.node = what, node


class Unsupported(Exception):
    pass


class _Return(Exception):
    def __init__(self, value):
        self.value = value


class _Break(Exception):
    pass


class _Continue(Exception):
    pass


class Env:
    def __init__(self, parent=None, globals_=None):
        self.vars = {}
        self.parent = parent
        self.globals = globals_ if globals_ is not None else (parent.globals if parent else {})

    def get(self, name):
        e = self
        while e is not None:
            if name in e.vars:
                return e.vars[name]
            e = e.parent
        return self.globals.get(name, OPQ)

    def set(self, name, value):
        self.vars[name] = value


class Closure:
    def __init__(self, fn, env):
        self.fn, self.env = fn, env

    def __repr__(self):
        return '<closure %s>' % getattr(self.fn, 'name', 'lambda')


class _Bound:
    def __init__(self, obj, name):
        self.obj, self.name = obj, name


SAFE_METHODS = {
    str: {'strip', 'lstrip', 'rstrip', 'upper', 'lower', 'startswith', 'endswith', 'replace', 'join', 'split', 'format',
          'title', 'capitalize', 'find', 'count', 'isidentifier', 'partition', 'rpartition', 'encode'},
    list: {'append', 'extend', 'copy', 'index', 'count', 'insert', 'pop', 'sort', 'reverse', 'remove'},
    tuple: {'index', 'count'},
    dict: {'get', 'items', 'keys', 'values', 'copy', 'setdefault', 'update', 'pop'},
    set: {'add', 'update', 'copy', 'discard', 'union', 'intersection', 'difference', 'issubset', 'issuperset'},
    frozenset: {'union', 'intersection', 'difference', 'issubset', 'issuperset'},
}
SAFE_BUILTINS = {'max': max, 'min': min, 'len': len, 'str': str, 'int': int, 'bool': bool, 'tuple': tuple, 'list': list,
                 'sorted': sorted, 'set': set, 'dict': dict, 'frozenset': frozenset, 'any': any, 'all': all,
                 'enumerate': enumerate, 'zip': zip, 'range': range, 'reversed': reversed, 'repr': repr, 'sum': sum,
                 'True': True, 'False': False, 'None': None}


def _has_opq(v, depth=0):
    if v is OPQ or isinstance(v, PStr):
        return True
    if depth < 3 and isinstance(v, (list, tuple, set, frozenset)):
        return any(_has_opq(x, depth + 1) for x in v)
    if depth < 3 and isinstance(v, dict):
        return any(_has_opq(x, depth + 1) for x in v.values())
    return False


class MiniPy:
    def __init__(self, globals_=None, hook=None, on_stop=None, max_steps=400000):
        self.globals = dict(SAFE_BUILTINS)
        self.globals.update(globals_ or {})
        self.hook = hook            # hook(interp, call_node, env) -> value | NOT_HANDLED   (called before evaluation)
        self.on_stop = on_stop      # on_stop(interp, closure, Stopped) -> value of the call
        self.steps, self.max_steps = 0, max_steps

    # ------------------------------------------------------------------ values
    def truth(self, v, node):
        if v is OPQ or isinstance(v, PStr):
            raise Undecidable(node, 'test depends on a value the checker does not model: %s' % node_src(node, 80))
        return bool(v)

    # ------------------------------------------------------------------ expressions
    def eval(self, n, env):
        self.steps += 1
        if self.steps > self.max_steps:
            raise Unsupported('evaluation budget exhausted')
        m = getattr(self, 'e_' + type(n).__name__, None)
        if m is None:
            raise Unsupported('expression %s (%s)' % (type(n).__name__, node_src(n, 60)))
        return m(n, env)

    def e_Constant(self, n, env):
        return n.value

    def e_Name(self, n, env):
        return env.get(n.id)

    def _seq(self, elts, env):
        out = []
        for e in elts:
            if isinstance(e, ast.Starred):
                v = self.eval(e.value, env)
                if _has_opq(v) and not isinstance(v, (list, tuple)):
                    return None
                out.extend(v)
            else:
                out.append(self.eval(e, env))
        return out

    def e_Tuple(self, n, env):
        s = self._seq(n.elts, env)
        return OPQ if s is None else tuple(s)

    def e_List(self, n, env):
        s = self._seq(n.elts, env)
        return OPQ if s is None else list(s)

    def e_Set(self, n, env):
        s = self._seq(n.elts, env)
        if s is None or any(_has_opq(x) for x in s):
            return OPQ
        return set(s)

    def e_Dict(self, n, env):
        d = {}
        for k, v in zip(n.keys, n.values):
            if k is None:
                vv = self.eval(v, env)
                if not isinstance(vv, dict):
                    return OPQ
                d.update(vv)
                continue
            kk = self.eval(k, env)
            if _has_opq(kk):
                return OPQ
            d[kk] = self.eval(v, env)
        return d

    def e_JoinedStr(self, n, env):
        out = ''
        for p in n.values:
            if isinstance(p, ast.Constant):
                out += p.value
                continue
            v = self.eval(p.value, env)
            spec = ''
            if p.format_spec is not None:
                spec = self.eval(p.format_spec, env)
            if _has_opq(v) or _has_opq(spec) or isinstance(v, (NS, Closure)):
                return PStr(out)
            if p.conversion == ord('r'):
                v = repr(v)
            elif p.conversion == ord('s'):
                v = str(v)
            elif p.conversion == ord('a'):
                v = ascii(v)
            out += format(v, spec)
        return out

    def e_Attribute(self, n, env):
        v = self.eval(n.value, env)
        if v is OPQ or isinstance(v, PStr):
            return OPQ
        if isinstance(v, NS):
            if n.attr in v.__dict__:
                return v.__dict__[n.attr]
            ga = v.__dict__.get('_getattr')
            return ga(n.attr) if ga is not None else OPQ
        for t, names in SAFE_METHODS.items():
            if type(v) is t:
                if n.attr in names:
                    return _Bound(v, n.attr)
                raise Unsupported('method %s.%s' % (t.__name__, n.attr))
        if v is None:
            raise Raised("AttributeError: 'NoneType' object has no attribute %r" % n.attr, n)
        return OPQ

    def e_Subscript(self, n, env):
        v = self.eval(n.value, env)
        if isinstance(n.slice, ast.Slice):
            parts = [None if x is None else self.eval(x, env) for x in (n.slice.lower, n.slice.upper, n.slice.step)]
            if any(_has_opq(p) for p in parts):
                return OPQ
            idx = slice(*parts)
        else:
            idx = self.eval(n.slice, env)
        if isinstance(v, PStr) and isinstance(idx, slice) and idx.start in (None, 0) and isinstance(idx.stop, int) and 0 <= idx.stop <= len(v.prefix):
            return v.prefix[idx]
        if v is OPQ or isinstance(v, (PStr, NS)) or _has_opq(idx):
            return OPQ
        try:
            return v[idx]
        except (KeyError, IndexError, TypeError) as e:
            raise Raised('%s: %s' % (type(e).__name__, e), n)

    def e_Compare(self, n, env):
        left = self.eval(n.left, env)
        for op, right_n in zip(n.ops, n.comparators):
            right = self.eval(right_n, env)
            r = self._cmp(op, left, right, n)
            if r is OPQ:
                return OPQ
            if not r:
                return False
            left = right
        return True

    def _cmp(self, op, a, b, n):
        if isinstance(op, (ast.Is, ast.IsNot)):
            if a is OPQ or b is OPQ or isinstance(a, PStr) or isinstance(b, PStr):
                return OPQ
            r = a is b or (type(a) is type(b) and isinstance(a, (bool, type(None))) and a == b)
            return r if isinstance(op, ast.Is) else not r
        if isinstance(op, (ast.In, ast.NotIn)):
            if b is OPQ or isinstance(b, (PStr, NS)) or a is OPQ or isinstance(a, PStr):
                return OPQ
            try:
                r = a in b
            except TypeError as e:
                raise Raised('TypeError: %s' % e, n)
            if not r and _has_opq(b):
                return OPQ
            return r if isinstance(op, ast.In) else not r
        if _has_opq(a) or _has_opq(b):
            return OPQ
        try:
            if isinstance(op, ast.Eq):
                return a == b
            if isinstance(op, ast.NotEq):
                return a != b
            if isinstance(op, ast.Lt):
                return a < b
            if isinstance(op, ast.LtE):
                return a <= b
            if isinstance(op, ast.Gt):
                return a > b
            if isinstance(op, ast.GtE):
                return a >= b
        except TypeError as e:
            raise Raised('TypeError: %s' % e, n)
        raise Unsupported('comparison operator')

    def e_BoolOp(self, n, env):
        is_and = isinstance(n.op, ast.And)
        v = None
        for operand in n.values:
            v = self.eval(operand, env)
            if v is OPQ or isinstance(v, PStr):
                return OPQ
            t = bool(v)
            if is_and and not t:
                return v
            if not is_and and t:
                return v
        return v

    def e_UnaryOp(self, n, env):
        v = self.eval(n.operand, env)
        if isinstance(n.op, ast.Not):
            if v is OPQ or isinstance(v, PStr):
                return OPQ
            return not v
        if _has_opq(v):
            return OPQ
        if isinstance(n.op, ast.USub):
            return -v
        if isinstance(n.op, ast.UAdd):
            return +v
        raise Unsupported('unary operator')

    def e_IfExp(self, n, env):
        t = self.eval(n.test, env)
        if t is OPQ or isinstance(t, PStr):
            return OPQ
        return self.eval(n.body if t else n.orelse, env)

    def e_BinOp(self, n, env):
        a, b = self.eval(n.left, env), self.eval(n.right, env)
        if isinstance(n.op, ast.Mod) and isinstance(a, str):
            if _has_opq(b) or isinstance(b, (NS, Closure)) or (isinstance(b, tuple) and any(isinstance(x, (NS, Closure)) for x in b)):
                return PStr(a.split('%', 1)[0])
            try:
                return a % b
            except (TypeError, ValueError) as e:
                raise Raised('%s: %s' % (type(e).__name__, e), n)
        if isinstance(n.op, ast.Add):
            if isinstance(a, str) and isinstance(b, PStr):
                return PStr(a + b.prefix)
            if isinstance(a, PStr):
                return PStr(a.prefix)
            if isinstance(a, str) and b is OPQ:
                return PStr(a)
        if a is OPQ or b is OPQ or isinstance(a, (PStr, NS)) or isinstance(b, (PStr, NS)):
            return OPQ
        try:
            if isinstance(n.op, ast.Add):
                return a + b
            if isinstance(n.op, ast.Sub):
                return a - b
            if isinstance(n.op, ast.Mult):
                return a * b
            if isinstance(n.op, ast.BitOr):
                return a | b
            if isinstance(n.op, ast.BitAnd):
                return a & b
            if isinstance(n.op, ast.Mod):
                return a % b
            if isinstance(n.op, ast.FloorDiv):
                return a // b
        except (TypeError, ValueError, ZeroDivisionError) as e:
            raise Raised('%s: %s' % (type(e).__name__, e), n)
        raise Unsupported('binary operator %s' % type(n.op).__name__)

    def e_Lambda(self, n, env):
        return Closure(n, env)

    def e_NamedExpr(self, n, env):
        v = self.eval(n.value, env)
        env.set(n.target.id, v)
        return v

    def _comp(self, gens, env, emit):
        def rec(i, e):
            if i == len(gens):
                emit(e)
                return
            g = gens[i]
            it = self.eval(g.iter, e)
            for item in self.iterate(it, g.iter):
                e2 = Env(e)
                self.assign(g.target, item, e2)
                if all(self.truth(self.eval(c, e2), c) for c in g.ifs):
                    rec(i + 1, e2)
        rec(0, env)

    def e_ListComp(self, n, env):
        out = []
        self._comp(n.generators, env, lambda e: out.append(self.eval(n.elt, e)))
        return out

    e_GeneratorExp = e_ListComp

    def e_SetComp(self, n, env):
        out = self.e_ListComp(n, env)
        return OPQ if _has_opq(out) else set(out)

    def e_DictComp(self, n, env):
        out = {}

        def emit(e):
            out[self.eval(n.key, e)] = self.eval(n.value, e)
        self._comp(n.generators, env, emit)
        return out

    def iterate(self, it, node):
        if it is OPQ or isinstance(it, (PStr, NS, Closure, _Bound)):
            raise Undecidable(node, 'iteration over a value the checker does not model: %s' % node_src(node, 80))
        try:
            return list(it)
        except TypeError as e:
            raise Raised('TypeError: %s' % e, node)

    # ------------------------------------------------------------------ calls
    def e_Call(self, n, env):
        if self.hook is not None:
            r = self.hook(self, n, env)
            if r is not NOT_HANDLED:
                return r
        f = self.eval(n.func, env)
        args = self._seq(n.args, env)
        kwargs = {}
        opaque_kw = False
        for k in n.keywords:
            v = self.eval(k.value, env)
            if k.arg is None:
                if isinstance(v, dict):
                    kwargs.update(v)
                else:
                    opaque_kw = True
            else:
                kwargs[k.arg] = v
        if f is OPQ or isinstance(f, PStr):
            return OPQ
        if args is None or opaque_kw:
            return OPQ
        return self.apply(f, args, kwargs, n)

    def apply(self, f, args, kwargs, n=None):
        if isinstance(f, Closure):
            return self.call_closure(f, args, kwargs)
        if isinstance(f, _Bound):
            if any(_has_opq(a) for a in args) and f.name not in ('append', 'extend', 'insert', 'get', 'setdefault', 'add'):
                if f.name == 'join' or f.name == 'format':
                    return PStr('')
                return OPQ
            try:
                return getattr(f.obj, f.name)(*args, **kwargs)
            except (TypeError, ValueError, KeyError, IndexError, AttributeError) as e:
                raise Raised('%s: %s' % (type(e).__name__, e), n)
        if any(f is b for b in SAFE_BUILTINS.values() if callable(b)):
            if any(_has_opq(a) for a in args) or any(isinstance(a, (NS, Closure)) for a in args):
                if f in (bool,) and args and isinstance(args[0], NS):
                    return True
                return OPQ
            try:
                return f(*args, **kwargs)
            except (TypeError, ValueError) as e:
                raise Raised('%s: %s' % (type(e).__name__, e), n)
        if callable(f):
            return f(*args, **kwargs)
        raise Raised('TypeError: %r is not callable' % (f,), n)

    def call_closure(self, c, args, kwargs):
        fn = c.fn
        env = Env(c.env)
        a = fn.args
        params = [p.arg for p in a.posonlyargs + a.args]
        defaults = [None] * (len(params) - len(a.defaults)) + list(a.defaults)
        args = list(args)
        kwargs = dict(kwargs)
        for i, p in enumerate(params):
            if i < len(args):
                env.set(p, args[i])
            elif p in kwargs:
                env.set(p, kwargs.pop(p))
            elif defaults[i] is not None:
                env.set(p, self.eval(defaults[i], c.env))
            else:
                raise Raised('TypeError: %s() missing argument %r' % (getattr(fn, 'name', 'lambda'), p), fn)
        if len(args) > len(params):
            if a.vararg is None:
                raise Raised('TypeError: %s() takes %d positional arguments but %d were given' % (getattr(fn, 'name', 'lambda'), len(params), len(args)), fn)
            env.set(a.vararg.arg, tuple(args[len(params):]))
        elif a.vararg is not None:
            env.set(a.vararg.arg, ())
        for p, d in zip(a.kwonlyargs, a.kw_defaults):
            if p.arg in kwargs:
                env.set(p.arg, kwargs.pop(p.arg))
            elif d is not None:
                env.set(p.arg, self.eval(d, c.env))
            else:
                raise Raised('TypeError: %s() missing keyword-only argument %r' % (getattr(fn, 'name', 'lambda'), p.arg), fn)
        if a.kwarg is not None:
            env.set(a.kwarg.arg, kwargs)
        elif kwargs:
            raise Raised('TypeError: %s() got an unexpected keyword argument %r' % (getattr(fn, 'name', 'lambda'), sorted(kwargs)[0]), fn)
        if isinstance(fn, ast.Lambda):
            return self.eval(fn.body, env)
        try:
            self.exec_block(fn.body, env)
        except _Return as r:
            return r.value
        except Stopped as st:
            if self.on_stop is not None:
                return self.on_stop(self, c, st)
            raise
        return None

    # ------------------------------------------------------------------ statements
    def exec_block(self, stmts, env):
        for i, s in enumerate(stmts):
            try:
                self.exec_stmt(s, env)
            except Undecidable as u:
                raise Stopped(list(stmts[i:]), u.node, env, u.why)
            except Stopped as st:
                st.rest.extend(stmts[i + 1:])
                raise

    def exec_stmt(self, s, env):
        self.steps += 1
        if self.steps > self.max_steps:
            raise Unsupported('evaluation budget exhausted')
        m = getattr(self, 's_' + type(s).__name__, None)
        if m is None:
            raise Unsupported('statement %s' % type(s).__name__)
        m(s, env)

    def s_Expr(self, s, env):
        self.eval(s.value, env)

    def s_Pass(self, s, env):
        pass

    def s_Assign(self, s, env):
        v = self.eval(s.value, env)
        for t in s.targets:
            self.assign(t, v, env)

    def s_AnnAssign(self, s, env):
        if s.value is not None:
            self.assign(s.target, self.eval(s.value, env), env)

    def s_AugAssign(self, s, env):
        load = ast.copy_location(type(s.target)(**{k: getattr(s.target, k) for k in s.target._fields if k != 'ctx'}, ctx=ast.Load()), s.target)
        binop = ast.copy_location(ast.BinOp(left=load, op=s.op, right=s.value), s)
        self.assign(s.target, self.eval(binop, env), env)

    def assign(self, t, v, env):
        if isinstance(t, ast.Name):
            env.set(t.id, v)
        elif isinstance(t, (ast.Tuple, ast.List)):
            if v is OPQ or isinstance(v, (PStr, NS)):
                for e in t.elts:
                    self.assign(e, OPQ, env)
                return
            try:
                vals = list(v)
            except TypeError as e:
                raise Raised('TypeError: %s' % e, t)
            if any(isinstance(e, ast.Starred) for e in t.elts):
                raise Unsupported('starred assignment')
            if len(vals) != len(t.elts):
                raise Raised('ValueError: cannot unpack %d values into %d targets' % (len(vals), len(t.elts)), t)
            for e, x in zip(t.elts, vals):
                self.assign(e, x, env)
        elif isinstance(t, ast.Attribute):
            o = self.eval(t.value, env)
            if isinstance(o, NS):
                o.__dict__[t.attr] = v
        elif isinstance(t, ast.Subscript):
            o = self.eval(t.value, env)
            k = self.eval(t.slice, env)
            if isinstance(o, (dict, list)) and not _has_opq(k):
                try:
                    o[k] = v
                except (IndexError, TypeError) as e:
                    raise Raised('%s: %s' % (type(e).__name__, e), t)
        else:
            raise Unsupported('assignment target %s' % type(t).__name__)

    def s_If(self, s, env):
        if self.truth(self.eval(s.test, env), s.test):
            self.exec_block(s.body, env)
        else:
            self.exec_block(s.orelse, env)

    def s_For(self, s, env):
        items = self.iterate(self.eval(s.iter, env), s.iter)
        for item in items:
            self.assign(s.target, item, env)
            try:
                self.exec_block(s.body, env)
            except _Break:
                break
            except _Continue:
                continue
        else:
            self.exec_block(s.orelse, env)

    def s_While(self, s, env):
        n = 0
        while self.truth(self.eval(s.test, env), s.test):
            n += 1
            if n > 1000:
                raise Unsupported('while loop does not terminate in the model')
            try:
                self.exec_block(s.body, env)
            except _Break:
                break
            except _Continue:
                continue
        else:
            self.exec_block(s.orelse, env)

    def s_Return(self, s, env):
        raise _Return(None if s.value is None else self.eval(s.value, env))

    def s_Break(self, s, env):
        raise _Break()

    def s_Continue(self, s, env):
        raise _Continue()

    def s_Assert(self, s, env):
        v = self.eval(s.test, env)
        if v is OPQ or isinstance(v, PStr):
            return
        if not v:
            raise Raised('AssertionError: %s' % node_src(s.test, 80), s)

    def s_Raise(self, s, env):
        raise Raised('raise %s' % (node_src(s.exc, 80) if s.exc is not None else ''), s)

    def s_FunctionDef(self, s, env):
        env.set(s.name, Closure(s, env))

    def s_With(self, s, env):
        exits = []
        for item in s.items:
            v = self.eval(item.context_expr, env)
            if isinstance(v, NS) and callable(v.__dict__.get('_enter')):
                v.__dict__['_enter']()
            if isinstance(v, NS) and callable(v.__dict__.get('_exit')):
                exits.append(v.__dict__['_exit'])
            if item.optional_vars is not None:
                self.assign(item.optional_vars, v, env)
        try:
            self.exec_block(s.body, env)
        finally:
            for f in reversed(exits):
                f()

    def s_Import(self, s, env):
        for a in s.names:
            env.set((a.asname or a.name).split('.')[0], OPQ)

    def s_ImportFrom(self, s, env):
        for a in s.names:
            env.set(a.asname or a.name, OPQ)

    def s_Global(self, s, env):
        pass

    s_Nonlocal = s_Global


# ======================================================================================= evaluator globals from the index
def _lit(n):
    return tables.literal(n) if n is not None else None


def module_literals(ix, m):
    """Module-level names of m whose value is a literal (also through cython.declare(T, literal))."""
    out = {}
    for name, node in m.bindings.items():
        if not isinstance(node, ast.AST):
            continue
        v = _lit(node)
        if v is None and isinstance(node, ast.Call) and node.args and node_src(node.func).endswith('declare'):
            v = _lit(node.args[-1])
        if v is not None:
            out[name] = v
    return out


def module_globals(ix, m):
    """Evaluator globals for functions of module m: literal bindings, imported modules as mock namespaces of their literals."""
    g = dict(module_literals(ix, m))
    for alias, imp in m.imports.items():
        r = ix.resolve_name(m, alias)
        if r and r[0] == 'module' and r[1] is not None:
            g[alias] = NS('module ' + r[1].short, _mod=r[1], **module_literals(ix, r[1]))
        elif r and r[0] == 'value':
            v = _lit(r[2])
            if v is not None:
                g[alias] = v
    return g



# ======================================================================================= MiniC
class CObj:
    def __init__(self, name, truth=None):
        self.name, self.truth = name, truth

    def __repr__(self):
        return self.name


C_TOKEN = re.compile(r'\s*(?:(\d+)|([A-Za-z_]\w*)|(&&|\|\||==|!=|<=|>=|->|[-+*/%<>=!?:;,(){}\[\]&|.~^]))')


def c_tokens(text):
    text = strip_c_comments(text)
    out, pos = [], 0
    text = text.rstrip()
    while pos < len(text):
        m = C_TOKEN.match(text, pos)
        if not m:
            if text[pos:].strip() == '':
                break
            raise Unsupported('C token at %r' % text[pos:pos + 20])
        pos = m.end()
        if m.group(1) is not None:
            out.append(('num', int(m.group(1))))
        elif m.group(2) is not None:
            out.append(('id', m.group(2)))
        else:
            out.append(('op', m.group(3)))
    return out


class CParser:
    """Statements: block, if/else, switch/case/default, return, declaration, expression statement."""
    TYPE_WORDS = {'PyObject', 'int', 'long', 'Py_ssize_t', 'char', 'void', 'static', 'const', 'unsigned'}

    def __init__(self, toks):
        self.t, self.i = toks, 0

    def peek(self, k=0):
        return self.t[self.i + k] if self.i + k < len(self.t) else ('eof', None)

    def next(self):
        tok = self.peek()
        self.i += 1
        return tok

    def accept(self, kind, val=None):
        tok = self.peek()
        if tok[0] == kind and (val is None or tok[1] == val):
            self.i += 1
            return True
        return False

    def expect(self, kind, val=None):
        tok = self.next()
        if tok[0] != kind or (val is not None and tok[1] != val):
            raise Unsupported('C syntax: expected %s %s, got %r' % (kind, val or '', tok))
        return tok

    def stmt(self):
        tok = self.peek()
        if tok == ('op', '{'):
            self.next()
            body = []
            while not self.accept('op', '}'):
                if self.peek()[0] == 'eof':
                    raise Unsupported('C syntax: unbalanced braces')
                body.append(self.stmt())
            return ('block', body)
        if tok == ('id', 'if'):
            self.next()
            self.expect('op', '(')
            c = self.expr()
            self.expect('op', ')')
            then = self.stmt()
            els = None
            if self.accept('id', 'else'):
                els = self.stmt()
            return ('if', c, then, els)
        if tok == ('id', 'switch'):
            self.next()
            self.expect('op', '(')
            c = self.expr()
            self.expect('op', ')')
            self.expect('op', '{')
            items = []
            while not self.accept('op', '}'):
                if self.accept('id', 'case'):
                    lab = self.expr_noternary()
                    self.expect('op', ':')
                    items.append(('case', lab))
                elif self.accept('id', 'default'):
                    self.expect('op', ':')
                    items.append(('default',))
                elif self.peek()[0] == 'eof':
                    raise Unsupported('C syntax: unbalanced switch')
                else:
                    items.append(('stmt', self.stmt()))
            return ('switch', c, items)
        if tok == ('id', 'return'):
            self.next()
            e = None
            if not self.accept('op', ';'):
                e = self.expr()
                self.expect('op', ';')
            return ('return', e)
        if tok == ('id', 'break'):
            self.next()
            self.expect('op', ';')
            return ('break',)
        if tok[0] == 'id' and tok[1] in self.TYPE_WORDS:
            while self.peek()[0] == 'id' and self.peek()[1] in self.TYPE_WORDS:
                self.next()
            while self.accept('op', '*'):
                pass
            name = self.expect('id')[1]
            init = None
            if self.accept('op', '='):
                init = self.expr()
            self.expect('op', ';')
            return ('decl', name, init)
        if self.accept('op', ';'):
            return ('block', [])
        e = self.expr()
        self.expect('op', ';')
        return ('expr', e)

    # expressions
    def expr(self):
        left = self.ternary()
        if self.accept('op', '='):
            return ('assign', left, self.expr())
        return left

    def ternary(self):
        c = self.lor()
        if self.accept('op', '?'):
            a = self.expr()
            self.expect('op', ':')
            b = self.ternary()
            return ('?:', c, a, b)
        return c

    def expr_noternary(self):
        return self.lor()

    def lor(self):
        left = self.land()
        while self.accept('op', '||'):
            left = ('||', left, self.land())
        return left

    def land(self):
        left = self.equality()
        while self.accept('op', '&&'):
            left = ('&&', left, self.equality())
        return left

    def equality(self):
        left = self.relational()
        while self.peek() in (('op', '=='), ('op', '!=')):
            op = self.next()[1]
            left = (op, left, self.relational())
        return left

    def relational(self):
        left = self.unary()
        while self.peek() in (('op', '<'), ('op', '>'), ('op', '<='), ('op', '>=')):
            op = self.next()[1]
            left = (op, left, self.unary())
        return left

    def unary(self):
        if self.accept('op', '!'):
            return ('!', self.unary())
        if self.accept('op', '-'):
            return ('neg', self.unary())
        if self.accept('op', '&'):
            return ('addr', self.unary())
        return self.postfix()

    def postfix(self):
        e = self.primary()
        while True:
            if self.accept('op', '('):
                args = []
                if not self.accept('op', ')'):
                    while True:
                        args.append(self.expr())
                        if self.accept('op', ')'):
                            break
                        self.expect('op', ',')
                e = ('call', e, args)
            elif self.accept('op', '->') or self.accept('op', '.'):
                e = ('member', e, self.expect('id')[1])
            else:
                return e

    def primary(self):
        tok = self.next()
        if tok[0] == 'num':
            return ('num', tok[1])
        if tok[0] == 'id':
            return ('id', tok[1])
        if tok == ('op', '('):
            e = self.expr()
            self.expect('op', ')')
            return e
        raise Unsupported('C syntax: unexpected %r' % (tok,))


class CReturn(Exception):
    def __init__(self, v):
        self.v = v


class CEval:
    def __init__(self, consts, funcs):
        self.consts, self.funcs = consts, funcs
        self.trace = []

    def run(self, stmt, env):
        try:
            self.exec(stmt, env)
        except CReturn as r:
            return r.v
        return 'FELL-OFF-END'

    def exec(self, s, env):
        k = s[0]
        if k == 'block':
            for x in s[1]:
                self.exec(x, env)
        elif k == 'if':
            if self.truthy(self.ev(s[1], env)):
                self.exec(s[2], env)
            elif s[3] is not None:
                self.exec(s[3], env)
        elif k == 'switch':
            v = self.ev(s[1], env)
            items = s[2]
            start = None
            for i, it in enumerate(items):
                if it[0] == 'case' and self.ev(it[1], env) is v:
                    start = i
                    break
            if start is None:
                for i, it in enumerate(items):
                    if it[0] == 'default':
                        start = i
            if start is None:
                return
            for it in items[start:]:
                if it[0] == 'stmt':
                    if it[1] == ('break',):
                        return
                    self.exec(it[1], env)
        elif k == 'return':
            raise CReturn(None if s[1] is None else self.ev(s[1], env))
        elif k == 'decl':
            env[s[1]] = self.ev(s[2], env) if s[2] is not None else 'UNINIT'
        elif k == 'expr':
            self.ev(s[1], env)
        elif k == 'break':
            raise Unsupported('C: break outside switch')
        else:
            raise Unsupported('C statement %s' % k)

    def truthy(self, v):
        if v == 'UNINIT':
            raise Raised('generated C reads an uninitialised variable')
        if isinstance(v, CObj):
            return True
        return bool(v)

    def ev(self, e, env):
        k = e[0]
        if k == 'num':
            return e[1]
        if k == 'id':
            if e[1] in env:
                v = env[e[1]]
                if v == 'UNINIT':
                    raise Raised('generated C reads uninitialised variable %s' % e[1])
                return v
            if e[1] in self.consts:
                return self.consts[e[1]]
            raise Unsupported('C identifier %s' % e[1])
        if k == 'assign':
            if e[1][0] != 'id':
                raise Unsupported('C assignment target')
            v = self.ev(e[2], env)
            env[e[1][1]] = v
            return v
        if k == '?:':
            return self.ev(e[2], env) if self.truthy(self.ev(e[1], env)) else self.ev(e[3], env)
        if k == '||':
            return 1 if (self.truthy(self.ev(e[1], env)) or self.truthy(self.ev(e[2], env))) else 0
        if k == '&&':
            return 1 if (self.truthy(self.ev(e[1], env)) and self.truthy(self.ev(e[2], env))) else 0
        if k == '!':
            return 0 if self.truthy(self.ev(e[1], env)) else 1
        if k in ('==', '!='):
            a, b = self.ev(e[1], env), self.ev(e[2], env)
            same = (a is b) if (isinstance(a, CObj) or isinstance(b, CObj)) else (a == b)
            return int(same if k == '==' else not same)
        if k in ('<', '>', '<=', '>='):
            a, b = self.ev(e[1], env), self.ev(e[2], env)
            if isinstance(a, CObj) or isinstance(b, CObj):
                raise Unsupported('C: ordering comparison of objects')
            return int({'<': a < b, '>': a > b, '<=': a <= b, '>=': a >= b}[k])
        if k == 'neg':
            return -self.ev(e[1], env)
        if k == 'call':
            if e[1][0] != 'id':
                raise Unsupported('C: indirect call')
            name = e[1][1]
            args = [self.ev(a, env) for a in e[2]]
            if name not in self.funcs:
                raise Unsupported('C function %s' % name)
            return self.funcs[name](*args)
        raise Unsupported('C expression %s' % k)


# ======================================================================================= Tempita (names / one-line substitution)
TEMPITA = re.compile(r'\{\{(.*?)\}\}', re.S)


def tempita_reads(text):
    """Names a Tempita template reads from its context (directives if/elif/for/py/default and {{expr}} substitutions)."""
    reads, bound = set(), set()
    for m in TEMPITA.finditer(text):
        d = m.group(1).strip()
        if d.startswith('#') or d in ('else', 'endif', 'endfor', 'enddef') or d.startswith('inherit'):
            continue
        expr = None
        if d.startswith('if ') or d.startswith('elif '):
            expr = d.split(None, 1)[1].rstrip(':')
        elif d.startswith('for '):
            mm = re.match(r'for\s+(.+?)\s+in\s+(.+)$', d, re.S)
            if not mm:
                raise AnalysisError('Tempita: cannot parse %r' % d)
            for x in re.findall(r'[A-Za-z_]\w*', mm.group(1)):
                bound.add(x)
            expr = mm.group(2).rstrip(':')
        elif d.startswith('py:') or d.startswith('default ') or d.startswith('def '):
            raise AnalysisError('Tempita: directive %r is not modelled' % d[:30])
        else:
            expr = d.split('|')[0] if '||' not in d else d
        try:
            tree = ast.parse(expr.strip(), mode='eval')
        except SyntaxError:
            raise AnalysisError('Tempita: cannot parse expression %r' % expr)
        for n in ast.walk(tree):
            if isinstance(n, ast.Name):
                reads.add(n.id)
    import builtins
    return {r for r in reads if r not in bound and not hasattr(builtins, r)}


def tempita_subst(line, ctx):
    def rep(m):
        d = m.group(1).strip()
        if not re.fullmatch(r'[A-Za-z_]\w*', d):
            raise AnalysisError('Tempita: %r in a line the checker substitutes is not a plain name' % d)
        if d not in ctx:
            raise Raised('NameError: template variable %r is not in the context' % d)
        return str(ctx[d])
    return TEMPITA.sub(rep, line)


# ======================================================================================= CPython headers
_HDR = {}


def _header_texts():
    if 'texts' not in _HDR:
        inc = tables.cpython_include()
        texts = {}
        for sub in ('', 'cpython'):
            d = os.path.join(inc, sub)
            if not os.path.isdir(d):
                continue
            for fn in sorted(os.listdir(d)):
                if fn.endswith('.h'):
                    try:
                        texts[os.path.join(sub, fn)] = strip_c_comments(open(os.path.join(d, fn), encoding='utf-8', errors='replace').read())
                    except OSError:
                        pass
        _HDR['texts'] = texts
    return _HDR['texts']


def _members(body):
    body = re.sub(r'^[ \t]*#.*$', '', body, flags=re.M)
    body = re.sub(r'\bPyObject_(?:VAR_)?HEAD\b', '', body)
    out = []
    for decl in body.split(';'):
        decl = ' '.join(decl.split())
        if not decl:
            continue
        m = re.match(r'^(.*?)\(\s*\*\s*(\w+)\s*\)\s*\(.*\)$', decl)
        if m:
            out.append((m.group(2), '<fnptr>'))
            continue
        parts = [p.strip() for p in decl.split(',')]
        m = re.match(r'^(.*?[\s\*])(\w+)$', parts[0])
        if not m:
            raise AnalysisError('cannot parse struct member %r' % decl)
        base = ' '.join(m.group(1).replace('*', ' * ').split())
        out.append((m.group(2), base))
        basetype = base.replace('*', '').strip()
        for p in parts[1:]:
            mm = re.match(r'^(\**)\s*(\w+)$', p)
            if not mm:
                raise AnalysisError('cannot parse struct member %r' % decl)
            out.append((mm.group(2), (basetype + ' ' + ' '.join(mm.group(1))).strip()))
    return out


def cpython_structs():
    """struct name -> [(member, type text)] for the method suites and the type object, from the installed headers."""
    if 'structs' in _HDR:
        return _HDR['structs']
    structs = {}
    for rel, txt in _header_texts().items():
        for m in re.finditer(r'typedef\s+struct\s*\{([^{}]*)\}\s*(\w+)\s*;', txt):
            if m.group(2) in ('PyNumberMethods', 'PySequenceMethods', 'PyMappingMethods', 'PyAsyncMethods', 'PyBufferProcs'):
                structs.setdefault(m.group(2), _members(m.group(1)))
        m = re.search(r'struct\s+_typeobject\s*\{([^{}]*)\}\s*;', txt)
        if m:
            structs.setdefault('PyTypeObject', _members(m.group(1)))
    need = {'PyNumberMethods', 'PySequenceMethods', 'PyMappingMethods', 'PyAsyncMethods', 'PyBufferProcs', 'PyTypeObject'}
    if not need <= set(structs):
        raise AnalysisError('CPython headers: struct definitions not found: %s' % sorted(need - set(structs)))
    if len(structs['PyNumberMethods']) < 30 or len(structs['PyTypeObject']) < 40:
        raise AnalysisError('CPython headers: struct parse too small')
    _HDR['structs'] = structs
    return structs


def _param_type(p):
    p = ' '.join(p.replace('*', ' * ').split())
    toks = p.split()
    if len(toks) >= 2 and re.fullmatch(r'[A-Za-z_]\w*', toks[-1]) and toks[-1] not in ('int', 'long', 'char', 'void', 'double', 'float', 'short', 'unsigned', 'signed') \
            and not (len(toks) == 2 and toks[0] in ('struct', 'const', 'unsigned', 'signed', 'enum')):
        toks = toks[:-1]
    toks = [t for t in toks if t != 'const']
    return ' '.join(toks)


def cpython_fn_typedefs():
    """typedef name -> (return type, [param types]) for function-pointer typedefs of the installed headers."""
    if 'fntd' in _HDR:
        return _HDR['fntd']
    out = {}
    rx = re.compile(r'typedef\s+([^;(){}]+?)\(\s*\*\s*(\w+)\s*\)\s*\(([^;{}]*?)\)\s*;')
    for rel, txt in _header_texts().items():
        for m in rx.finditer(txt):
            ret = ' '.join(m.group(1).replace('*', ' * ').split())
            params = [_param_type(p) for p in split_args(' '.join(m.group(3).split()))]
            out.setdefault(m.group(2), (ret, params))
    if len(out) < 25 or 'binaryfunc' not in out:
        raise AnalysisError('CPython headers: only %d function typedefs found' % len(out))
    _HDR['fntd'] = out
    return out


def cpython_macros(names):
    found = {}
    for rel, txt in _header_texts().items():
        for m in re.finditer(r'^[ \t]*#[ \t]*define[ \t]+(\w+)[ \t]+(-?\d+)\s*$', txt, re.M):
            if m.group(1) in names:
                found.setdefault(m.group(1), int(m.group(2)))
    return found


# ======================================================================================= frozen reference: slot <-> special methods
# Source: The Python Language Reference, 3.3 "Special method names" (3.3.1 basic customization, 3.3.7 container types,
# 3.3.8 numeric types, 3.4 coroutines) together with the slot table of the C-API manual ("Type Objects", tp_* / nb_* /
# sq_* / mp_* / am_* "special methods" column, which mirrors Objects/typeobject.c:slotdefs).
SLOT_DUNDERS = {
    'nb_add': {'__add__', '__radd__'}, 'nb_subtract': {'__sub__', '__rsub__'}, 'nb_multiply': {'__mul__', '__rmul__'},
    'nb_remainder': {'__mod__', '__rmod__'}, 'nb_divmod': {'__divmod__', '__rdivmod__'}, 'nb_power': {'__pow__', '__rpow__'},
    'nb_negative': {'__neg__'}, 'nb_positive': {'__pos__'}, 'nb_absolute': {'__abs__'}, 'nb_bool': {'__bool__'},
    'nb_invert': {'__invert__'}, 'nb_lshift': {'__lshift__', '__rlshift__'}, 'nb_rshift': {'__rshift__', '__rrshift__'},
    'nb_and': {'__and__', '__rand__'}, 'nb_xor': {'__xor__', '__rxor__'}, 'nb_or': {'__or__', '__ror__'},
    'nb_int': {'__int__'}, 'nb_float': {'__float__'},
    'nb_inplace_add': {'__iadd__'}, 'nb_inplace_subtract': {'__isub__'}, 'nb_inplace_multiply': {'__imul__'},
    'nb_inplace_remainder': {'__imod__'}, 'nb_inplace_power': {'__ipow__'}, 'nb_inplace_lshift': {'__ilshift__'},
    'nb_inplace_rshift': {'__irshift__'}, 'nb_inplace_and': {'__iand__'}, 'nb_inplace_xor': {'__ixor__'}, 'nb_inplace_or': {'__ior__'},
    'nb_floor_divide': {'__floordiv__', '__rfloordiv__'}, 'nb_true_divide': {'__truediv__', '__rtruediv__'},
    'nb_inplace_floor_divide': {'__ifloordiv__'}, 'nb_inplace_true_divide': {'__itruediv__'},
    'nb_index': {'__index__'}, 'nb_matrix_multiply': {'__matmul__', '__rmatmul__'}, 'nb_inplace_matrix_multiply': {'__imatmul__'},
    'sq_length': {'__len__'}, 'sq_item': {'__getitem__'}, 'sq_ass_item': {'__setitem__', '__delitem__'}, 'sq_contains': {'__contains__'},
    'mp_length': {'__len__'}, 'mp_subscript': {'__getitem__'}, 'mp_ass_subscript': {'__setitem__', '__delitem__'},
    'am_await': {'__await__'}, 'am_aiter': {'__aiter__'}, 'am_anext': {'__anext__'},
    'tp_repr': {'__repr__'}, 'tp_hash': {'__hash__'}, 'tp_call': {'__call__'}, 'tp_str': {'__str__'},
    'tp_getattro': {'__getattribute__', '__getattr__'}, 'tp_setattro': {'__setattr__', '__delattr__'},
    'tp_iter': {'__iter__'}, 'tp_iternext': {'__next__'}, 'tp_descr_get': {'__get__'}, 'tp_descr_set': {'__set__', '__delete__'},
    'tp_init': {'__init__'}, 'tp_finalize': {'__del__'},
}
# Cython's own documented special methods for slots without a Python-level name in an extension type
# (docs/src/userguide/special_methods.rst): buffer protocol, C-level constructor/destructor, legacy __richcmp__.
CYTHON_SLOT_DUNDERS = {
    'bf_getbuffer': {'__getbuffer__'}, 'bf_releasebuffer': {'__releasebuffer__'},
    'tp_richcompare': {'__richcmp__'}, 'tp_new': {'__cinit__'}, 'tp_dealloc': {'__dealloc__'},
}
# Python 2 names Cython still accepts (with a warning) as fallback= of the Python 3 slot
LEGACY_FALLBACK = {'nb_bool': '__nonzero__', 'nb_int': '__long__'}
# 3.3.1: rich comparison methods and the op argument of tp_richcompare
RICHCMP = {'__lt__': 'Py_LT', '__le__': 'Py_LE', '__eq__': 'Py_EQ', '__ne__': 'Py_NE', '__gt__': 'Py_GT', '__ge__': 'Py_GE'}

# Signature format characters (documented in the comment of TypeSlots.Signature) -> C type
FORMAT_C = {'O': 'PyObject *', 'T': 'PyObject *', '?': 'PyObject *', 'v': 'void', 'p': 'void *', 'P': 'void * *', 'i': 'int', 'b': 'int',
            'I': 'int *', 'l': 'long', 'f': 'float', 'd': 'double', 'h': 'Py_hash_t', 'z': 'Py_ssize_t', 'Z': 'Py_ssize_t *',
            's': 'char *', 'S': 'char * *', 'r': 'int', 'B': 'Py_buffer *', '-': 'PyObject *'}


def signature_c(arg_format, ret_format):
    """Signature('TO', 'r') -> ('int', ['PyObject *', 'PyObject *']) ; '*' = (args tuple, kwargs dict)."""
    params = []
    for ch in arg_format:
        if ch == '*':
            params += ['PyObject *', 'PyObject *']
        elif ch in FORMAT_C:
            params.append(FORMAT_C[ch])
        else:
            return None
    if ret_format not in FORMAT_C:
        return None
    return (FORMAT_C[ret_format], params)
