"""Helpers and rules for C10 (string/bytes literals) — also used by C11.

Three pieces, all purely static (nothing below the repository is imported or run by the Python interpreter):

1. ``Folder`` — a constant folder / finite-domain evaluator over the *AST* of pure, table-like repository code.
   It only ever calls (a) builtins and methods of builtin value types of the checker's own interpreter
   (str, bytes, tuple, list, dict, int ... — the reference semantics), (b) ``re`` / ``unicodedata`` entry points on a
   whitelist, (c) other repository functions *by folding their AST again*.  Objects the folder knows nothing about
   (the scanner, a literal builder, ``self``) are ``Opaque`` recorders: calls on them become events.  Anything outside
   the supported subset raises ``Unfoldable`` (an AnalysisError) — never a silent pass.
   It is used to extract decision tables over finite domains (one escape token, one byte, one table row).
2. ``Plex`` model — the regular expressions of Cython/Compiler/Lexicon.py are rebuilt from the constructor
   expressions (Str/Any/AnyBut/Range/Opt/Rep/Rep1/+/|) as small NFAs inside the checker: first sets, longest match.
3. the C10 rules.
"""
import ast, itertools, os, re, unicodedata, warnings

from ..core import Rule, AnalysisError, node_src
from ..engine import tables


# =====================================================================================================
# 1. constant folder
# =====================================================================================================

class Unfoldable(AnalysisError):
    pass


class Opaque:
    """An object the folder cannot see into.  Attribute reads give preset values or child recorders,
    calls are appended to the shared log as (dotted name, args, kwargs)."""

    def __init__(self, name, log, attrs=None):
        self._name, self._log, self._attrs = name, log, dict(attrs or {})

    def _get(self, a):
        if a in self._attrs:
            return self._attrs[a]
        return Opaque(self._name + '.' + a, self._log)

    def __repr__(self):
        return '<opaque %s>' % self._name


class ModuleRef:
    def __init__(self, rel):
        self.rel = rel

    def __repr__(self):
        return '<module %s>' % self.rel


class ClassRef:
    def __init__(self, node, rel):
        self.node, self.rel = node, rel


class _CythonShim:
    """`import cython` in pure-Python mode: declare()/cast() return the value, everything else is a type marker."""


class _Marker:
    def __init__(self, name):
        self.name = name

    def __repr__(self):
        return '<%s>' % self.name


class Env:
    def __init__(self, vars, parent, rel):
        self.vars, self.parent, self.rel = vars, parent, rel

    def lookup(self, name):
        e = self
        while e is not None:
            if name in e.vars:
                return True, e.vars[name]
            e = e.parent
        return False, None

    def child(self, vars=None):
        return Env(vars if vars is not None else {}, self, self.rel)


class _Return(Exception):
    def __init__(self, value):
        self.value = value


class _Break(Exception):
    pass


class _Continue(Exception):
    pass


class Closure:
    def __init__(self, folder, fdef, env):
        self.folder, self.fdef, self.env = folder, fdef, env
        self.__name__ = getattr(fdef, 'name', '<lambda>')

    def __call__(self, *args, **kwargs):
        return self.folder.call_closure(self, args, kwargs)


SAFE_BUILTINS = {f.__name__: f for f in (
    chr, ord, len, int, repr, range, map, tuple, list, str, bytes, bytearray, sorted, min, max, set, frozenset, dict,
    isinstance, zip, enumerate, any, all, abs, bool, divmod, reversed, type, float, sum, filter, hex, oct, ascii)}
SAFE_BUILTINS.update({'None': None, 'True': True, 'False': False, 'object': object})
SAFE_EXC = {n: getattr(__import__('builtins'), n) for n in (
    'Exception', 'KeyError', 'ValueError', 'TypeError', 'IndexError', 'UnicodeDecodeError', 'UnicodeEncodeError',
    'UnicodeError', 'ImportError', 'AttributeError', 'LookupError', 'AssertionError', 'OverflowError')}
VALUE_TYPES = (str, bytes, bytearray, tuple, list, dict, set, frozenset, int, float, bool, range, re.Pattern, re.Match,
               type(None))
STDLIB = {
    're': {n: getattr(re, n) for n in ('compile', 'DOTALL', 'escape', 'S', 'M', 'MULTILINE', 'I', 'IGNORECASE', 'VERBOSE', 'X', 'U', 'UNICODE', 'A', 'ASCII')},
    'unicodedata': {'lookup': unicodedata.lookup, 'name': unicodedata.name, 'normalize': unicodedata.normalize},
}
_BINOPS = {
    ast.Add: lambda a, b: a + b, ast.Sub: lambda a, b: a - b, ast.Mult: lambda a, b: a * b,
    ast.Mod: lambda a, b: a % b, ast.FloorDiv: lambda a, b: a // b, ast.LShift: lambda a, b: a << b,
    ast.RShift: lambda a, b: a >> b, ast.BitOr: lambda a, b: a | b, ast.BitAnd: lambda a, b: a & b,
    ast.BitXor: lambda a, b: a ^ b, ast.Pow: lambda a, b: a ** b, ast.Div: lambda a, b: a / b,
}
_CMPOPS = {
    ast.Eq: lambda a, b: a == b, ast.NotEq: lambda a, b: a != b, ast.Lt: lambda a, b: a < b,
    ast.LtE: lambda a, b: a <= b, ast.Gt: lambda a, b: a > b, ast.GtE: lambda a, b: a >= b,
    ast.In: lambda a, b: a in b, ast.NotIn: lambda a, b: a not in b, ast.Is: lambda a, b: a is b,
    ast.IsNot: lambda a, b: a is not b,
}


class StdModule:
    def __init__(self, name):
        self.name = name


class Folder:
    """Folds pure code of repository modules.  `overrides`: repo-relative module path -> {name: model value}
    (used to substitute the checker's own models for the Plex constructors)."""

    MAX_STEPS = 2_000_000

    def __init__(self, ctx, overrides=None):
        self.ctx = ctx
        self.overrides = overrides or {}
        self._globals = {}
        self._busy = set()
        self.steps = 0

    # ------------------------------------------------------------------ modules
    def _module_path(self, base_rel, level, module):
        """Resolve a (relative) import to a repo-relative path or ('std', name)."""
        if level == 0:
            top = (module or '').split('.')[0]
            if top == 'Cython':
                parts = module.split('.')
                d = '/'.join(parts)
            else:
                return ('std', module)
        else:
            d = os.path.dirname(base_rel)
            for _ in range(level - 1):
                d = os.path.dirname(d)
            if module:
                d = d + '/' + module.replace('.', '/')
        for cand in (d + '.py', d + '/__init__.py'):
            if cand in self.overrides or os.path.exists(self.ctx.path(cand)):
                return cand
        if d in self.overrides:
            return d
        raise Unfoldable('cannot resolve import of %r from %s' % (module, base_rel))

    def _bind_import(self, rel, node, want):
        """value bound to local name `want` by the import statement `node` (or NotImplemented)."""
        if isinstance(node, ast.Import):
            for a in node.names:
                local = a.asname or a.name.split('.')[0]
                if local != want:
                    continue
                if a.name == 'cython':
                    return _CythonShim()
                if a.name in STDLIB:
                    return StdModule(a.name)
                return _Marker('module ' + a.name)
            return NotImplemented
        for a in node.names:
            local = a.asname or a.name
            if local != want:
                continue
            target = self._module_path(rel, node.level, node.module)
            if isinstance(target, tuple):
                mod = target[1]
                if mod in STDLIB and a.name in STDLIB[mod]:
                    return STDLIB[mod][a.name]
                return _Marker('%s.%s' % (mod, a.name))
            if target in self.overrides:
                if a.name not in self.overrides[target]:
                    raise Unfoldable('no model for %s imported from %s' % (a.name, target))
                return self.overrides[target][a.name]
            if node.module is None or target.endswith('/__init__.py'):
                # `from . import X` : a submodule, if it exists
                sub = os.path.dirname(target) if target.endswith('/__init__.py') else target
                for cand in ('%s/%s.py' % (sub, a.name), '%s/%s/__init__.py' % (sub, a.name)):
                    if os.path.exists(self.ctx.path(cand)):
                        return ModuleRef(cand)
            return self.module_attr(target, a.name)
        return NotImplemented

    def _module_statements(self, rel):
        out = []

        def rec(stmts):
            for s in stmts:
                out.append(s)
                if isinstance(s, ast.Try):
                    rec(s.body)
                    for h in s.handlers:
                        rec(h.body)
                    rec(s.orelse)
                elif isinstance(s, ast.If):
                    rec(s.body)
                    rec(s.orelse)
        rec(self.ctx.parse(rel).body)
        return out

    def module_attr(self, rel, name):
        key = (rel, name)
        if key in self._globals:
            return self._globals[key]
        if key in self._busy:
            raise Unfoldable('cyclic module-level definition of %s in %s' % (name, rel))
        self._busy.add(key)
        try:
            env = Env({}, None, rel)
            found = NotImplemented
            for s in self._module_statements(rel):
                if isinstance(s, (ast.FunctionDef, ast.AsyncFunctionDef)) and s.name == name:
                    found = Closure(self, s, env)
                elif isinstance(s, ast.ClassDef) and s.name == name:
                    found = ClassRef(s, rel)
                elif isinstance(s, ast.Assign) and any(isinstance(t, ast.Name) and t.id == name for t in s.targets):
                    found = ('expr', s.value)
                elif isinstance(s, ast.AnnAssign) and isinstance(s.target, ast.Name) and s.target.id == name and s.value is not None:
                    found = ('expr', s.value)
                elif isinstance(s, (ast.Import, ast.ImportFrom)):
                    if any((a.asname or a.name.split('.')[0]) == name for a in s.names):
                        found = ('import', s)
            if found is NotImplemented:
                raise Unfoldable('module %s does not define %r' % (rel, name))
            if isinstance(found, tuple) and found[0] == 'expr':
                found = self.expr(found[1], env)
            elif isinstance(found, tuple) and found[0] == 'import':
                found = self._bind_import(rel, found[1], name)
            self._globals[key] = found
            return found
        finally:
            self._busy.discard(key)

    def function(self, rel, name, cls=None):
        """Closure for a module-level function or a method (AnalysisError when the anchor vanished)."""
        fn = tables.find_function(self.ctx.parse(rel), name, cls)
        return Closure(self, fn, Env({}, None, rel))

    # ------------------------------------------------------------------ calls
    def call_closure(self, clo, args, kwargs):
        fdef = clo.fdef
        a = fdef.args
        params = [p.arg for p in a.posonlyargs + a.args]
        env = clo.env.child()
        if len(args) > len(params) and not a.vararg:
            raise Unfoldable('%s called with %d positional arguments' % (clo.__name__, len(args)))
        for p, v in zip(params, args):
            env.vars[p] = v
        if a.vararg:
            env.vars[a.vararg.arg] = tuple(args[len(params):])
        defaults = dict(zip(params[len(params) - len(a.defaults):], a.defaults))
        for p, d in zip(a.kwonlyargs, a.kw_defaults):
            params.append(p.arg)
            if d is not None:
                defaults[p.arg] = d
        extra = {}
        for k, v in kwargs.items():
            if k in params:
                if k in env.vars:
                    raise Unfoldable('%s: duplicate argument %s' % (clo.__name__, k))
                env.vars[k] = v
            elif a.kwarg:
                extra[k] = v
            else:
                raise Unfoldable('%s has no parameter %s' % (clo.__name__, k))
        if a.kwarg:
            env.vars[a.kwarg.arg] = extra
        for p in params:
            if p not in env.vars:
                if p not in defaults:
                    raise Unfoldable('%s: missing argument %s' % (clo.__name__, p))
                env.vars[p] = self.expr(defaults[p], clo.env)
        if isinstance(fdef, ast.Lambda):
            return self.expr(fdef.body, env)
        try:
            self.block(fdef.body, env)
        except _Return as r:
            return r.value
        return None

    def call_value(self, f, args, kwargs, node=None):
        if isinstance(f, Opaque):
            f._log.append((f._name, tuple(args), dict(kwargs)))
            return Opaque(f._name + '()', f._log)
        if isinstance(f, Closure):
            return self.call_closure(f, args, kwargs)
        if isinstance(f, (ClassRef, _Marker, ModuleRef, StdModule)):
            raise Unfoldable('cannot fold a call to %r%s' % (f, ' (%s)' % node_src(node, 60) if node is not None else ''))
        if callable(f):
            return f(*args, **kwargs)
        raise Unfoldable('not callable: %r' % (f,))

    # ------------------------------------------------------------------ expressions
    def name(self, ident, env):
        ok, v = env.lookup(ident)
        if ok:
            return v
        try:
            return self.module_attr(env.rel, ident)
        except Unfoldable as e:
            if 'does not define' not in str(e):
                raise
        if ident in SAFE_BUILTINS:
            return SAFE_BUILTINS[ident]
        if ident in SAFE_EXC:
            return SAFE_EXC[ident]
        raise Unfoldable('unbound name %r in %s' % (ident, env.rel))

    def attribute(self, v, attr, node=None):
        if isinstance(v, Opaque):
            return v._get(attr)
        if isinstance(v, ModuleRef):
            return self.module_attr(v.rel, attr)
        if isinstance(v, StdModule):
            if attr in STDLIB[v.name]:
                return STDLIB[v.name][attr]
            raise Unfoldable('%s.%s is not on the whitelist' % (v.name, attr))
        if isinstance(v, _CythonShim):
            if attr == 'declare':
                return lambda t=None, value=None, **kw: value
            if attr == 'cast':
                return lambda t, value, **kw: value
            return _Marker('cython.' + attr)
        if isinstance(v, PlexModel):
            return getattr(v, attr)
        if isinstance(v, VALUE_TYPES) and not attr.startswith('_'):
            return getattr(v, attr)
        raise Unfoldable('cannot fold attribute .%s of %r' % (attr, type(v).__name__))

    def expr(self, n, env):
        self.steps += 1
        if self.steps > self.MAX_STEPS:
            raise Unfoldable('folding budget exhausted')
        t = type(n)
        if t is ast.Constant:
            return n.value
        if t is ast.Name:
            return self.name(n.id, env)
        if t is ast.Attribute:
            return self.attribute(self.expr(n.value, env), n.attr, n)
        if t in (ast.Tuple, ast.List, ast.Set):
            out = []
            for e in n.elts:
                if isinstance(e, ast.Starred):
                    out.extend(self.expr(e.value, env))
                else:
                    out.append(self.expr(e, env))
            return tuple(out) if t is ast.Tuple else (out if t is ast.List else set(out))
        if t is ast.Dict:
            d = {}
            for k, v in zip(n.keys, n.values):
                if k is None:
                    d.update(self.expr(v, env))
                else:
                    d[self.expr(k, env)] = self.expr(v, env)
            return d
        if t is ast.BinOp:
            op = _BINOPS.get(type(n.op))
            if op is None:
                raise Unfoldable('operator %s' % type(n.op).__name__)
            a, b = self.expr(n.left, env), self.expr(n.right, env)
            if isinstance(a, (Opaque, _Marker)) or isinstance(b, (Opaque, _Marker)):
                raise Unfoldable('arithmetic on an opaque value: %s' % node_src(n, 60))
            return op(a, b)
        if t is ast.UnaryOp:
            v = self.expr(n.operand, env)
            if isinstance(v, Opaque):
                raise Unfoldable('unary operator on an opaque value: %s' % node_src(n, 60))
            if isinstance(n.op, ast.Not):
                return not v
            if isinstance(n.op, ast.USub):
                return -v
            if isinstance(n.op, ast.UAdd):
                return +v
            return ~v
        if t is ast.BoolOp:
            v = None
            for e in n.values:
                v = self.expr(e, env)
                if isinstance(v, Opaque):
                    raise Unfoldable('truth value of an opaque value: %s' % node_src(n, 60))
                if isinstance(n.op, ast.And) and not v:
                    return v
                if isinstance(n.op, ast.Or) and v:
                    return v
            return v
        if t is ast.Compare:
            left = self.expr(n.left, env)
            for op, c in zip(n.ops, n.comparators):
                right = self.expr(c, env)
                if isinstance(left, Opaque) or isinstance(right, Opaque):
                    raise Unfoldable('comparison with an opaque value: %s' % node_src(n, 60))
                if not _CMPOPS[type(op)](left, right):
                    return False
                left = right
            return True
        if t is ast.IfExp:
            c = self.expr(n.test, env)
            if isinstance(c, Opaque):
                raise Unfoldable('truth value of an opaque value: %s' % node_src(n.test, 60))
            return self.expr(n.body if c else n.orelse, env)
        if t is ast.Subscript:
            v = self.expr(n.value, env)
            if isinstance(v, (Opaque, _Marker)):
                raise Unfoldable('subscript of an opaque value: %s' % node_src(n, 60))
            return v[self.slice(n.slice, env)]
        if t is ast.JoinedStr:
            return ''.join(self.expr(p, env) for p in n.values)
        if t is ast.FormattedValue:
            v = self.expr(n.value, env)
            if isinstance(v, Opaque):
                raise Unfoldable('formatting an opaque value')
            if n.conversion == ord('r'):
                v = repr(v)
            elif n.conversion == ord('s'):
                v = str(v)
            elif n.conversion == ord('a'):
                v = ascii(v)
            spec = self.expr(n.format_spec, env) if n.format_spec is not None else ''
            return format(v, spec)
        if t in (ast.ListComp, ast.GeneratorExp, ast.SetComp):
            out = []
            self._comp(n.generators, 0, env.child(), lambda e: out.append(self.expr(n.elt, e)))
            return out if t is not ast.SetComp else set(out)
        if t is ast.DictComp:
            d = {}

            def put(e):
                d[self.expr(n.key, e)] = self.expr(n.value, e)
            self._comp(n.generators, 0, env.child(), put)
            return d
        if t is ast.Lambda:
            return Closure(self, n, env)
        if t is ast.Call:
            f = self.expr(n.func, env)
            args, kwargs = [], {}
            for a in n.args:
                if isinstance(a, ast.Starred):
                    args.extend(self.expr(a.value, env))
                else:
                    args.append(self.expr(a, env))
            for k in n.keywords:
                if k.arg is None:
                    kwargs.update(self.expr(k.value, env))
                else:
                    kwargs[k.arg] = self.expr(k.value, env)
            if not isinstance(f, (Opaque, Closure)) and any(isinstance(a, Opaque) for a in list(args) + list(kwargs.values())) \
                    and not isinstance(f, PlexCallable):
                raise Unfoldable('opaque argument passed to %s' % node_src(n.func, 60))
            return self.call_value(f, args, kwargs, n)
        raise Unfoldable('expression form %s: %s' % (t.__name__, node_src(n, 60)))

    def slice(self, s, env):
        if isinstance(s, ast.Slice):
            return slice(*(self.expr(x, env) if x is not None else None for x in (s.lower, s.upper, s.step)))
        if isinstance(s, ast.Tuple):
            return tuple(self.slice(e, env) for e in s.elts)
        return self.expr(s, env)

    def _comp(self, gens, i, env, emit):
        if i == len(gens):
            emit(env)
            return
        g = gens[i]
        for item in self.expr(g.iter, env):
            self.assign(g.target, item, env)
            if all(self.expr(c, env) for c in g.ifs):
                self._comp(gens, i + 1, env, emit)

    # ------------------------------------------------------------------ statements
    def assign(self, target, value, env):
        if isinstance(target, ast.Name):
            env.vars[target.id] = value
        elif isinstance(target, (ast.Tuple, ast.List)):
            vals = list(value)
            if len(vals) != len(target.elts):
                raise Unfoldable('unpacking mismatch')
            for t, v in zip(target.elts, vals):
                self.assign(t, v, env)
        elif isinstance(target, ast.Subscript):
            obj = self.expr(target.value, env)
            if not isinstance(obj, (list, dict, bytearray)):
                raise Unfoldable('item store into %r' % type(obj).__name__)
            obj[self.slice(target.slice, env)] = value
        elif isinstance(target, ast.Attribute):
            obj = self.expr(target.value, env)
            if isinstance(obj, Opaque):
                obj._log.append((obj._name + '.' + target.attr + '=', (value,), {}))
                obj._attrs[target.attr] = value
            else:
                raise Unfoldable('attribute store on %r' % type(obj).__name__)
        else:
            raise Unfoldable('assignment target %s' % type(target).__name__)

    def truth(self, n, env):
        v = self.expr(n, env)
        if isinstance(v, Opaque):
            raise Unfoldable('truth value of an opaque value: %s' % node_src(n, 60))
        return bool(v)

    def block(self, stmts, env):
        for s in stmts:
            self.stmt(s, env)

    def stmt(self, s, env):
        self.steps += 1
        if self.steps > self.MAX_STEPS:
            raise Unfoldable('folding budget exhausted')
        t = type(s)
        if t is ast.Expr:
            if not (isinstance(s.value, ast.Constant)):
                self.expr(s.value, env)
        elif t is ast.Assign:
            v = self.expr(s.value, env)
            for tg in s.targets:
                self.assign(tg, v, env)
        elif t is ast.AnnAssign:
            if s.value is not None:
                self.assign(s.target, self.expr(s.value, env), env)
        elif t is ast.AugAssign:
            op = _BINOPS.get(type(s.op))
            if op is None or not isinstance(s.target, ast.Name):
                raise Unfoldable('augmented assignment %s' % node_src(s, 60))
            cur = self.name(s.target.id, env)
            val = self.expr(s.value, env)
            if isinstance(cur, Opaque) or isinstance(val, Opaque):
                raise Unfoldable('arithmetic on an opaque value: %s' % node_src(s, 60))
            env.vars[s.target.id] = op(cur, val)
        elif t is ast.Return:
            raise _Return(self.expr(s.value, env) if s.value is not None else None)
        elif t is ast.Pass:
            pass
        elif t is ast.If:
            self.block(s.body if self.truth(s.test, env) else s.orelse, env)
        elif t is ast.For:
            broke = False
            for item in self.expr(s.iter, env):
                self.assign(s.target, item, env)
                try:
                    self.block(s.body, env)
                except _Break:
                    broke = True
                    break
                except _Continue:
                    continue
            if not broke:
                self.block(s.orelse, env)
        elif t is ast.While:
            n = 0
            broke = False
            while self.truth(s.test, env):
                n += 1
                if n > 100000:
                    raise Unfoldable('loop bound exceeded')
                try:
                    self.block(s.body, env)
                except _Break:
                    broke = True
                    break
                except _Continue:
                    continue
            if not broke:
                self.block(s.orelse, env)
        elif t is ast.Break:
            raise _Break()
        elif t is ast.Continue:
            raise _Continue()
        elif t in (ast.FunctionDef,):
            env.vars[s.name] = Closure(self, s, env)
        elif t is ast.Assert:
            if not self.truth(s.test, env):
                raise AssertionError(node_src(s.test, 80))
        elif t in (ast.Import, ast.ImportFrom):
            for a in s.names:
                local = a.asname or a.name.split('.')[0]
                v = self._bind_import(env.rel, s, local)
                if v is NotImplemented:
                    raise Unfoldable('import %s' % local)
                env.vars[local] = v
        elif t is ast.Try:
            try:
                self.block(s.body, env)
            except (_Return, _Break, _Continue, AnalysisError):
                raise
            except Exception as e:          # an exception of the *reference* builtins (e.g. KeyError of a dict lookup)
                for h in s.handlers:
                    if h.type is None:
                        match = True
                    else:
                        types = h.type.elts if isinstance(h.type, ast.Tuple) else [h.type]
                        match = False
                        for ty in types:
                            cls = SAFE_EXC.get(ty.id) if isinstance(ty, ast.Name) else None
                            if cls is None:
                                raise Unfoldable('except clause %s' % node_src(ty, 40))
                            if isinstance(e, cls):
                                match = True
                    if match:
                        if h.name:
                            env.vars[h.name] = e
                        self.block(h.body, env)
                        break
                else:
                    raise
            else:
                self.block(s.orelse, env)
            finally:
                if s.finalbody:
                    self.block(s.finalbody, env)
        elif t is ast.Delete:
            for tg in s.targets:
                if isinstance(tg, ast.Name):
                    env.vars.pop(tg.id, None)
                else:
                    raise Unfoldable('del %s' % node_src(tg, 40))
        else:
            raise Unfoldable('statement form %s: %s' % (t.__name__, node_src(s, 60)))


# =====================================================================================================
# 2. Plex model
# =====================================================================================================

EOF = '<EOF>'


class CS:
    """Set of characters: finite or co-finite."""
    __slots__ = ('neg', 'chars')

    def __init__(self, chars, neg=False):
        self.chars, self.neg = frozenset(chars), neg

    def __contains__(self, c):
        return (c in self.chars) != self.neg

    def union(self, o):
        if not self.neg and not o.neg:
            return CS(self.chars | o.chars)
        if self.neg and o.neg:
            return CS(self.chars & o.chars, True)
        n, p = (self, o) if self.neg else (o, self)
        return CS(n.chars - p.chars, True)

    def is_all(self):
        return self.neg and not self.chars

    def missing(self):
        """characters not in the set (only meaningful for co-finite sets)."""
        return sorted(self.chars) if self.neg else None

    def __repr__(self):
        s = ''.join(sorted(self.chars))
        return ('AnyBut(%r)' if self.neg else 'Any(%r)') % (s if len(s) < 40 else s[:37] + '...')


class PlexModel:
    pass


class PlexCallable:
    """marker base for model constructors (they accept Opaque-free values only, but are no builtins)."""


class RE(PlexModel):
    def __add__(self, other):
        return SeqR([self, other])

    def __or__(self, other):
        return AltR([self, other])


class Ch(RE):
    def __init__(self, cs):
        self.cs = cs


class Sym(RE):
    def __init__(self, sym):
        self.sym = sym


class EmptyR(RE):
    pass


class SeqR(RE):
    def __init__(self, parts):
        self.parts = []
        for p in parts:
            if not isinstance(p, RE):
                raise Unfoldable('Plex: Seq of a non-RE %r' % (p,))
            self.parts.extend(p.parts if isinstance(p, SeqR) else [p])


class AltR(RE):
    def __init__(self, parts):
        self.parts = []
        for p in parts:
            if not isinstance(p, RE):
                raise Unfoldable('Plex: Alt of a non-RE %r' % (p,))
            self.parts.extend(p.parts if isinstance(p, AltR) else [p])


class Rep1R(RE):
    def __init__(self, re_):
        if not isinstance(re_, RE):
            raise Unfoldable('Plex: Rep1 of a non-RE')
        self.re = re_


class MethodAct(PlexModel):
    def __init__(self, name, **kwargs):
        self.name, self.kwargs = name, kwargs

    def __repr__(self):
        return 'Method(%r)' % self.name


class StateSpec(PlexModel):
    def __init__(self, name, tokens):
        self.name, self.tokens = name, list(tokens)


class LexSpec(PlexModel):
    def __init__(self, specifications, **kw):
        self.specs = list(specifications)


def _model(fn):
    class _C(PlexCallable):
        def __call__(self, *a, **k):
            return fn(*a, **k)
        __name__ = fn.__name__
    return _C()


def _str1(s):
    if not isinstance(s, str):
        raise Unfoldable('Plex: Str of %r' % (s,))
    return SeqR([Ch(CS(c)) for c in s]) if len(s) != 1 else Ch(CS(s))


def _Str(*strs):
    if len(strs) == 1:
        return _str1(strs[0]) if strs[0] else EmptyR()
    return AltR([_str1(s) for s in strs])


def _Range(s1, s2=None):
    if s2:
        return Ch(CS(map(chr, range(ord(s1), ord(s2) + 1))))
    chars = set()
    for i in range(0, len(s1), 2):
        chars.update(map(chr, range(ord(s1[i]), ord(s1[i + 1]) + 1)))
    return Ch(CS(chars))


TEXT, IGNORE = _Marker('TEXT'), _Marker('IGNORE')

PLEX_MODELS = {
    'Str': _model(_Str),
    'Any': _model(lambda s: Ch(CS(s))),
    'AnyBut': _model(lambda s: Ch(CS(s, True))),
    'AnyChar': Ch(CS('', True)),
    'Range': _model(_Range),
    'Opt': _model(lambda r: AltR([r, EmptyR()])),
    'Rep': _model(lambda r: AltR([Rep1R(r), EmptyR()])),
    'Rep1': _model(Rep1R),
    'Seq': _model(lambda *r: SeqR(list(r))),
    'Alt': _model(lambda *r: AltR(list(r))),
    'Empty': EmptyR(),
    'Bol': Sym('bol'), 'Eol': Sym('eol'), 'Eof': Sym('eof'),
    'TEXT': TEXT, 'IGNORE': IGNORE,
    'Method': _model(MethodAct),
    'State': _model(StateSpec),
    'Lexicon': _model(LexSpec),
}


def first_set(r):
    """-> (CS of possible first characters, nullable, may start with Eof)."""
    if isinstance(r, Ch):
        return r.cs, False, False
    if isinstance(r, Sym):
        if r.sym == 'eof':
            return CS(''), False, True
        return CS(''), True, False          # Bol / Eol are optional markers around the newline
    if isinstance(r, EmptyR):
        return CS(''), True, False
    if isinstance(r, Rep1R):
        return first_set(r.re)
    if isinstance(r, AltR):
        cs, nul, eof = CS(''), False, False
        for p in r.parts:
            c, n, e = first_set(p)
            cs, nul, eof = cs.union(c), nul or n, eof or e
        return cs, nul, eof
    if isinstance(r, SeqR):
        cs, eof = CS(''), False
        for p in r.parts:
            c, n, e = first_set(p)
            cs, eof = cs.union(c), eof or e
            if not n:
                return cs, False, eof
        return cs, True, eof
    raise Unfoldable('Plex: unknown RE %r' % (r,))


class NFA:
    def __init__(self, r):
        self.eps, self.trans = {}, {}
        self.n = 0
        self.start, self.final = self._new(), self._new()
        self._build(r, self.start, self.final)

    def _new(self):
        self.n += 1
        self.eps[self.n], self.trans[self.n] = [], []
        return self.n

    def _build(self, r, a, b):
        if isinstance(r, Ch):
            self.trans[a].append((r.cs, b))
        elif isinstance(r, Sym):
            if r.sym == 'eof':
                self.trans[a].append((EOF, b))
            else:
                self.eps[a].append(b)
        elif isinstance(r, EmptyR):
            self.eps[a].append(b)
        elif isinstance(r, SeqR):
            cur = a
            for i, p in enumerate(r.parts):
                nxt = b if i == len(r.parts) - 1 else self._new()
                self._build(p, cur, nxt)
                cur = nxt
            if not r.parts:
                self.eps[a].append(b)
        elif isinstance(r, AltR):
            for p in r.parts:
                self._build(p, a, b)
        elif isinstance(r, Rep1R):
            s, e = self._new(), self._new()
            self.eps[a].append(s)
            self._build(r.re, s, e)
            self.eps[e].append(s)
            self.eps[e].append(b)
        else:
            raise Unfoldable('Plex: unknown RE %r' % (r,))

    def _close(self, states):
        todo, seen = list(states), set(states)
        while todo:
            s = todo.pop()
            for t in self.eps[s]:
                if t not in seen:
                    seen.add(t)
                    todo.append(t)
        return seen

    def longest(self, text, pos=0, at_eof=True):
        """length of the longest match starting at text[pos] (-1: none).  A trailing Eof symbol matches at the end."""
        cur = self._close({self.start})
        best = 0 if self.final in cur else -1
        i = pos
        while cur:
            sym = text[i] if i < len(text) else (EOF if (at_eof and i == len(text)) else None)
            if sym is None:
                break
            nxt = set()
            for s in cur:
                for lab, t in self.trans[s]:
                    if lab is EOF or sym is EOF:
                        if lab is EOF and sym is EOF:
                            nxt.add(t)
                    elif sym in lab:
                        nxt.add(t)
            cur = self._close(nxt)
            i += 1
            if self.final in cur:
                best = i - pos
            if sym is EOF:
                break
        return best


class LexState:
    def __init__(self, name, tokens):
        self.name = name
        self.rules = []
        for tok in tokens:
            if isinstance(tok, StateSpec):
                continue
            if not (isinstance(tok, tuple) and len(tok) == 2 and isinstance(tok[0], RE)):
                raise Unfoldable('lexicon state %r: malformed token spec %r' % (name, tok))
            self.rules.append((tok[0], tok[1], NFA(tok[0])))

    def scan(self, text, pos):
        """Plex semantics: longest match, first rule wins ties -> (action, length) or (None, 0)."""
        best, act = 0, None
        for r, a, nfa in self.rules:
            n = nfa.longest(text, pos)
            if n > best:
                best, act = n, a
        return act, best


def load_lexicon(ctx):
    """Fold Lexicon.make_lexicon() with the Plex constructors replaced by the model -> {state name: LexState}."""
    def build():
        rel = 'Cython/Compiler/Lexicon.py'
        f = Folder(ctx, overrides={'Cython/Plex/__init__.py': PLEX_MODELS, 'Cython/Plex.py': PLEX_MODELS})
        spec = f.function(rel, 'make_lexicon')()
        if not isinstance(spec, LexSpec):
            raise AnalysisError('Lexicon.make_lexicon() does not return Lexicon(...) any more')
        states = {'': LexState('', spec.specs)}
        for tok in spec.specs:
            if isinstance(tok, StateSpec):
                if tok.name in states:
                    raise AnalysisError('lexicon state %r defined twice' % tok.name)
                states[tok.name] = LexState(tok.name, tok.tokens)
        return states, f
    return ctx.memo('pC10.lexicon', build)


# =====================================================================================================
# 3. C10 rules
# =====================================================================================================

PARSING = 'Cython/Compiler/Parsing.py'
ENCODING = 'Cython/Compiler/StringEncoding.py'
LEXICON = 'Cython/Compiler/Lexicon.py'
SCANNING = 'Cython/Compiler/Scanning.py'
CODE = 'Cython/Compiler/Code.py'
ERR = _Marker('error')
BUILDER_OF_KIND = {'u+': 'StrLiteralBuilder', 'u': 'UnicodeLiteralBuilder', 'f': 'UnicodeLiteralBuilder', 'b': 'BytesLiteralBuilder',
                   'c': 'BytesLiteralBuilder', '': 'StrLiteralBuilder'}


def py_eval(prefix, body, quote='"'):
    """What the checker's own CPython makes of the literal (the reference)."""
    src = prefix + quote + body + quote
    with warnings.catch_warnings():
        warnings.simplefilter('ignore')
        try:
            return ast.literal_eval(src)
        except (SyntaxError, ValueError):
            return ERR


class MissingMethod(Exception):
    pass


class Builders:
    """Effects of the literal-builder methods, extracted by folding each method with `self` as a recorder."""

    def __init__(self, ctx, folder, tree=None):
        self.ctx, self.f = ctx, folder
        self.tree = tree if tree is not None else ctx.parse(ENCODING)
        self.classes = {c.name: c for c in self.tree.body if isinstance(c, ast.ClassDef)}
        self.cache = {}

    def cls(self, name):
        if name not in self.classes:
            raise AnalysisError('class StringEncoding.%s vanished' % name)
        return self.classes[name]

    def methods(self, name):
        return {m.name: m for m in self.cls(name).body if isinstance(m, ast.FunctionDef)}

    def subbuilders(self, name):
        """attributes of `self` that __init__ binds to an instance of another class of this module."""
        init = self.methods(name).get('__init__')
        out = {}
        if init is not None:
            for n in ast.walk(init):
                if isinstance(n, ast.Assign) and len(n.targets) == 1 and isinstance(n.targets[0], ast.Attribute) and \
                        isinstance(n.targets[0].value, ast.Name) and n.targets[0].value.id == init.args.args[0].arg and \
                        isinstance(n.value, ast.Call) and isinstance(n.value.func, ast.Name) and n.value.func.id in self.classes:
                    out[n.targets[0].attr] = n.value.func.id
        return out

    def effect(self, clsname, meth, args, depth=0):
        """-> list of (field path, piece appended)."""
        key = (clsname, meth, args)
        if key in self.cache:
            return self.cache[key]
        if depth > 6:
            raise Unfoldable('builder methods recurse too deeply (%s.%s)' % (clsname, meth))
        ms = self.methods(clsname)
        if meth not in ms:
            raise MissingMethod('%s.%s' % (clsname, meth))
        log = []
        me = Opaque('self', log, {'_target_encoding': 'UTF-8'})
        Closure(self.f, ms[meth], Env({}, None, ENCODING))(me, *args)
        subs = self.subbuilders(clsname)
        out = []
        for name, a, kw in log:
            parts = name.split('.')
            if parts[0] != 'self' or kw:
                raise Unfoldable('%s.%s: cannot interpret %s' % (clsname, meth, name))
            if len(parts) == 2:
                out.extend(self.effect(clsname, parts[1], a, depth + 1))
            elif len(parts) == 3 and parts[1] in subs:
                out.extend((parts[1] + '/' + p, v) for p, v in self.effect(subs[parts[1]], parts[2], a, depth + 1))
            elif len(parts) == 3 and parts[2] == 'append' and len(a) == 1:
                out.append((parts[1], a[0]))
            elif len(parts) == 3 and parts[2] == 'extend' and len(a) == 1:
                out.extend((parts[1], x) for x in a[0])
            else:
                raise Unfoldable('%s.%s: cannot interpret %s' % (clsname, meth, name))
        self.cache[key] = out
        return out


def _pieces(eff):
    """split builder effects into the unicode and the bytes value they build."""
    u = [v for p, v in eff if isinstance(v, str)]
    b = [v for p, v in eff if isinstance(v, (bytes, bytearray))]
    if len(u) + len(b) != len(eff):
        raise Unfoldable('builder appended a non-string piece: %r' % (eff,))
    return ''.join(u), b''.join(b)


class LiteralModel:
    """Lexicon state -> tokens -> p_string_literal_shared_read / _append_escape_sequence -> builder effects."""

    def __init__(self, ctx):
        self.ctx = ctx
        self.states, self.f = load_lexicon(ctx)
        self.builders = Builders(ctx, self.f)
        self.read = self.f.function(PARSING, 'p_string_literal_shared_read')
        tables.find_function(ctx.parse(PARSING), '_append_escape_sequence')
        psl = tables.find_function(ctx.parse(PARSING), 'p_string_literal')
        made = {n.func.attr for n in ast.walk(psl) if isinstance(n, ast.Call) and isinstance(n.func, ast.Attribute)}
        for c in set(BUILDER_OF_KIND.values()):
            if c not in made:
                raise AnalysisError('p_string_literal no longer constructs StringEncoding.%s' % c)
        self.tok_cache = {}

    def token(self, sy, text, kind, is_raw, level):
        key = (sy, text, kind, is_raw, level)
        if key not in self.tok_cache:
            log = []
            s = Opaque('s', log, {'sy': sy, 'systring': text,
                                  'context': Opaque('s.context', log, {'language_level': level})})
            chars = Opaque('chars', log)
            try:
                res = self.read(s, ('<pos>', 1, 0), chars, kind, is_raw=is_raw)
                self.tok_cache[key] = (res, log, None)
            except AnalysisError:
                raise
            except Exception as e:           # an exception of the reference builtins: the compiler would crash here
                self.tok_cache[key] = (None, log, e)
        return self.tok_cache[key]

    def literal(self, state, body, quote, kind, is_raw, level=3):
        """-> dict(unicode=, bytes=, error=bool, crash=exc or None, tokens=[...]) or None if the body leaves the
        plain string protocol (a Method action other than the end of the string)."""
        st = self.states.get(state)
        if st is None:
            raise AnalysisError('lexicon state %r vanished' % state)
        text = body + quote
        pos, toks, eff, err = 0, [], [], False
        bcls = BUILDER_OF_KIND[kind]
        kind = kind.rstrip('+')       # 'u+': kind 'u' collected in a StrLiteralBuilder (unprefixed literal, unicode_literals)
        while True:
            act, n = st.scan(text, pos)
            if n == 0:
                return dict(tokens=toks, unrecognised=text[pos:pos + 1])
            tok = text[pos:pos + n]
            pos += n
            if isinstance(act, MethodAct):
                if act.name in ('end_string_action', 'end_ft_string_action') and pos == len(text):
                    break
                return None
            if not isinstance(act, str):
                return None
            toks.append((act, tok))
            res, log, exc = self.token(act, tok, kind, is_raw, level)
            if exc is not None:
                return dict(tokens=toks, crash=exc)
            if res is None:
                return dict(tokens=toks, unhandled=act)
            for name, a, kw in log:
                if name == 's.error':
                    err = True
                elif name.startswith('chars.') and name.count('.') == 1 and not kw:
                    try:
                        eff.extend(self.builders.effect(bcls, name.split('.')[1], a))
                    except MissingMethod as e:
                        return dict(tokens=toks, missing=str(e))
                    except AnalysisError:
                        raise
                    except Exception as e:
                        return dict(tokens=toks, crash=e)
                elif name.startswith('s.'):
                    continue
                else:
                    raise Unfoldable('unexpected effect %s while reading token %r' % (name, tok))
            if pos >= len(text):
                return None
        u, b = _pieces(eff)
        return dict(unicode=u, bytes=b, error=err, tokens=toks)


def literal_model(ctx):
    return ctx.memo('pC10.literal_model', lambda: LiteralModel(ctx))


_OCT, _HEXL = '01234567', 'xuUN'
_CONTS_SHORT = ('', 'z', '0')
_CONTS_LONG = ('', 'z', '0', '00', '000', '7777', '12', '123z', 'fF', 'fFz', '4', 'fFfF', '00e9', '00E9z', '0001F600', '0001f600zz',
               '00110000', 'd800', '{LATIN SMALL LETTER A}', '{latin small letter a}z', '{NO SUCH NAME XYZ}', '{', '{}', '77', '377', '400', '777')


def _cls_of(c):
    return 'octal' if c in _OCT else repr(c)[1:-1]


_ESC_CONFIGS = [
    # (label, state, kind, is_raw, python prefix for the unicode value, python prefix for the bytes value)
    ('str literal u"..."', 'DQ_STRING', 'u', False, '', None),
    ('bytes literal b"..."', 'DQ_STRING', 'b', False, None, 'b'),
    ('unprefixed literal "..." (both values)', 'DQ_STRING', '', False, '', 'b'),
    ('unprefixed literal under unicode_literals / language_level 3', 'DQ_STRING', 'u+', False, '', 'b'),
    ('raw str literal r"..."', 'DQ_STRING', 'u', True, 'r', None),
    ('raw bytes literal br"..."', 'DQ_STRING', 'b', True, None, 'rb'),
    ('triple-quoted str literal', 'TDQ_STRING', 'u', False, '', None),
    ('f-string text f"..."', 'DQ_STRING_FT', 'u', False, '', None),
    ('raw f-string text rf"..."', 'DQ_STRING_FTR', 'u', True, 'r', None),
]


def judge_literal(m, config, body):
    """Compare the model's reading of one literal with CPython's -> None (not applicable), ('ok',) or (category, file, message)."""
    label, state, kind, is_raw, upre, bpre = config
    quote = '"""' if state.startswith('T') else '"'
    exp_u = py_eval(upre, body, quote) if upre is not None else None
    exp_b = py_eval(bpre, body, quote) if bpre is not None and body.isascii() else None
    if upre is None and exp_b is None:
        return None
    got = m.literal(state, body, quote, kind, is_raw)
    if got is None:
        return None
    what = '%s with body %r (tokens %r)' % (label, body, got.get('tokens'))
    if 'unrecognised' in got:
        return ('unrecognised', LEXICON, '%s: no rule of lexicon state %s matches at %r - the scanner raises UnrecognizedInput' % (what, state, got['unrecognised']))
    if 'unhandled' in got:
        return ('unhandled-token', PARSING, '%s: p_string_literal_shared_read has no branch for token %r' % (what, got['unhandled']))
    if 'missing' in got:
        return ('missing-builder-method', ENCODING, '%s: the parser calls %s which does not exist' % (what, got['missing']))
    if 'crash' in got:
        return ('crash', PARSING, '%s: the compiler raises %s: %s (CPython value: %s)' % (
            what, type(got['crash']).__name__, got['crash'], ascii(exp_u if exp_u is not None else exp_b)))
    want_err = (exp_u is ERR) if upre is not None else (exp_b is ERR)
    if want_err != got['error']:
        if got['error']:
            return ('spurious-error', PARSING, '%s: the parser reports an error but CPython accepts the literal as %s' % (what, ascii(exp_u if upre is not None else exp_b)))
        return ('missing-error', PARSING, '%s: CPython rejects the literal but the parser accepts it as %s' % (what, ascii(got['unicode'] if upre is not None else got['bytes'])))
    if want_err:
        return ('ok',)
    if upre is not None and got['unicode'] != exp_u:
        return ('value', PARSING, '%s: unicode value %s, CPython gives %s' % (what, ascii(got['unicode']), ascii(exp_u)))
    if bpre is not None and exp_b is not None and exp_b is not ERR and got['bytes'] != exp_b:
        return ('bytes-value', PARSING, '%s: bytes value %s, CPython gives %s' % (what, ascii(got['bytes']), ascii(exp_b)))
    return ('ok',)


_PC_READER = '''
def p_string_literal_shared_read(s, pos, chars, kind, is_raw):
    sy = s.sy
    systr = s.systring
    if sy == 'CHARS':
        chars.append(systr)
    elif sy == 'ESCAPE':
        if len(systr) == 2 and systr[1] in "abfnrt":
            chars.append({'a': '\\a', 'b': '\\b', 'f': '\\f', 'n': '\\n', 'r': '\\r', 't': '\\t'}[systr[1]])
        elif len(systr) == 4 and systr[1] == 'x':
            chars.append_charval(int(systr[2:], 10))
        else:
            chars.append(systr)
    else:
        return None
    return systr
'''


def rule_escapes(ctx):
    r = Rule('C10-ESC', 'escape decision table: for every escape token the lexicon can cut out of a string body, the branch of '
             'Parsing._append_escape_sequence it reaches and the builder calls made there produce the value (or the error) CPython assigns', floor=5000)
    m = literal_model(ctx)
    found = {}
    seconds = [chr(i) for i in range(1, 128) if chr(i) != '\r'] + ['\xe9']
    for c in seconds:
        conts = _CONTS_LONG if c in _OCT + _HEXL else _CONTS_SHORT
        for cont in conts:
            body = '\\' + c + cont
            for config in _ESC_CONFIGS:
                label, state, is_raw = config[0], config[1], config[3]
                if '_FT' in state and ('{' in body or '}' in body) and not (c == 'N' and cont.startswith('{') and '}' in cont and not is_raw):
                    continue
                res = judge_literal(m, config, body)
                if res is None:
                    continue
                r.inst((body, label), sample='%s, body %r: %s' % (label, body, res[0]))
                if res[0] != 'ok':
                    key = 'escape:\\%s:%s' % (_cls_of(c), res[0])
                    found.setdefault(key, [res[1], res[2], []])
                    if label not in found[key][2]:
                        found[key][2].append(label)
    lines = {PARSING: tables.find_function(ctx.parse(PARSING), '_append_escape_sequence').lineno,
             LEXICON: tables.find_function(ctx.parse(LEXICON), 'make_lexicon').lineno, ENCODING: 0}
    for key, (rel, msg, labels) in sorted(found.items()):
        r.violate(key, rel, lines.get(rel, 0), msg + (' [also: %s]' % '; '.join(labels[1:]) if len(labels) > 1 else ''))
    # positive control: the same lexicon and builders behind a reader that forgot \v and parses \xhh in base 10
    import copy
    pc = copy.copy(m)
    pc.tok_cache = {}
    pc.read = Closure(m.f, ast.parse(_PC_READER).body[0], Env({}, None, PARSING))
    got = [judge_literal(pc, _ESC_CONFIGS[0], b) for b in ('\\v', '\\x41', '\\n', '\\q')]
    r.positive_control([g[0] for g in got] == ['value', 'value', 'ok', 'ok'], 'a reader without the \\v row and with a decimal \\x: %r' % [g[0] for g in got])
    return r


def rule_name_alphabet(ctx):
    r = Rule('C10-NAME', r'every character that occurs in a Unicode character name known to CPython is accepted inside \N{...} by Lexicon.escapeseq', floor=30)
    m = literal_model(ctx)
    alphabet = set()
    for cp in range(0x110000):
        n = unicodedata.name(chr(cp), '')
        if n:
            alphabet.update(n)
    st = m.states.get('DQ_STRING')
    if st is None:
        raise AnalysisError('lexicon state DQ_STRING vanished')
    missing = []
    for a in sorted(alphabet):
        body = '\\N{A%sA}' % a
        act, n = st.scan(body + '"', 0)
        r.inst('name-char:%r' % a, sample='\\N{..%s..} -> token length %d of %d' % (a, n, len(body)))
        if not (act == 'ESCAPE' and n == len(body)):
            missing.append(a)
    if missing:
        ex = next((unicodedata.name(chr(cp)) for cp in range(0x110000) if any(x in unicodedata.name(chr(cp), '') for x in missing)), '?')
        r.violate('escape:\\N:name-alphabet', LEXICON, tables.find_function(ctx.parse(LEXICON), 'make_lexicon').lineno,
                  'Lexicon.escapeseq does not accept %r inside \\N{...}: a literal such as "\\N{%s}" is cut after "\\N", '
                  '_append_escape_sequence then looks up the empty name and the compiler rejects a literal CPython accepts' % (''.join(missing), ex))
    act, n = st.scan('\\N{A~A}"', 0)
    r.positive_control(n != len('\\N{A~A}'), 'a character outside the name alphabet is not accepted')
    return r


def rule_total(ctx):
    r = Rule('C10-TOTAL', 'every string-body state of the lexicon is total: whatever character comes next (followed by anything), some rule matches; end of file is matched too', floor=510)
    m = literal_model(ctx)
    string_states = [n for n, st in m.states.items() if any(a == 'ESCAPE' for _, a, _ in st.rules)]
    if len(string_states) < 8:
        raise AnalysisError('only %d lexicon states with an ESCAPE rule found' % len(string_states))

    def uncovered(st):
        mentioned = set()

        def rec(x):
            if isinstance(x, Ch):
                mentioned.update(x.cs.chars)
            elif isinstance(x, (SeqR, AltR)):
                for p in x.parts:
                    rec(p)
            elif isinstance(x, Rep1R):
                rec(x.re)
        for rx, a, nfa in st.rules:
            rec(rx)
        fresh = next(ch for ch in '☃☄★☆' if ch not in mentioned)
        out = []
        for x in sorted(mentioned) + [fresh]:
            act, n = st.scan(x + fresh + fresh + fresh, 0)
            yield x, n, (x == fresh)
        act, n = st.scan('', 0)
        yield EOF, n, False

    for name in sorted(string_states):
        st = m.states[name]
        for x, n, is_fresh in uncovered(st):
            what = 'any other character' if is_fresh else ('end of file' if x is EOF else repr(x))
            r.inst((name, x), sample='state %s, next input %s -> match length %d' % (name, what, n))
            if n < 1:
                r.violate('state:%s:%s' % (name, 'other' if is_fresh else ('EOF' if x is EOF else repr(x))), LEXICON, 0,
                          'lexicon state %s has no rule matching %s: a string literal containing it makes the scanner raise UnrecognizedInput instead of producing its value' % (name, what))
    pc = LexState('PC', [(Ch(CS('\\')), 'ESCAPE'), (Rep1R(Ch(CS('"\n\\\'', True))), 'CHARS'), (Ch(CS('"')), MethodAct('end_string_action')), (Sym('eof'), 'EOF')])
    r.positive_control(sorted(x for x, n, fr in uncovered(pc) if n < 1) == ['\n', "'"], 'a state without rules for newline and the other quote')
    return r


def _finite_values(expr, fn, cls_attrs, depth=0):
    """finite set of strings an expression can take (None = unknown)."""
    if depth > 4:
        return None
    if isinstance(expr, ast.Constant) and isinstance(expr.value, str):
        return {expr.value}
    if isinstance(expr, ast.IfExp):
        a, b = _finite_values(expr.body, fn, cls_attrs, depth + 1), _finite_values(expr.orelse, fn, cls_attrs, depth + 1)
        return None if a is None or b is None else a | b
    if isinstance(expr, ast.Subscript) and isinstance(expr.value, ast.Attribute) and isinstance(expr.value.value, ast.Name) and \
            expr.value.value.id == 'self' and expr.value.attr in cls_attrs:
        d = tables.literal(cls_attrs[expr.value.attr])
        if isinstance(d, dict) and all(isinstance(v, str) for v in d.values()):
            return set(d.values())
        return None
    if isinstance(expr, ast.JoinedStr):
        parts = []
        for p in expr.values:
            v = _finite_values(p.value if isinstance(p, ast.FormattedValue) else p, fn, cls_attrs, depth + 1)
            if v is None or (isinstance(p, ast.FormattedValue) and (p.format_spec is not None or p.conversion != -1)):
                return None
            parts.append(v)
        return {''.join(t) for t in itertools.product(*parts)}
    if isinstance(expr, ast.Name):
        defs = [n.value for n in ast.walk(fn) if isinstance(n, ast.Assign) and any(isinstance(t, ast.Name) and t.id == expr.id for t in n.targets)]
        if not defs:
            return None
        out = set()
        for d in defs:
            v = _finite_values(d, fn, cls_attrs, depth + 1)
            if v is None:
                return None
            out |= v
        return out
    return None


def rule_l6(ctx):
    r = Rule('C10-L6', "lexicon <-> scanner <-> parser names: Method('x') is a PyrexScanner method accepting the keywords given, begin(...) targets are lexicon states, "
             'token symbols of string states have a branch in p_string_literal_shared_read', floor=45)
    m = literal_model(ctx)
    tree = ctx.parse(SCANNING)
    scanner = next((c for c in tree.body if isinstance(c, ast.ClassDef) and c.name == 'PyrexScanner'), None)
    if scanner is None:
        raise AnalysisError('Scanning.PyrexScanner vanished')
    methods = {f.name: f for f in scanner.body if isinstance(f, ast.FunctionDef)}
    cls_attrs = {t.id: s.value for s in scanner.body if isinstance(s, ast.Assign) for t in s.targets if isinstance(t, ast.Name)}
    # (1) Method actions
    seen = set()
    for sname, st in sorted(m.states.items()):
        for rx, act, nfa in st.rules:
            if isinstance(act, MethodAct) and (act.name, tuple(sorted(act.kwargs))) not in seen:
                seen.add((act.name, tuple(sorted(act.kwargs))))
                key = 'Method:%s' % act.name
                r.inst(key + str(sorted(act.kwargs)), sample="Method(%r%s) in state %r" % (act.name, ''.join(', %s=' % k for k in act.kwargs), sname))
                fn = methods.get(act.name)
                if fn is None:
                    r.violate(key, LEXICON, 0, "Lexicon uses Method(%r) but PyrexScanner defines no such method: scanning the token raises AttributeError" % act.name)
                    continue
                params = [a.arg for a in fn.args.args[1:]] + [a.arg for a in fn.args.kwonlyargs]
                for k in act.kwargs:
                    if k not in params and not fn.args.kwarg:
                        r.violate(key + ':' + k, LEXICON, 0, "Method(%r, %s=...) but PyrexScanner.%s has no parameter %r" % (act.name, k, act.name, k))
                if len(fn.args.args) - 1 - len(fn.args.defaults) > 1 + len([k for k in act.kwargs if k in params]):
                    r.violate(key + ':arity', SCANNING, fn.lineno, "PyrexScanner.%s needs more arguments than the text and keywords Method(%r) passes" % (act.name, act.name))
    # (2) begin() targets
    resolved = 0
    for fname, fn in methods.items():
        for n in ast.walk(fn):
            if isinstance(n, ast.Call) and isinstance(n.func, ast.Attribute) and n.func.attr == 'begin' and \
                    isinstance(n.func.value, ast.Name) and n.func.value.id == 'self' and len(n.args) == 1:
                vals = _finite_values(n.args[0], fn, cls_attrs)
                if vals is None:
                    r.info('PyrexScanner.%s: begin(%s) not resolved to a finite set' % (fname, node_src(n.args[0], 50)))
                    continue
                resolved += 1
                for v in sorted(vals):
                    key = 'begin:%s:%s' % (fname, v)
                    r.inst(key, sample='PyrexScanner.%s begins state %r' % (fname, v))
                    if v not in m.states:
                        r.violate(key, SCANNING, n.lineno, 'PyrexScanner.%s switches to lexicon state %r, which Lexicon.make_lexicon does not define: '
                                  'the scanner fails as soon as a literal of that form is opened' % (fname, v))
    if resolved < 6:
        raise AnalysisError('only %d begin(...) sites resolved in PyrexScanner' % resolved)
    # the string states must be reachable from the begin actions
    begun = {k.split(':', 2)[2] for k in r.nontrivial if isinstance(k, str) and k.startswith('begin:')}
    for sname, st in sorted(m.states.items()):
        if any(a == 'ESCAPE' for _, a, _ in st.rules):
            r.inst('state-entered:' + sname, sample='string state %s is entered by some begin()' % sname)
            if sname not in begun:
                r.violate('state-entered:' + sname, SCANNING, 0, 'lexicon string state %s is never entered by PyrexScanner (string_states / begin_*_string_action): literals of that form are scanned in the wrong state' % sname)
    # (3) token symbols of string states vs the parser
    read = tables.find_function(ctx.parse(PARSING), 'p_string_literal_shared_read')
    alias = {'sy'}
    handled = set()
    for n in ast.walk(read):
        if isinstance(n, ast.Compare) and isinstance(n.left, ast.Name) and n.left.id in alias or \
                isinstance(n, ast.Compare) and isinstance(n.left, ast.Attribute) and n.left.attr == 'sy':
            for c in n.comparators:
                v = tables.literal(c)
                if isinstance(v, str):
                    handled.add(v)
                elif isinstance(v, (tuple, list, set)):
                    handled.update(x for x in v if isinstance(x, str))
    symbols = {}
    for sname, st in m.states.items():
        if any(a == 'ESCAPE' for _, a, _ in st.rules):
            for rx, act, nfa in st.rules:
                if isinstance(act, str):
                    symbols.setdefault(act, sname)
    for sym, sname in sorted(symbols.items()):
        r.inst('symbol:' + sym, sample='token %r (state %s) handled by p_string_literal_shared_read' % (sym, sname))
        if sym not in handled:
            r.violate('symbol:' + sym, PARSING, read.lineno, 'string states produce token %r but p_string_literal_shared_read has no branch for it: such a literal is rejected as "Unexpected token"' % sym)
    r.positive_control(_finite_values(ast.parse("f'{self.string_states[t]}_X{\"R\" if q else \"\"}'").body[0].value, read, {'string_states': ast.parse("{'a': 'S'}").body[0].value}) == {'S_X', 'S_XR'}, 'finite value set of an f-string state name')
    return r


_SAMPLE_ARGS = {
    'append': [('abc',), ('\xe9€',)],
    'append_charval': [(65,), (233,)],
    'append_uescape': [(0x20ac, '\\u20ac'), (65, '\\N{LATIN CAPITAL LETTER A}')],
}


def sibling_findings(b, r):
    """compare StrLiteralBuilder.append* with its two siblings on builder table `b`; findings go to rule `r`."""
    subs = b.subbuilders('StrLiteralBuilder')
    if sorted(subs.values()) != ['BytesLiteralBuilder', 'UnicodeLiteralBuilder']:
        raise AnalysisError('StrLiteralBuilder.__init__ no longer creates one BytesLiteralBuilder and one UnicodeLiteralBuilder (found %r)' % subs)
    names = set()
    for c in ('StrLiteralBuilder', 'BytesLiteralBuilder', 'UnicodeLiteralBuilder'):
        names |= {n for n in b.methods(c) if n.startswith('append')}
    for meth in sorted(names):
        if meth not in _SAMPLE_ARGS:
            raise AnalysisError('new literal-builder method %s: the checker has no sample arguments for it' % meth)
        for args in _SAMPLE_ARGS[meth]:
            key = 'StrLiteralBuilder.%s' % meth
            r.inst((key, args), sample='%s%r' % (key, args))
            try:
                both = b.effect('StrLiteralBuilder', meth, args)
            except MissingMethod as e:
                r.violate(key + ':missing', ENCODING, 0, '%s is missing (%s) although the sibling builders define it: unprefixed literals using this escape crash the parser' % (key, e))
                break
            except AnalysisError:
                raise
            except Exception as e:      # an exception of the reference builtins: the parser would crash on this piece of a literal
                r.violate(key + ':crash', ENCODING, b.methods('StrLiteralBuilder')[meth].lineno if meth in b.methods('StrLiteralBuilder') else 0,
                          '%s%r raises %s: %s (UTF-8 source): the parser crashes on an unprefixed literal containing this text' % (key, args, type(e).__name__, e))
                continue
            for attr, cname in sorted(subs.items()):
                try:
                    alone = b.effect(cname, meth, args)
                except MissingMethod as e:
                    r.violate('%s.%s:missing' % (cname, meth), ENCODING, 0, '%s.%s is missing although a sibling builder defines it' % (cname, meth))
                    continue
                except AnalysisError:
                    raise
                except Exception as e:
                    r.violate('%s.%s:crash' % (cname, meth), ENCODING, 0, '%s.%s%r raises %s: %s (UTF-8 source)' % (cname, meth, args, type(e).__name__, e))
                    continue
                mine = [(p.split('/', 1)[1], v) for p, v in both if p.startswith(attr + '/')]
                if mine != alone:
                    r.violate('%s:%s' % (key, attr), ENCODING, b.methods('StrLiteralBuilder')[meth].lineno,
                              '%s%r appends %r to self.%s but %s.%s%r appends %r: the two values of an unprefixed literal diverge from the prefixed forms' % (
                                  key, args, [v for _, v in mine], attr, cname, meth, args, [v for _, v in alone]))
            stray = [p for p, v in both if p.split('/')[0] not in subs]
            if stray:
                r.violate(key + ':stray', ENCODING, 0, '%s writes to %r besides its two sub-builders' % (key, stray))
    # the values are read back from the same sub-builders
    gs = b.methods('StrLiteralBuilder').get('getstrings')
    if gs is None:
        raise AnalysisError('StrLiteralBuilder.getstrings vanished')
    r.inst('StrLiteralBuilder.getstrings')
    ret = [n for n in ast.walk(gs) if isinstance(n, ast.Return)]
    order = []
    if len(ret) == 1 and isinstance(ret[0].value, ast.Tuple):
        for e in ret[0].value.elts:
            attrs = [x.attr for x in ast.walk(e) if isinstance(x, ast.Attribute) and isinstance(x.value, ast.Name) and x.value.id == 'self']
            order.append(subs.get(attrs[0]) if len(attrs) == 1 else None)
    if order != ['BytesLiteralBuilder', 'UnicodeLiteralBuilder']:
        r.violate('StrLiteralBuilder.getstrings:order', ENCODING, gs.lineno, 'getstrings() must return (bytes value, unicode value) from the two sub-builders in this order '
                  '(p_string_literal unpacks `bytes_value, unicode_value = chars.getstrings()`); found %r' % order)


_PC_BUILDERS = '''
class UnicodeLiteralBuilder:
    def __init__(self):
        self._chars = []
    def append(self, characters):
        self._chars.append(characters)
    def append_charval(self, char_number):
        self._chars.append(chr(char_number))
    def append_uescape(self, char_number, escape_string):
        self.append_charval(char_number)
class BytesLiteralBuilder:
    def __init__(self, target_encoding):
        self._chars = []
    def append(self, characters):
        if isinstance(characters, str):
            characters = characters.encode(self._target_encoding)
        self._chars.append(characters)
    def append_charval(self, char_number):
        self._chars.append(chr(char_number).encode('ISO-8859-1'))
    def append_uescape(self, char_number, escape_string):
        self.append(escape_string)
class StrLiteralBuilder:
    def __init__(self, target_encoding):
        self._bytes = BytesLiteralBuilder(target_encoding)
        self._unicode = UnicodeLiteralBuilder()
    def append(self, characters):
        self._bytes.append(characters)
        self._unicode.append(characters)
    def append_charval(self, char_number):
        self._bytes.append_charval(char_number)
    def append_uescape(self, char_number, escape_string):
        self._bytes.append(escape_string)
        self._unicode.append(escape_string)
    def getstrings(self):
        return (self._bytes.getstring(), self._unicode.getstring())
'''


def rule_siblings(ctx):
    r = Rule('C10-SIB', 'StrLiteralBuilder is the product of its siblings: each append variant has on the bytes side exactly the effect of '
             'BytesLiteralBuilder and on the unicode side exactly the effect of UnicodeLiteralBuilder', floor=6)
    m = literal_model(ctx)
    sibling_findings(m.builders, r)
    pr = Rule('pc', 'pc')
    sibling_findings(Builders(ctx, m.f, tree=ast.parse(_PC_BUILDERS)), pr)
    got = {f.construct for f in pr.findings}
    r.positive_control(got == {'StrLiteralBuilder.append_charval:_unicode', 'StrLiteralBuilder.append_uescape:_unicode'},
                       'a StrLiteralBuilder that forgets the unicode side of append_charval and forwards the wrong value in append_uescape: %s' % sorted(got))
    return r


# ---------------------------------------------------------------------------------- (e) compression table / guards

def _template(node):
    """string template -> list of str | ('ph', expr) parts, or None."""
    if isinstance(node, ast.Constant) and isinstance(node.value, str):
        return [node.value]
    if isinstance(node, ast.JoinedStr):
        out = []
        for p in node.values:
            if isinstance(p, ast.Constant):
                out.append(p.value)
            elif isinstance(p, ast.FormattedValue) and p.format_spec is None and p.conversion == -1:
                out.append(('ph', p.value))
            else:
                return None
        return out
    return None


def _flatten(parts):
    text, ph = '', []
    for p in parts:
        if isinstance(p, str):
            text += p
        else:
            text += '\x00%d\x00' % len(ph)
            ph.append(p[1])
    return text, ph


def _c_calls(text):
    """(name, [arg texts]) for every NAME(...) with balanced parentheses in a C text template."""
    for mo in re.finditer(r'\b(__Pyx_\w+)\s*\(', text):
        depth, i, args, cur = 1, mo.end(), [], ''
        while i < len(text) and depth:
            ch = text[i]
            if ch == '(':
                depth += 1
            elif ch == ')':
                depth -= 1
                if depth == 0:
                    break
            if ch == ',' and depth == 1:
                args.append(cur.strip())
                cur = ''
            else:
                cur += ch
            i += 1
        if depth == 0:
            args.append(cur.strip())
            yield mo.group(1), args


def _resolve_local(expr, fn):
    """follow `x = <expr>` for a name assigned exactly once in fn."""
    for _ in range(3):
        if not isinstance(expr, ast.Name):
            break
        defs = [n.value for n in ast.walk(fn) if isinstance(n, ast.Assign) and len(n.targets) == 1 and isinstance(n.targets[0], ast.Name) and n.targets[0].id == expr.id]
        if len(defs) != 1:
            break
        expr = defs[0]
    return expr


def _len_of(expr, fn):
    """name N if expr is len(N) (through one local alias)."""
    expr = _resolve_local(expr, fn)
    if isinstance(expr, ast.Call) and isinstance(expr.func, ast.Name) and expr.func.id == 'len' and len(expr.args) == 1 and isinstance(expr.args[0], ast.Name):
        return expr.args[0].id
    return None


def check_guards(fn, algos, cat_decls, r, rel=CODE):
    """The part of rule C10-ALG that looks at generate_pystring_constants (also run on the positive control)."""
    numvar = namevar = datavar = None
    loop = None
    for n in ast.walk(fn):
        if isinstance(n, ast.For) and isinstance(n.target, ast.Tuple) and len(n.target.elts) == 3 and all(isinstance(e, ast.Name) for e in n.target.elts):
            strs = [s for s in ast.walk(n) if isinstance(s, (ast.JoinedStr, ast.Constant)) and 'CYTHON_COMPRESS_STRINGS' in (_flatten(_template(s) or [])[0])]
            if strs and any(isinstance(c, ast.Call) and isinstance(c.func, ast.Name) and c.func.id == '_write_escaped_cstring_const' for c in ast.walk(n)):
                loop = n
                numvar, namevar, datavar = (e.id for e in n.target.elts)
    if loop is None:
        raise AnalysisError('generate_pystring_constants: the loop that emits the #if (CYTHON_COMPRESS_STRINGS) branches was not found')
    by_name = {v: k for k, v in algos.items()}
    # what was compressed
    source = None
    for n in ast.walk(fn):
        if isinstance(n, ast.For) and isinstance(n.target, ast.Tuple) and len(n.target.elts) == 3 and n is not loop:
            cvar = n.target.elts[2].id if isinstance(n.target.elts[2], ast.Name) else None
            for c in ast.walk(n):
                if isinstance(c, ast.Call) and isinstance(c.func, ast.Name) and c.func.id == cvar and len(c.args) == 1 and isinstance(c.args[0], ast.Name):
                    source = c.args[0].id
    if source is None:
        raise AnalysisError('generate_pystring_constants: the call compress(<data>) was not found')

    def branch_of(node):
        """algorithm name the statement is specialised for (None = every algorithm, 'other' = else branch)."""
        res = [None]

        def rec(stmts, cur):
            for s in stmts:
                if any(x is node for x in ast.walk(s)):
                    if isinstance(s, ast.If) and not any(x is node for x in ast.walk(s.test)):
                        t = s.test
                        nm = None
                        if isinstance(t, ast.Compare) and isinstance(t.left, ast.Name) and t.left.id == namevar and len(t.ops) == 1 and isinstance(t.ops[0], ast.Eq):
                            nm = tables.literal(t.comparators[0])
                        inbody = any(x is node for b in s.body for x in ast.walk(b))
                        if nm is not None:
                            rec(s.body if inbody else s.orelse, nm if inbody else (cur if cur not in (None,) else 'other'))
                        else:
                            rec(s.body if inbody else s.orelse, cur)
                    else:
                        res[0] = cur
                        for fld in ('body', 'orelse'):
                            if isinstance(getattr(s, fld, None), list) and any(x is node for b in getattr(s, fld) for x in ast.walk(b)):
                                rec(getattr(s, fld), cur)
        rec(loop.body, None)
        return res[0]

    written = None
    for c in ast.walk(loop):
        if isinstance(c, ast.Call) and isinstance(c.func, ast.Name) and c.func.id == '_write_escaped_cstring_const' and len(c.args) == 3:
            written = (c.args[1].id if isinstance(c.args[1], ast.Name) else None, tables.literal(c.args[2]))
    if written is None or written[0] is None:
        raise AnalysisError('generate_pystring_constants: _write_escaped_cstring_const(w, <data>, <name>) not found in the branch loop')
    r.inst('writer', sample='branch data %s written as C variable %r' % written)
    if written[0] != datavar:
        r.violate('generator:written-data', rel, loop.lineno, 'the branch loop writes %s as C data but iterates over (%s, %s, %s): the data of a different algorithm is emitted under this guard' % (written[0], numvar, namevar, datavar))

    disabled_by = {}
    for h in ('__Pyx_DecompressString', '__Pyx_DecompressString_LZSS'):
        ds = [d for d in cat_decls.get(h, []) if d.kind == 'func']
        if not ds:
            raise AnalysisError('%s not found in Cython/Utility' % h)
        for mo in re.finditer(r'#\s*ifdef\s+(\w+)\s*(.*?)#\s*else', ds[0].body or '', re.S):
            if re.search(r'return\s+NULL\s*;', mo.group(2)):
                disabled_by.setdefault(mo.group(1), set()).add(h)
    if not disabled_by:
        raise AnalysisError('no "#ifdef X ... return NULL; #else" switch found in the decompression helpers')

    calls_in, defines_in = {}, {}
    inner = {id(c) for j in ast.walk(loop) if isinstance(j, ast.JoinedStr) for c in ast.walk(j) if c is not j}
    for s in ast.walk(loop):
        parts = _template(s) if isinstance(s, (ast.JoinedStr, ast.Constant)) and id(s) not in inner else None
        if not parts:
            continue
        text, ph = _flatten(parts)
        br = branch_of(s)
        # guards
        for mo in re.finditer(r'\(CYTHON_COMPRESS_STRINGS\)\s*(==|<=|>=|<|>|!=)\s*(\x00\d+\x00|\d+)', text):
            op, operand = mo.group(1), mo.group(2)
            key = 'guard:%s:%s' % (br, op)
            r.inst(key, sample='guard of branch %r: (CYTHON_COMPRESS_STRINGS) %s %s' % (br, op, node_src(ph[int(operand.strip(chr(0)))], 40) if operand.startswith('\x00') else operand))
            if operand.startswith('\x00'):
                e = _resolve_local(ph[int(operand.strip('\x00'))], fn)
                if not (isinstance(e, ast.Name) and e.id == numvar):
                    r.violate(key, rel, s.lineno, 'the #if guard of branch %r compares CYTHON_COMPRESS_STRINGS with %s instead of the number of the algorithm whose data follows (%s)' % (br, node_src(e, 40), numvar))
            else:
                k = int(operand)
                if k == 0 and op in ('>', '!=', '>='):
                    continue
                if br in by_name and by_name[br] == k:
                    continue
                r.violate(key, rel, s.lineno, 'the #if guard of branch %r uses the literal number %d, but Code.compression_algorithms gives %s: a module built with -DCYTHON_COMPRESS_STRINGS=%s selects data of another algorithm or none' % (
                    br, k, ('%r the number %s' % (br, by_name[br])) if br in by_name else 'no such fixed branch', by_name.get(br, k)))
        for name, args in _c_calls(text):
            if name not in ('__Pyx_DecompressString', '__Pyx_DecompressString_LZSS'):
                continue
            key = 'call:%s' % name
            r.inst(key, sample='branch %r emits %s(%s)' % (br, name, ', '.join(a if not a.startswith('\x00') else '{%s}' % node_src(ph[int(a.strip(chr(0)))], 30) for a in args)))
            calls_in.setdefault(br, set()).add(name)
            decl = [d for d in cat_decls.get(name, []) if d.kind == 'func'][0]
            if len(args) != len(decl.params):
                r.violate(key + ':arity', rel, s.lineno, '%s is emitted with %d arguments, the C function takes %d' % (name, len(args), len(decl.params)))
                continue

            def ph_expr(a):
                return ph[int(a.strip('\x00'))] if re.fullmatch(r'\x00\d+\x00', a) else None
            if args[0] != written[1]:
                r.violate(key + ':data', rel, s.lineno, '%s is called on C variable %r but the branch data is written as %r' % (name, args[0], written[1]))
            e1 = ph_expr(args[1])
            if e1 is None or _len_of(e1, fn) != written[0]:
                r.violate(key + ':length', rel, s.lineno, 'the compressed length passed to %s is %s, not len(%s) of the data written in this branch: the decompressor reads too little or past the end' % (
                    name, node_src(e1, 40) if e1 is not None else repr(args[1]), written[0]))
            e2 = ph_expr(args[2])
            if name == '__Pyx_DecompressString':
                e2r = _resolve_local(e2, fn) if e2 is not None else None
                if not (isinstance(e2r, ast.Name) and e2r.id == numvar):
                    r.violate(key + ':algo', rel, s.lineno, 'the algorithm number passed to __Pyx_DecompressString is %s, not the number (%s) of the algorithm that compressed this branch: the wrong codec module is imported' % (
                        node_src(e2, 40) if e2 is not None else repr(args[2]), numvar))
            else:
                if e2 is None or _len_of(e2, fn) != source:
                    r.violate(key + ':size', rel, s.lineno, 'the uncompressed length passed to __Pyx_DecompressString_LZSS is %s, not len(%s) of the data that was compressed' % (
                        node_src(e2, 40) if e2 is not None else repr(args[2]), source))
        for mo in re.finditer(r'#\s*define\s+(\w+)', text):
            if mo.group(1) in disabled_by:
                defines_in.setdefault(br, set()).add(mo.group(1))
    if not calls_in:
        raise AnalysisError('no emitted __Pyx_DecompressString* call found in the branch loop')
    for br, macros in sorted(defines_in.items(), key=str):
        for mac in sorted(macros):
            key = 'define:%s:%s' % (br, mac)
            r.inst(key, sample='branch %r defines %s (disables %s)' % (br, mac, sorted(disabled_by[mac])))
            hit = disabled_by[mac] & (calls_in.get(br, set()) | calls_in.get(None, set()))
            if hit:
                r.violate(key, rel, loop.lineno, 'branch %r calls %s and also emits "#define %s", which turns that function into `return NULL`: module initialisation fails when this branch is selected' % (br, sorted(hit)[0], mac))
    for br, called in sorted(calls_in.items(), key=str):
        if br in by_name or br == 'other':
            lz = (br == 'lzss')
            want = '__Pyx_DecompressString_LZSS' if lz else '__Pyx_DecompressString'
            key = 'branch-call:%s' % br
            r.inst(key, sample='branch %r decompresses with %s' % (br, sorted(called)))
            if called != {want}:
                r.violate(key, rel, loop.lineno, 'branch %r (data compressed by %s) is decompressed by %s; expected %s' % (br, 'LZSS.lzss_compress' if lz else 'the stdlib codecs', sorted(called), want))
    # default value of the macro
    for n in ast.walk(fn):
        if isinstance(n, ast.Assign) and len(n.targets) == 1 and isinstance(n.targets[0], ast.Name) and isinstance(n.value, ast.Constant) and isinstance(n.value.value, int) \
                and not isinstance(n.value.value, bool):
            tgt = n.targets[0].id
            used = any(isinstance(s, ast.JoinedStr) and 'define CYTHON_COMPRESS_STRINGS' in _flatten(_template(s) or [])[0] and
                       any(isinstance(x, ast.Name) and x.id == tgt for x in ast.walk(s)) for s in ast.walk(fn))
            if not used:
                continue
            k = n.value.value
            key = 'default:%d' % k
            r.inst(key, sample='default CYTHON_COMPRESS_STRINGS value %d' % k)
            if k != 0 and k not in algos:
                r.violate(key, rel, n.lineno, 'the default value %d of CYTHON_COMPRESS_STRINGS is not an algorithm number of Code.compression_algorithms: no #if branch matches and the table is read uncompressed or not at all' % k)


def rule_algorithms(ctx):
    from . import tabs
    r = tabs.rule_compression_algorithms(ctx)
    r.id = 'C10-ALG'
    r.desc = ('string-table compression: algorithm numbers of Code.compression_algorithms agree with the selection chain in __Pyx_DecompressString and with the '
              '#if (CYTHON_COMPRESS_STRINGS) guards, decompressor calls and *_UNUSED switches emitted by generate_pystring_constants')
    for f in r.findings:
        f.rule = r.id
    r.floor = 22
    tree = ctx.parse(CODE)
    tab = tables.module_assign(tree, 'compression_algorithms')
    algos = {}
    for e in tab.elts:
        if isinstance(e, ast.Tuple) and len(e.elts) >= 2:
            n, name = tables.literal(e.elts[0]), tables.literal(e.elts[1])
            if isinstance(n, int) and isinstance(name, str):
                algos[n] = name
                r.inst('positive:%d' % n, sample='algorithm %s has number %d > 0' % (name, n))
                if n <= 0:
                    r.violate('Code.compression_algorithms:%s:nonpositive' % name, CODE, e.lineno, 'algorithm %r has number %d; 0 and below mean "no compression" in the emitted guards' % (name, n))
    fn = next((n for n in ast.walk(tree) if isinstance(n, ast.FunctionDef) and n.name == 'generate_pystring_constants'), None)
    if fn is None:
        raise AnalysisError('generate_pystring_constants vanished')
    check_guards(fn, algos, ctx.cat.decls, r)
    # positive control: a generator with a hard-wired, wrong guard number and a swapped UNUSED switch
    pc_src = '''
def generate_pystring_constants(self):
    for algo_number, algo_name, compress in compression_algorithms:
        compressed_bytes = compress(concat_bytes)
    for algo_number, algo_name, compressed_bytes in reversed(compressions):
        if algo_name == 'lzss':
            guard = f"(CYTHON_COMPRESS_STRINGS) > 0 && (CYTHON_COMPRESS_STRINGS) <= {algo_number}"
        else:
            guard = "(CYTHON_COMPRESS_STRINGS) == 7"
        _write_escaped_cstring_const(w, compressed_bytes, 'cstring')
        if algo_name == 'lzss':
            w.putln(f'PyObject *data = __Pyx_DecompressString_LZSS(cstring, {len(compressed_bytes)}, {len(concat_bytes)});')
            w.putln("#define __Pyx_DecompressString_LZSS_UNUSED")
        else:
            w.putln(f'PyObject *data = __Pyx_DecompressString(cstring, {len(concat_bytes)}, {algo_number});')
'''
    pr = Rule('pc', 'pc')
    check_guards(ast.parse(pc_src).body[0], algos, ctx.cat.decls, pr)
    got = {f.construct for f in pr.findings}
    r.positive_control({'guard:other:==', 'define:lzss:__Pyx_DecompressString_LZSS_UNUSED', 'call:__Pyx_DecompressString:length'} <= got,
                       'hard-wired guard number, swapped UNUSED switch, wrong length (%s)' % sorted(got))
    return r
