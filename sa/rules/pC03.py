"""mini-C: a small typed interpreter for *extracted* C helper functions / macros of Cython/Utility (used by C03, C04, C05, C07).

It belongs to the checker: nothing is compiled or run outside this module.  It evaluates the C text of a helper with C's integer
semantics (integer promotions, usual arithmetic conversions, wrap-around of unsigned arithmetic, conversion on cast/assignment) on a
*model machine* whose integer widths are parameters:

    Model({'int': (4, True), 'long': (8, True), ...})        widths in bits; sizeof(T) = bits / 8 as an exact fraction

so that a width-parametric helper (one that mentions widths only through sizeof(), its own MIN/MAX macros and the literal 8 = bits per
byte) can be evaluated over the COMPLETE domain of a small width (all 2**4 x 2**4 operand pairs) - a bounded model check of the extracted
helper, not a run on sampled inputs of the production type.  The callers check the parametricity premise syntactically (literals()).
Every undefined operation of C (signed overflow, division by zero, MIN / -1, MIN % -1, shift count out of range, left shift of a negative
value or into the sign bit) raises CUndefined, which the callers report as a finding of its own.
Anything outside the modelled subset raises Unsupported (callers turn it into ANALYSIS-ERROR or r.info, never into a verdict)."""
import re
from fractions import Fraction

from ..engine import cexpr
from ..engine.cutil import split_args, match_paren, strip_c_comments
from . import pC17


class Unsupported(Exception):
    pass


class CUndefined(Exception):
    """the evaluated C text executes an operation whose behaviour the C standard leaves undefined"""


class Goto(Exception):
    def __init__(self, label):
        Exception.__init__(self, label)
        self.label = label


QUALIFIERS = ('const', 'static', 'volatile', 'register', 'CYTHON_INLINE', 'CYTHON_UNUSED', 'inline')
BASE_WORDS = ('unsigned', 'signed', 'int', 'long', 'short', 'char')


class Model:
    """integer widths of the model machine; types: {name: (bits, signed)} must contain char, short, int, long, 'long long'"""

    def __init__(self, types, name=''):
        self.types = dict(types)
        self.name = name
        for k in ('int', 'long', 'long long'):
            if k not in self.types:
                raise ValueError('model lacks ' + k)

    def ctype(self, text):
        words = [w for w in text.replace('*', ' * ').split() if w not in QUALIFIERS]
        if '*' in words:
            raise Unsupported('pointer type %r' % text)
        words = ['long long' if w == 'PY_LONG_LONG' else w for w in words]
        t = ' '.join(words)
        t = re.sub(r'\blong long int\b', 'long long', t)
        t = re.sub(r'\b(long|short) int\b', r'\1', t)
        if t in self.types:
            return self.types[t]
        uns = None
        if t.startswith('unsigned'):
            uns, t = True, t[len('unsigned'):].strip() or 'int'
        elif t.startswith('signed'):
            uns, t = False, t[len('signed'):].strip() or 'int'
        if t in self.types:
            bits, signed = self.types[t]
            return (bits, signed if uns is None else not uns)
        raise Unsupported('type %r is not part of the model machine' % text)

    def is_type_word(self, w):
        return w in BASE_WORDS or w in QUALIFIERS or w == 'PY_LONG_LONG' or w in self.types

    @property
    def int_t(self):
        return self.types['int']


def lo_hi(bits, signed):
    return (-(1 << (bits - 1)), (1 << (bits - 1)) - 1) if signed else (0, (1 << bits) - 1)


def wrap(v, bits, signed):
    v &= (1 << bits) - 1
    if signed and v >= 1 << (bits - 1):
        v -= 1 << bits
    return v


def fits(v, bits, signed):
    lo, hi = lo_hi(bits, signed)
    return lo <= v <= hi


class Cell:
    __slots__ = ('v', 't')

    def __init__(self, v, t):
        self.v, self.t = v, t


class Ref:
    __slots__ = ('cell',)

    def __init__(self, cell):
        self.cell = cell


class Opaque:
    """a value the interpreter only passes around (a model PyObject, a digit array ...); hooks give it meaning"""
    __slots__ = ('kind', 'v')

    def __init__(self, kind, v):
        self.kind, self.v = kind, v

    def __repr__(self):
        return '<%s %r>' % (self.kind, self.v)


NULL = Opaque('null', None)
STRING = re.compile(r'"(?:\\.|[^"\\])*"')


class Func:
    def __init__(self, name, ret, params, body_text):
        self.name, self.ret, self.params, self.body_text = name, ret, params, body_text
        self.body = None


FUNC_HEAD = re.compile(r'^(?:static\s+)?(?:CYTHON_INLINE\s+)?(?P<ret>[A-Za-z_][\w ]*?[\w\*])\s+(?P<name>[A-Za-z_]\w*)\s*\((?P<params>[^;{}()]*)\)\s*\{', re.M)


def functions(text):
    """{name: Func} for the function definitions of comment-free, template-free C text"""
    out = {}
    for m in FUNC_HEAD.finditer(text):
        b0 = m.end() - 1
        depth, j = 0, b0
        while j < len(text):
            if text[j] == '{':
                depth += 1
            elif text[j] == '}':
                depth -= 1
                if depth == 0:
                    break
            j += 1
        if depth != 0:
            raise Unsupported('unbalanced braces in %s' % m.group('name'))
        params = []
        ptxt = ' '.join(m.group('params').split())
        if ptxt and ptxt != 'void':
            for p in split_args(ptxt):
                p = ' '.join(p.split())
                mm = re.match(r'^(.*?)(\*?)\s*([A-Za-z_]\w*)$', p)
                if not mm:
                    raise Unsupported('parameter %r of %s' % (p, m.group('name')))
                params.append((mm.group(1).strip(), mm.group(3), bool(mm.group(2)) or mm.group(1).strip().endswith('*')))
        out[m.group('name')] = Func(m.group('name'), ' '.join(m.group('ret').split()), params, text[b0:j + 1])
    return out


DEFINE = re.compile(r'^[ \t]*#[ \t]*define[ \t]+(?P<name>[A-Za-z_]\w*)(?P<params>\([^)]*\))?(?P<body>(?:[^\n\\]|\\\n|\\.)*)$', re.M)


def macros(text):
    """{name: (params or None, body text)} for the #define lines of C text (continuation lines joined)"""
    out = {}
    for m in DEFINE.finditer(text):
        params = None
        if m.group('params') is not None:
            inner = m.group('params')[1:-1].strip()
            params = [p.strip() for p in inner.split(',')] if inner else []
        out[m.group('name')] = (params, ' '.join(m.group('body').replace('\\\n', ' ').split()))
    return out


def literals(text):
    """the set of integer literals of C text (for the width-parametricity premise)"""
    return {int(x, 0) for x in re.findall(r'(?<![\w.])(0[xX][0-9a-fA-F]+|\d+)[uUlL]*\b', text)}


ASSIGN = re.compile(r'^(?P<lhs>\*?\s*[A-Za-z_]\w*)\s*(?P<op>=|\+=|-=|\*=|/=|%=|\|=|&=|\^=|<<=|>>=)(?!=)\s*(?P<rhs>.*)$', re.S)
NOOP_CALLS = ('CYTHON_UNUSED_VAR', 'CYTHON_MAYBE_UNUSED_VAR', 'assert')
NOOP_STMTS = ('CYTHON_FALLTHROUGH',)


class Interp:
    """interpreter for one model machine.  funcs: {name: Func}; macro_defs: {name: (params|None, body)};
    hooks: {callee: f(interp, arg asts, env) -> value} for compiler builtins / opaque calls."""
    MAX_STEPS = 4000

    def __init__(self, model, funcs=None, macro_defs=None, hooks=None, cache=None):
        self.model, self.funcs, self.macro_defs, self.hooks = model, funcs or {}, macro_defs or {}, hooks or {}
        # cache: shared between interpreters that use the same macro definitions (parsed expressions / statements do not depend on the model,
        # except declarations, whose type words are resolved against model.types: the callers keep the type names of their models equal)
        cache = cache if cache is not None else {}
        self._parsed = cache.setdefault('parsed', {})
        self._expanded = cache.setdefault('expanded', {})
        self._stmts = cache.setdefault('stmts', {})
        self.steps = 0
        self.trace = []          # names of the functions entered (for messages)
        self.opaque_types = {'PyObject', 'PyLongObject', 'void'}      # types only ever used behind a pointer
        self.signed_wraps = False     # True: signed overflow wraps (two's complement) instead of being reported as undefined behaviour
        self.globals = {}        # name -> typed value / Opaque: constants of the translation unit (PyLong_SHIFT, Py_False ...)

    # ---------------------------------------------------------------------------------------------- macro expansion (textual, as cpp does)
    def expand(self, text):
        if text in self._expanded:
            return self._expanded[text]
        src = text
        for _round in range(40):
            changed = False
            for name, (params, body) in self.macro_defs.items():
                if name not in text:
                    continue
                if params is None:
                    new = re.sub(r'(?<![\w])%s(?![\w])' % re.escape(name), lambda m: body, text)
                    if new != text:
                        text, changed = new, True
                    continue
                m = re.search(r'(?<![\w])%s\s*\(' % re.escape(name), text)
                if not m:
                    continue
                rp = match_paren(text, m.end() - 1)
                if rp < 0:
                    raise Unsupported('unbalanced use of macro %s' % name)
                args = [a.strip() for a in split_args(text[m.end():rp])] if text[m.end():rp].strip() else []
                if len(args) != len(params):
                    raise Unsupported('macro %s used with %d arguments' % (name, len(args)))
                rep = body
                if params:
                    rep = re.sub(r'(?<![\w])(%s)(?![\w])' % '|'.join(re.escape(p) for p in params), lambda mm: args[params.index(mm.group(1))], body)
                text = text[:m.start()] + rep + text[rp + 1:]
                changed = True
            if not changed:
                self._expanded[src] = text
                return text
        raise Unsupported('macro expansion does not terminate')

    def parse(self, text):
        t = self.expand(' '.join(STRING.sub(' 0 ', text).split()))
        if t not in self._parsed:
            try:
                self._parsed[t] = cexpr.parse(t)
            except cexpr.ParseError as e:
                raise Unsupported('cannot parse C expression %r: %s' % (t[:80], e))
        return self._parsed[t]

    # ---------------------------------------------------------------------------------------------- values
    def promote(self, x):
        v, bits, signed = x
        ib, _ = self.model.int_t
        if bits < ib:
            return (v, ib, True)
        return x

    def usual(self, a, b):
        a, b = self.promote(a), self.promote(b)
        if a[2] == b[2]:
            bits, signed = max(a[1], b[1]), a[2]
        else:
            u, s = (a, b) if not a[2] else (b, a)
            if u[1] >= s[1]:
                bits, signed = u[1], False
            else:
                bits, signed = s[1], True
        return (wrap(a[0], bits, signed), bits, signed), (wrap(b[0], bits, signed), bits, signed)

    def literal(self, v):
        for name in ('int', 'long', 'long long'):
            bits, _s = self.model.types[name]
            if v < 1 << (bits - 1):
                return (v, bits, True)
        bits, _s = self.model.types['long long']
        if v < 1 << bits:
            return (v, bits, False)
        raise Unsupported('literal %d does not fit the model machine' % v)

    def convert(self, x, t):
        if isinstance(x[0], Fraction):
            raise Unsupported('a fractional sizeof() value of the model machine is converted to an integer type')
        return (wrap(x[0], t[0], t[1]), t[0], t[1])

    def arith(self, op, a, b):
        r = {'+': a[0] + b[0], '-': a[0] - b[0], '*': a[0] * b[0]}[op]
        if a[2] and not self.signed_wraps and not fits(r, a[1], True):
            raise CUndefined('signed overflow: %d %s %d does not fit a %d-bit signed type' % (a[0], op, b[0], a[1]))
        return (wrap(r, a[1], a[2]), a[1], a[2])

    # ---------------------------------------------------------------------------------------------- expressions
    def lookup(self, name, env):
        for scope in reversed(env):
            if name in scope:
                return scope[name]
        return self.globals.get(name)

    def ev(self, e, env):
        self.steps += 1
        k = e[0]
        if k in ('num', 'char'):
            return self.literal(e[1])
        if k == 'id':
            c = self.lookup(e[1], env)
            if c is None:
                if e[1] == 'NULL':
                    return NULL
                raise Unsupported('free identifier %s' % e[1])
            if isinstance(c, Cell):
                if c.t is None:
                    return c.v if c.v is not None else NULL
                if c.v is None:
                    raise CUndefined('read of the uninitialised variable %s' % e[1])
                return (c.v, c.t[0], c.t[1])
            return c
        if k == 'sizeof':
            t = self.sizeof_type(e[1], env)
            bits, _ = self.model.types.get('size_t', self.model.types['long'])
            fr = Fraction(t[0], 8)
            return (int(fr) if fr.denominator == 1 else fr, bits, False)
        if k == 'cast':
            if '*' in e[1]:
                v = self.ev(e[2], env)
                if isinstance(v, (Ref, Opaque)):
                    return v            # a pointer cast does not change what is pointed to
                raise Unsupported('integer cast to the pointer type %s' % e[1])
            return self.convert(self._int(self.ev(e[2], env)), self.model.ctype(e[1]))
        if k == 'call':
            return self.call(e[1], e[2], env)
        if k == 'un':
            if e[1] == '&':
                if e[2][0] != 'id':
                    raise Unsupported('address of a non-variable')
                c = self.lookup(e[2][1], env)
                if not isinstance(c, Cell):
                    raise Unsupported('address of %s' % e[2][1])
                return Ref(c)
            if e[1] == '*':
                r = self.ev(e[2], env)
                if not isinstance(r, Ref):
                    raise Unsupported('dereference of a non-pointer')
                if r.cell.v is None:
                    raise CUndefined('read through a pointer to an uninitialised variable')
                return (r.cell.v, r.cell.t[0], r.cell.t[1])
            v0 = self.ev(e[2], env)
            if isinstance(v0, Opaque):
                if e[1] == '!':
                    return (int(v0.kind == 'null'), self.model.int_t[0], True)
                raise Unsupported('unary %s on a pointer' % e[1])
            v = self.promote(self._int(v0))
            if e[1] == '!':
                return (int(not v[0]), self.model.int_t[0], True)
            if e[1] == '+':
                return v
            if e[1] == '-':
                if v[2] and not fits(-v[0], v[1], True):
                    raise CUndefined('signed overflow: -(%d) in a %d-bit signed type' % (v[0], v[1]))
                return (wrap(-v[0], v[1], v[2]), v[1], v[2])
            if e[1] == '~':
                return (wrap(~v[0], v[1], v[2]), v[1], v[2])
            raise Unsupported('unary ' + e[1])
        if k == 'tern':
            c = self.ev(e[1], env)
            if self._int(c)[0]:
                return self.ev(e[2], env)
            return self.ev(e[3], env)
        if k == 'bin':
            op = e[1]
            ib = self.model.int_t[0]
            if op == '&&':
                return (int(bool(self._int(self.ev(e[2], env))[0]) and bool(self._int(self.ev(e[3], env))[0])), ib, True)
            if op == '||':
                return (int(bool(self._int(self.ev(e[2], env))[0]) or bool(self._int(self.ev(e[3], env))[0])), ib, True)
            if op == '[]':
                base, idx = self.ev(e[2], env), self._int(self.ev(e[3], env))
                if isinstance(base, Opaque) and base.kind == 'array':
                    vals, t = base.v
                    if not 0 <= idx[0] < len(vals):
                        raise CUndefined('read of element %d of an array of %d elements' % (idx[0], len(vals)))
                    return (vals[idx[0]], t[0], t[1])
                raise Unsupported('indexing of a non-array')
            if op in ('==', '!='):
                x, y = self.ev(e[2], env), self.ev(e[3], env)
                if isinstance(x, Opaque) or isinstance(y, Opaque):
                    same = (isinstance(x, Opaque) and isinstance(y, Opaque) and x.kind == 'null' and y.kind == 'null') or (x is y)
                    if not (isinstance(x, Opaque) and isinstance(y, Opaque)):
                        # pointer compared with the integer constant 0
                        o, n = (x, y) if isinstance(x, Opaque) else (y, x)
                        if self._int(n)[0] != 0:
                            raise Unsupported('pointer compared with a non-zero integer')
                        same = o.kind == 'null'
                    return (int(same == (op == '==')), ib, True)
                a, b = self._int(x), self._int(y)
            else:
                a, b = self._int(self.ev(e[2], env)), self._int(self.ev(e[3], env))
            if op in ('<<', '>>'):
                a, b = self.promote(a), self.promote(b)
                if b[0] < 0 or b[0] >= a[1]:
                    raise CUndefined('shift of a %d-bit value by %d' % (a[1], b[0]))
                if op == '>>':
                    return (a[0] >> b[0], a[1], a[2])
                r = a[0] << b[0]
                if a[2] and (a[0] < 0 or not fits(r, a[1], True)):
                    raise CUndefined('left shift %d << %d of a %d-bit signed value is not representable' % (a[0], b[0], a[1]))
                return (wrap(r, a[1], a[2]), a[1], a[2])
            if isinstance(a[0], Fraction) or isinstance(b[0], Fraction):
                return self.frac_arith(op, a, b)
            a, b = self.usual(a, b)
            if op in ('<', '>', '<=', '>=', '==', '!='):
                r = {'<': a[0] < b[0], '>': a[0] > b[0], '<=': a[0] <= b[0], '>=': a[0] >= b[0], '==': a[0] == b[0], '!=': a[0] != b[0]}[op]
                return (int(r), ib, True)
            if op in ('+', '-', '*'):
                return self.arith(op, a, b)
            if op in ('&', '|', '^'):
                r = {'&': a[0] & b[0], '|': a[0] | b[0], '^': a[0] ^ b[0]}[op]
                return (wrap(r, a[1], a[2]), a[1], a[2])
            if op in ('/', '%'):
                if b[0] == 0:
                    raise CUndefined('division by zero (%d %s 0)' % (a[0], op))
                if a[2] and a[0] == lo_hi(a[1], True)[0] and b[0] == -1:
                    raise CUndefined('%d %s -1 overflows a %d-bit signed type (traps on x86)' % (a[0], op, a[1]))
                q = abs(a[0]) // abs(b[0]) * (1 if (a[0] < 0) == (b[0] < 0) else -1)
                r = q if op == '/' else a[0] - q * b[0]
                return (wrap(r, a[1], a[2]), a[1], a[2])
            raise Unsupported('operator ' + op)
        raise Unsupported('expression node ' + k)

    def frac_arith(self, op, a, b):
        """sizeof() arithmetic: byte counts are exact fractions of the model machine (a 4-bit type has sizeof 1/2)"""
        x, y = a[0], b[0]
        if op in ('<', '>', '<=', '>=', '==', '!='):
            r = {'<': x < y, '>': x > y, '<=': x <= y, '>=': x >= y, '==': x == y, '!=': x != y}[op]
            return (int(r), self.model.int_t[0], True)
        if op in ('+', '-', '*'):
            r = {'+': x + y, '-': x - y, '*': x * y}[op]
            r = Fraction(r)
            bits = max(a[1], b[1])
            if r.denominator == 1:
                return (wrap(int(r), bits, False), bits, False)
            return (r, bits, False)
        raise Unsupported('operator %s on a sizeof() value of the model machine' % op)

    def _int(self, v):
        if isinstance(v, Ref):
            raise Unsupported('pointer used as an integer')
        if isinstance(v, Opaque):
            return (int(v.kind != 'null'), self.model.int_t[0], True)          # only the truth value of a pointer is ever used
        if v is None:
            raise Unsupported('a void value is used')
        return v

    def sizeof_type(self, text, env):
        text = self.expand(text)
        try:
            return self.model.ctype(text)
        except Unsupported:
            pass
        c = self.lookup(text.strip(), env)
        if isinstance(c, Cell):
            return c.t
        if isinstance(c, tuple):
            return (c[1], c[2])
        raise Unsupported('sizeof(%s)' % text)

    # ---------------------------------------------------------------------------------------------- calls
    def call(self, name, args, env):
        if name in ('likely', 'unlikely') and len(args) == 1:
            return self.ev(args[0], env)
        if name in self.hooks:
            return self.hooks[name](self, args, env)
        if name in self.funcs:
            return self.call_func(self.funcs[name], [self.ev(a, env) for a in args])
        raise Unsupported('call of %s' % name)

    def call_func(self, f, argvals):
        if len(argvals) != len(f.params):
            raise Unsupported('%s called with %d arguments' % (f.name, len(argvals)))
        scope = {}
        for (ptype, pname, is_ptr), v in zip(f.params, argvals):
            if is_ptr:
                if isinstance(v, Ref):
                    scope[pname] = v
                elif isinstance(v, Opaque):
                    scope[pname] = Cell(v, None)
                else:
                    raise Unsupported('%s: pointer parameter %s gets a non-pointer' % (f.name, pname))
            else:
                t = self.model.ctype(ptype)
                scope[pname] = Cell(wrap(self._int(v)[0], t[0], t[1]), t)
        if f.body is None:
            # function-like macros that expand to whole statements (`{ ... return x; }`, used without a semicolon) are expanded textually first
            f.body = pC17.parse_body(self.expand(STRING.sub(' 0 ', f.body_text)))
        self.trace.append(f.name)
        scope['__func__'] = f.name
        env = [scope]
        # the interpreter is deterministic on the model machine: a function re-entered with the same argument values while it is still active never returns
        frame = (f.name, tuple(repr(v.v if isinstance(v, Cell) else v) for v in (scope[p[1]] for p in f.params)))
        active = self.__dict__.setdefault('_active', [])
        if frame in active:
            raise CUndefined('%s calls itself again with the same arguments: unbounded recursion' % f.name)
        if len(active) > 200:
            raise Unsupported('call depth above 200 through %s' % f.name)
        active.append(frame)
        try:
            try:
                r = self.block(f.body, env)
            except Goto as g:
                r = self.resume_at(f, g.label, env)
        finally:
            active.pop()
        if r is not None and r[0] == 'return':
            if r[1] is None or f.ret == 'void':
                return None
            if '*' in f.ret or isinstance(r[1], (Opaque, Ref)):
                return r[1]
            return self.convert(self._int(r[1]), self.model.ctype(f.ret))
        if f.ret != 'void':
            raise CUndefined('%s falls off its end without returning a value' % f.name)
        return None

    def resume_at(self, f, label, env, depth=0):
        """continue after `goto label`: labels are looked up among the top-level statements of the function body (the only place the helpers put them)"""
        if depth > 8:
            raise Unsupported('goto loop in %s' % f.name)
        for i, st in enumerate(f.body):
            if st.kind == 'label' and st.text == label:
                try:
                    return self.block(f.body[i + 1:], env)
                except Goto as g:
                    return self.resume_at(f, g.label, env, depth + 1)
        raise Unsupported('goto %s: no such label at the top level of %s' % (label, f.name))

    # ---------------------------------------------------------------------------------------------- statements
    def block(self, stmts, env):
        for st in stmts:
            r = self.stmt(st, env)
            if r is not None:
                return r
        return None

    def stmt(self, st, env):
        self.steps += 1
        if self.steps > self.MAX_STEPS * 50:
            raise Unsupported('evaluation does not terminate')
        k = st.kind
        if k == 'block':
            return self.block(st.body, env + [{}])
        if k == 'pp':
            raise Unsupported('preprocessor line inside a function body: %s (select the variant first)' % st.text[:40])
        if k == 'if':
            c = self._int(self.ev(self.parse(st.text), env))
            if c[0]:
                return self.stmt(st.body, env + [{}]) if st.body.kind != 'block' else self.stmt(st.body, env)
            if st.orelse is not None:
                return self.stmt(st.orelse, env + [{}]) if st.orelse.kind != 'block' else self.stmt(st.orelse, env)
            return None
        if k == 'while':
            n = 0
            while self._int(self.ev(self.parse(st.text), env))[0]:
                n += 1
                if n > 200:
                    raise Unsupported('loop does not terminate within 200 rounds')
                r = self.stmt(st.body, env)
                if r is not None:
                    if r[0] == 'break':
                        break
                    if r[0] == 'continue':
                        continue
                    return r
            return None
        if k == 'label':
            return None
        if k in ('case', 'default'):
            return None
        if k == 'switch':
            v = self._int(self.ev(self.parse(st.text), env))
            body = st.body.body if st.body.kind == 'block' else [st.body]
            start = None
            for i, s2 in enumerate(body):
                if s2.kind == 'case':
                    c = self._int(self.ev(self.parse(s2.text), env))
                    if self.usual(v, c)[0][0] == self.usual(v, c)[1][0]:
                        start = i
                        break
            if start is None:
                for i, s2 in enumerate(body):
                    if s2.kind == 'default':
                        start = i
                        break
            if start is None:
                return None
            scope = env + [{}]
            for s2 in body[start:]:
                r = self.stmt(s2, scope)
                if r is not None:
                    return None if r[0] == 'break' else r
            return None
        if k == 'simple':
            return self.simple(st.text, env)
        raise Unsupported('statement kind %s' % k)

    def declaration(self, text):
        """(type text, declarator text, is pointer) if the statement is a declaration"""
        words = re.findall(r'[A-Za-z_]\w*|\S', text)
        i = 0
        while i < len(words) and re.match(r'[A-Za-z_]', words[i]) and (self.model.is_type_word(words[i]) or words[i] in self.opaque_types):
            i += 1
        if i == 0 or all(w in QUALIFIERS for w in words[:i]):
            return None
        j = i
        while j < len(words) and words[j] == '*':
            j += 1
        if j >= len(words) or not re.match(r'[A-Za-z_]', words[j]):
            return None
        if j + 1 < len(words) and words[j + 1] not in ('=', ',', ';'):
            return None
        pos = 0
        for w in words[:j]:
            pos = text.index(w, pos) + len(w)
        return ' '.join(words[:i]), text[pos:].strip(), j > i or any(w in self.opaque_types for w in words[:i])

    def compile_simple(self, text):
        """statement text -> tuple program (cached)"""
        text = self.expand(text.strip())
        if not text or text in NOOP_STMTS:
            return ('nop',)
        if text.startswith('{') and text.endswith('}'):
            return ('block', pC17.parse_body(text))          # a block produced by macro expansion
        m = re.match(r'^return\b\s*(.*)$', text, re.S)
        if m:
            return ('return', self.parse(m.group(1)) if m.group(1).strip() else None)
        m = re.match(r'^goto\s+(\w+)$', text)
        if m:
            return ('goto', m.group(1))
        if text in ('break', 'continue'):
            return (text,)
        d = self.declaration(text)
        if d is not None:
            decls = []
            for decl in split_args(d[1]):
                decl = decl.strip()
                mm = re.match(r'^\**\s*([A-Za-z_]\w*)\s*(?:=(?!=)\s*(.*))?$', decl, re.S)
                if not mm:
                    raise Unsupported('declarator %r' % decl)
                decls.append((mm.group(1), self.parse(mm.group(2)) if mm.group(2) is not None else None))
            return ('decl', d[0], decls, d[2])
        m = ASSIGN.match(text)
        if m:
            lhs = m.group('lhs').replace(' ', '')
            return ('assign', lhs.startswith('*'), lhs.lstrip('*'), m.group('op'), self.parse(m.group('rhs')))
        e = self.parse(text)
        if e[0] == 'call' and e[1] in NOOP_CALLS:
            return ('nop',)
        return ('expr', e)

    def simple(self, text, env):
        prog = self._stmts.get(text)
        if prog is None:
            prog = self._stmts[text] = self.compile_simple(text)
        k = prog[0]
        if k == 'nop':
            return None
        if k == 'block':
            return self.block(prog[1], env + [{}])
        if k == 'return':
            return ('return', None if prog[1] is None else self.ev(prog[1], env))
        if k == 'goto':
            raise Goto(prog[1])
        if k in ('break', 'continue'):
            return (k,)
        if k == 'decl':
            if prog[3]:
                for name, init in prog[2]:
                    cell = Cell(None, None)
                    if init is not None:
                        v = self.ev(init, env)
                        if isinstance(v, tuple):
                            if v[0] != 0:
                                raise Unsupported('pointer %s initialised from a non-zero integer' % name)
                            v = NULL
                        cell.v = v
                    env[-1][name] = cell
                return None
            t = self.model.ctype(prog[1])
            for name, init in prog[2]:
                cell = Cell(None, t)
                if init is not None:
                    v = self._int(self.ev(init, env))
                    cell.v = wrap(v[0], t[0], t[1])
                env[-1][name] = cell
            return None
        if k == 'assign':
            _k, deref, name, op, rhs_e = prog
            c = self.lookup(name, env)
            if deref:
                if not isinstance(c, Ref):
                    raise Unsupported('assignment through *%s' % name)
                cell = c.cell
            else:
                if not isinstance(c, Cell):
                    raise Unsupported('assignment to %s' % name)
                cell = c
            if cell.t is None:
                if op != '=':
                    raise Unsupported('compound assignment to the pointer %s' % name)
                v = self.ev(rhs_e, env)
                if isinstance(v, tuple):
                    if v[0] != 0:
                        raise Unsupported('pointer %s assigned a non-zero integer' % name)
                    v = NULL
                cell.v = v
                return None
            rhs = self._int(self.ev(rhs_e, env))
            if op != '=':
                if cell.v is None:
                    raise CUndefined('compound assignment to the uninitialised variable %s' % name)
                cur = (cell.v, cell.t[0], cell.t[1])
                rhs = self.ev(('bin', op[:-1], ('id', '__lhs'), ('id', '__rhs')), env + [{'__lhs': cur, '__rhs': rhs}])
            cell.v = wrap(rhs[0], cell.t[0], cell.t[1])
            return None
        self.ev(prog[1], env)
        return None


def select_variant(text, truth):
    """resolve #if / #ifdef / #elif / #else / #endif lines of C text; truth(condition text) -> bool.  Other directive lines are dropped."""
    out, stack = [], []
    for line in text.split('\n'):
        m = re.match(r'^\s*#\s*(if|ifdef|ifndef|elif|else|endif)\b(.*)$', line)
        if m:
            kind, rest = m.group(1), ' '.join(m.group(2).split())
            rest = re.sub(r'/\*.*?\*/|//.*$', '', rest).strip()
            if kind in ('if', 'ifdef', 'ifndef'):
                parent = all(s[2] for s in stack)
                c = rest if kind == 'if' else 'defined(%s)' % rest
                # conditions inside an inactive arm are not evaluated (they may mention names the caller does not model)
                val = parent and (truth(c) if kind != 'ifndef' else not truth(c))
                stack.append([parent, val, parent and val])
            elif kind == 'elif':
                s = stack[-1]
                val = s[0] and (not s[1]) and truth(rest)
                s[2] = s[0] and val
                s[1] = s[1] or val
            elif kind == 'else':
                s = stack[-1]
                s[2] = s[0] and not s[1]
                s[1] = True
            else:
                if not stack:
                    raise Unsupported('unbalanced #endif')
                stack.pop()
            out.append('')
            continue
        if all(s[2] for s in stack):
            out.append(line)
        else:
            out.append('')
    if stack:
        raise Unsupported('unterminated #if')
    return '\n'.join(out)
