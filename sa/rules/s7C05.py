"""C05 round 7 — the error test after a PyObject -> *external typedef* conversion (seed C05j and siblings).

An external ctypedef of an integer type (`cdef extern from ...: ctypedef unsigned int T`) only promises "some integer type": the real width and
signedness come from the C header.  CTypedefType.create_from_py_utility_code therefore instantiates CIntFromPy on the typedef's OWN spelling
(TYPE = self.empty_declaration_code(), decided by C05-CTX), and the converter returns (T)-1 in the REAL type on failure.  The test emitted after
the call must recognise that value for every real type T whatever the DECLARED base type B is.

C05-TDEFERR
  (paths)  CTypedefType.error_condition is executed symbolically by the checker (statement-level path enumeration; nothing of /repo is run) for the
           abstract instance {typedef_is_external = True, base type = the C integer class, exception_value / exception_check = the class constants
           of that class, which the typedef sees through __getattr__}.  Every emitted text that can be returned is rendered over the roles
           sa_r (converted value), sa_t (the typedef's own spelling), sadecl_t (the declared base type: whatever a method of self.typedef_base_type
           renders as its own spelling).  The sentinel conjunct is evaluated with the typed C evaluator (rules/pC03.py) over every
           rank x signedness of the real type  x  every rank x signedness of the declared type  x  {LP64, ILP32}:
               sa_r == (T)-1  =>  true ;   any other value of T  =>  false.
  (wiring) CTypedefType.from_py_call_code hands the typedef's own error_condition(result_code) to the base type's emitter whenever the caller gave
           none (otherwise the base type builds its own test, cast to the declared type).
"""
import ast

from ..core import Rule, AnalysisError
from ..engine.pyindex import walk_no_nested

ERR_TYPES = [('char', 8), ('short', 16), ('int', 32), ('long', None), ('long long', 64)]


# ------------------------------------------------------------------------------------------------ typed truth table over (real type, declared type)
def tdef_problems(cond):
    """first problem of the sentinel part of `cond` over all (real type sa_t, declared type sadecl_t), or None"""
    from ..props import C05 as P5
    from ..rules import pC03 as MC
    from ..engine import cexpr
    try:
        parts = P5._sentinel_conjuncts(cond)
    except cexpr.ParseError as e:
        raise AnalysisError('C05-TDEFERR: cannot parse the emitted error condition `%s`: %s' % (cond, e))
    if not parts:
        return None
    uses_b = 'sadecl_t' in cond
    cache = {}
    for mname, lbits in (('LP64', 64), ('ILP32', 32)):
        for tname, bits in ERR_TYPES:
            bits = bits or lbits
            for signed in (False, True):
                decls = [(bn, (bb or lbits), bs) for bn, bb in ERR_TYPES for bs in (False, True)] if uses_b else [('int', 32, True)]
                for bname, bbits, bsigned in sorted(decls, key=lambda d: d[2] != signed):      # same signedness first: the more telling witness
                    types = {'char': (8, True), 'short': (16, True), 'int': (32, True), 'long': (lbits, True), 'long long': (64, True), 'size_t': (lbits, False),
                             'Py_ssize_t': (lbits, True), 'sa_t': (bits, signed), 'sadecl_t': (bbits, bsigned)}
                    it = MC.Interp(MC.Model(types, mname), {}, {}, {}, cache)
                    sent = MC.wrap(-1, bits, signed)
                    lo, hi = MC.lo_hi(bits, signed)
                    bsent = MC.wrap(-1, bbits, bsigned)
                    probes = [sent] + [v for v in {0, 1, 2, lo, hi, hi - 1, 255, 65535, (1 << 32) - 1, -2, 254, bsent} if lo <= v <= hi and v != sent]
                    tn = ('' if signed else 'unsigned ') + tname
                    bn = ('' if bsigned else 'unsigned ') + bname
                    for v in probes:
                        try:
                            val = all(bool(it.ev(c, [{'sa_r': (v, bits, signed)}])[0]) for c in parts)
                        except MC.CUndefined as u:
                            return 'evaluating the test for a %s result is undefined behaviour: %s' % (tn, u)
                        except MC.Unsupported as u:
                            raise AnalysisError('C05-TDEFERR: the emitted error condition `%s` is outside the modelled C subset: %s' % (cond, u))
                        if v == sent and not val:
                            return ('for an external typedef whose real C type is `%s` (%s) while the .pxd declares it as `%s`, the converter (instantiated on the typedef name) returns '
                                    '(%s)-1 = %d on failure, for which the emitted test is FALSE%s: the pending OverflowError/TypeError is not noticed, execution continues with the value %d'
                                    % (tn, mname, bn, tn, sent, ' (the sentinel is cast to the declared type: %d)' % bsent if uses_b else '', sent))
                        if v != sent and val:
                            return ('for an external typedef whose real C type is `%s` (%s), declared as `%s`, the correctly converted value %d satisfies the sentinel test' % (tn, mname, bn, v))
    return None


# ------------------------------------------------------------------------------------------------ abstract instance + path enumeration
class _Abs:
    """three-valued evaluation of the tests of a CTypedefType method for the abstract instance described in the module docstring"""

    def __init__(self, ix, td, base, me):
        self.ix, self.td, self.base, self.me = ix, td, base, me
        self.facts = {'typedef_is_external': True}

    def attr(self, node):
        """value of self.<a> / self.typedef_base_type.<a>: ('v', python value) or None when unknown"""
        if isinstance(node, ast.Attribute) and isinstance(node.value, ast.Name) and node.value.id == self.me:
            if node.attr in self.facts:
                return ('v', self.facts[node.attr])
            own = self.ix.find_class_attr(self.td, node.attr)
            if own is not None and node.attr not in ('typedef_is_external',):
                try:
                    return ('v', ast.literal_eval(own[1]))
                except Exception:
                    return None
            # delegated through __getattr__ to the base type
            if self.ix.find_method(self.td, '__getattr__') is None:
                return None
            a = self.ix.find_class_attr(self.base, node.attr)
        elif isinstance(node, ast.Attribute) and isinstance(node.value, ast.Attribute) and isinstance(node.value.value, ast.Name) \
                and node.value.value.id == self.me and node.value.attr == 'typedef_base_type':
            a = self.ix.find_class_attr(self.base, node.attr)
        else:
            return None
        if a is None:
            return None
        try:
            return ('v', ast.literal_eval(a[1]))
        except Exception:
            return None

    def truth(self, t):
        """True / False / None"""
        if isinstance(t, ast.UnaryOp) and isinstance(t.op, ast.Not):
            v = self.truth(t.operand)
            return None if v is None else (not v)
        if isinstance(t, ast.BoolOp):
            vals = [self.truth(v) for v in t.values]
            if isinstance(t.op, ast.And):
                return False if any(v is False for v in vals) else (None if any(v is None for v in vals) else True)
            return True if any(v is True for v in vals) else (None if any(v is None for v in vals) else False)
        if isinstance(t, ast.Compare) and len(t.ops) == 1 and isinstance(t.comparators[0], ast.Constant):
            a = self.attr(t.left)
            if a is None:
                return None
            c = t.comparators[0].value
            op = t.ops[0]
            if isinstance(op, ast.Is):
                return (a[1] is None) if c is None else None
            if isinstance(op, ast.IsNot):
                return (a[1] is not None) if c is None else None
            if isinstance(op, ast.Eq):
                return a[1] == c
            if isinstance(op, ast.NotEq):
                return a[1] != c
            return None
        if isinstance(t, ast.Constant):
            return bool(t.value)
        a = self.attr(t)
        return None if a is None else bool(a[1])


def _base_conditions(ix, base, method, argsrc):
    """the comparison texts the base type's `method` can emit, its own type spelling rendered as sadecl_t"""
    from ..props import C05 as P5
    from ..rules.iface import str_template
    hit = ix.find_method(base, method)
    if hit is None:
        return [None]
    owner, fn = hit
    params = [a.arg for a in fn.args.args][1:]
    sub = dict(zip(params, argsrc))
    out = []
    for n in walk_no_nested(fn):
        if isinstance(n, (ast.BinOp, ast.JoinedStr)) and str_template(n) is not None and '==' in str_template(n)[0]:
            for alt in P5._render_err(ix, base, fn, n, sub):
                out.append(None if alt is None else alt.replace('sa_t', 'sadecl_t'))
    return out or [None]


def _is_base_call(node, me):
    return (isinstance(node, ast.Call) and isinstance(node.func, ast.Attribute) and isinstance(node.func.value, ast.Attribute)
            and isinstance(node.func.value.value, ast.Name) and node.func.value.value.id == me and node.func.value.attr == 'typedef_base_type')


def typedef_error_paths(ix, td, base, fn):
    """[(rendered text or None, description of the path)] for every feasible path of fn to a return, under the abstract instance"""
    from ..props import C05 as P5
    me = fn.args.args[0].arg
    res = fn.args.args[1].arg if len(fn.args.args) > 1 else None
    ab = _Abs(ix, td, base, me)
    out = []

    def render(expr, env):
        if _is_base_call(expr, me):
            args = []
            for a in expr.args:
                r = render(a, env)
                if len(r) != 1 or r[0] is None:
                    return [None]
                args.append(r[0])
            whole = [None if a is None else a.replace('sa_t', 'sadecl_t') for a in P5._method_templates(ix, base, expr.func.attr, args)]
            if whole and all(a is not None for a in whole):       # fully rendered (e.g. cast_code); otherwise fall back to the comparison templates of the method
                return whole
            return _base_conditions(ix, base, expr.func.attr, args)
        if isinstance(expr, ast.Name) and expr.id in env:
            return [env[expr.id]]
        if isinstance(expr, (ast.BinOp, ast.JoinedStr)) and not (isinstance(expr, ast.BinOp) and isinstance(expr.op, ast.Add)):
            from ..rules.iface import str_template, PLACEHOLDER
            t = str_template(expr)
            if t is not None:
                text, phs = t
                parts = text.split(PLACEHOLDER)
                alts = ['']
                for i, part in enumerate(parts):
                    alts = [None if a is None else a + part for a in alts]
                    if i < len(phs):
                        rr = render(phs[i], env) if phs[i] is not None else [None]
                        alts = [None if (a is None or y is None) else a + y for a in alts for y in rr]
                return alts
        if isinstance(expr, ast.BinOp) and isinstance(expr.op, ast.Add):
            return [None if (a is None or b is None) else a + b for a in render(expr.left, env) for b in render(expr.right, env)]
        sub = {k: v for k, v in env.items() if v is not None}
        return P5._render_err(ix, td, fn, expr, sub)

    def run(stmts, env, trail, cont):
        """execute stmts; cont(env, trail) continues after them"""
        if not stmts:
            return cont(env, trail)
        st, rest = stmts[0], stmts[1:]
        if isinstance(st, ast.Return):
            if st.value is None:
                out.append((None, trail))
                return
            for alt in render(st.value, env):
                out.append((alt, trail))
            return
        if isinstance(st, ast.If):
            v = ab.truth(st.test)
            for branch, body in ((True, st.body), (False, st.orelse)):
                if v is None or v is branch:
                    run(list(body), dict(env), trail + [('%s%s' % ('' if branch else 'not ', ast.unparse(st.test)))], lambda e, t: run(rest, e, t, cont))
            return
        if isinstance(st, ast.Assign) and len(st.targets) == 1 and isinstance(st.targets[0], ast.Name):
            for alt in render(st.value, env):
                e2 = dict(env)
                e2[st.targets[0].id] = alt
                run(rest, e2, trail, cont)
            return
        if isinstance(st, ast.AugAssign) and isinstance(st.op, ast.Add) and isinstance(st.target, ast.Name):
            cur = env.get(st.target.id)
            for alt in render(st.value, env):
                e2 = dict(env)
                e2[st.target.id] = None if (cur is None or alt is None) else cur + alt
                run(rest, e2, trail, cont)
            return
        if isinstance(st, (ast.Expr, ast.Pass)) and not (isinstance(st, ast.Expr) and isinstance(st.value, ast.Call)):
            return run(rest, env, trail, cont)          # docstring / pass
        if isinstance(st, ast.Assert):
            return run(rest, env, trail, cont)
        raise AnalysisError('C05-TDEFERR: statement `%s` of %s.%s is outside the modelled subset' % (ast.unparse(st)[:80], td.name, fn.name))

    run(list(fn.body), {res: 'sa_r'} if res else {}, [], lambda e, t: out.append((None, t)))
    return out


# ------------------------------------------------------------------------------------------------ wiring of from_py_call_code
def wiring_problem(ix, td, base, fn):
    """None when the error-condition argument handed to the base type's from_py_call_code is the typedef's own error_condition(result)
    whenever the caller passed none; else a description.  Raises AnalysisError when the shape is not modelled."""
    me = fn.args.args[0].arg
    calls = [n for n in walk_no_nested(fn) if _is_base_call(n, me) and n.func.attr == fn.name]
    if not calls:
        return 'it no longer forwards to self.typedef_base_type.%s(...)' % fn.name
    hit = ix.find_method(base, fn.name)
    if hit is None:
        raise AnalysisError('%s has no %s' % (base.name, fn.name))
    bparams = [a.arg for a in hit[1].args.args][1:]
    if 'error_condition' not in bparams:
        raise AnalysisError('%s.%s has no error_condition parameter' % (hit[0].name, fn.name))
    pos = bparams.index('error_condition')
    own_params = [a.arg for a in fn.args.args][1:]
    res_name = 'result_code' if 'result_code' in own_params else None

    def own_call(e):
        return (isinstance(e, ast.Call) and isinstance(e.func, ast.Attribute) and e.func.attr == 'error_condition' and isinstance(e.func.value, ast.Name)
                and e.func.value.id == me and len(e.args) == 1 and isinstance(e.args[0], ast.Name) and (res_name is None or e.args[0].id == res_name))

    # value of the local/parameter `error_condition` when the caller passed None, through straight-line `if x is None: x = ...` statements
    env = {p: 'NONE' for p in own_params if p == 'error_condition'}

    def val(e):
        """'OWN' | 'NONE' | 'OTHER'"""
        if own_call(e):
            return 'OWN'
        if isinstance(e, ast.Constant) and e.value is None:
            return 'NONE'
        if isinstance(e, ast.Name):
            return env.get(e.id, 'OTHER')
        if isinstance(e, ast.BoolOp) and isinstance(e.op, ast.Or):
            for v in e.values:
                k = val(v)
                if k != 'NONE':
                    return k
            return 'NONE'
        if isinstance(e, ast.IfExp):
            t = e.test
            if isinstance(t, ast.Compare) and len(t.ops) == 1 and isinstance(t.comparators[0], ast.Constant) and t.comparators[0].value is None:
                k = val(t.left)
                isnone = (k == 'NONE') if isinstance(t.ops[0], ast.Is) else (k != 'NONE') if isinstance(t.ops[0], ast.IsNot) else None
                if isnone is not None and k != 'OTHER':
                    return val(e.body if isnone else e.orelse)
            elif val(t) in ('NONE', 'OWN'):
                return val(e.body if val(t) == 'OWN' else e.orelse)
            return 'OTHER'
        return 'OTHER'

    for st in fn.body:
        if isinstance(st, ast.If) and not st.orelse:
            t = st.test
            k = None
            if isinstance(t, ast.Compare) and len(t.ops) == 1 and isinstance(t.ops[0], ast.Is) and isinstance(t.comparators[0], ast.Constant) and t.comparators[0].value is None:
                k = val(t.left) == 'NONE'
            elif isinstance(t, ast.UnaryOp) and isinstance(t.op, ast.Not):
                k = val(t.operand) == 'NONE'
            if k:
                for s2 in st.body:
                    if isinstance(s2, ast.Assign) and len(s2.targets) == 1 and isinstance(s2.targets[0], ast.Name):
                        env[s2.targets[0].id] = val(s2.value)
        elif isinstance(st, ast.Assign) and len(st.targets) == 1 and isinstance(st.targets[0], ast.Name):
            env[st.targets[0].id] = val(st.value)
    for c in calls:
        arg = c.args[pos] if pos < len(c.args) else None
        for k in c.keywords:
            if k.arg == 'error_condition':
                arg = k.value
        if arg is None:
            return ('it does not pass an error condition to %s.%s: the base type builds its own test, whose sentinel is cast to the DECLARED type' % (hit[0].name, fn.name))
        k = val(arg)
        if k == 'NONE':
            return ('when the caller gives no error condition it passes None on to %s.%s: the base type builds its own test, whose sentinel is cast to the DECLARED type' % (hit[0].name, fn.name))
        if k == 'OTHER':
            src = ast.unparse(arg)
            if 'error_condition' in src and any(isinstance(x, ast.Attribute) and x.attr == 'typedef_base_type' for x in ast.walk(arg)):
                return 'the error condition it passes on (`%s`) is built by the declared base type, not by the typedef' % src
            raise AnalysisError('C05-TDEFERR: the error-condition argument `%s` of %s.%s is not modelled' % (src[:80], td.name, fn.name))
    return None


# ------------------------------------------------------------------------------------------------ the rule
def rule_tdeferr(ctx, floor=2):
    ix = ctx.index
    r = Rule('C05-TDEFERR', 'external integer typedefs: on every path of CTypedefType.error_condition the sentinel test recognises (T)-1 of the REAL type for every declared base type '
             '(typed truth table over rank x signedness of both), and from_py_call_code hands that test to the base type\'s emitter', floor)
    td = ix.cls('PyrexTypes', 'CTypedefType')
    base = ix.cls('PyrexTypes', 'CIntType')
    if td is None or base is None:
        raise AnalysisError('PyrexTypes.CTypedefType / CIntType vanished')
    # the converter of an external integer typedef is instantiated on the typedef's own spelling (decided by C05-CTX); here only: it has such a branch
    cf = td.methods.get('create_from_py_utility_code')
    if cf is None or 'CIntFromPy' not in ast.unparse(cf):
        raise AnalysisError('CTypedefType.create_from_py_utility_code no longer instantiates CIntFromPy for external typedefs')
    fn = td.methods.get('error_condition')
    key = 'PyrexTypes.CTypedefType.error_condition(external integer typedef)'
    if fn is None:
        # inherited / delegated through __getattr__: the base type's test is used as it is
        r.inst(key, sample=key + ': no own method')
        conds = [c for c in _base_conditions(ix, base, 'error_condition', ['sa_r']) if c]
        for cond in conds:
            p = tdef_problems(cond)
            if p:
                r.violate(key, td.module.rel, td.node.lineno, 'CTypedefType has no error_condition of its own, the base type\'s `%s` is emitted (sadecl_t = declared type): %s' % (cond, p))
                break
    else:
        paths = typedef_error_paths(ix, td, base, fn)
        good = [(c, t) for c, t in paths if c is not None]
        if not good:
            raise AnalysisError('C05-TDEFERR: no path of CTypedefType.error_condition could be rendered')
        r.inst(key, sample='%s: %s' % (key, sorted({' '.join(c.split()) for c, t in good})))
        un = len(paths) - len(good)
        if un:
            r.info('%s: %d path alternative(s) not rendered and not decided' % (key, un))
        for cond, trail in good:
            cond = ' '.join(cond.split())
            if not cond or cond == '0':
                continue
            p = tdef_problems(cond)
            if p:
                r.violate(key, td.module.rel, fn.lineno, '%s: on the path [%s] it emits `%s` (sa_r = the converted value, sa_t = the typedef name, sadecl_t = the declared base type): %s'
                          % (key, '; '.join(trail) or 'unconditional', cond, p))
                break
    # wiring
    fp = td.methods.get('from_py_call_code')
    key2 = 'PyrexTypes.CTypedefType.from_py_call_code:error_condition'
    r.inst(key2, sample=key2)
    if fp is None:
        r.violate(key2, td.module.rel, td.node.lineno, 'CTypedefType has no from_py_call_code: the base type emits the conversion with its own error test, whose sentinel is cast to the declared '
                  'type; a failed conversion to an external typedef of a different real width is not noticed')
    else:
        p = wiring_problem(ix, td, base, fp)
        if p:
            r.violate(key2, td.module.rel, fp.lineno, 'CTypedefType.from_py_call_code: %s; for an external typedef whose real unsigned type is wider/narrower than declared, (T)-1 != (declared)-1 and '
                      'the pending OverflowError/TypeError is not noticed' % p)
    r.positive_control(tdef_problems('(sa_r == (sadecl_t)-1) && PyErr_Occurred()') is not None and tdef_problems('(sa_r == -1)') is not None
                       and tdef_problems('(sa_r == ((sa_t)-1)) && PyErr_Occurred()') is None,
                       'sentinel cast to the declared type / uncast fire, cast to the typedef passes')
    return r
