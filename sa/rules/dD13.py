"""C41 - repair-and-rule session D13: function bodies emitted out of tree position must carry their own directives.

Mechanism.  Code generation reads several with-block-settable directives from `code.globalstate.directives`
(cdivision in DivNode, boundscheck / wraparound in buffer, memoryview and slice indexing, ...).  That mapping is
installed by `CompilerDirectivesMixin.apply_directives(code.globalstate)` while a directives node emits its body, so
it is right for a node exactly when the emission pass reaches the node *through the tree*, below every directives
node that encloses it in the source.  A node that is emitted from somewhere else - the lambdas and generator
expressions a scope collects in `Scope.lambda_defs`, emitted by the owner of the scope - is outside that nesting:
its C code is produced under the directives of whoever emits it.

C41-DEFEMIT decides, over every dispatch of the function-definition pass (`X.generate_function_definitions(...)`)
in the compiler:
  * where X comes from (def-use through locals, loop targets, helper parameters and their call sites): a field of
    the dispatching node / the node itself (tree position: nothing to do), a *scope registry* (an attribute that the
    scope classes of Symtab own), or a directives wrapper built on the spot;
  * for a registry node: which mapping is installed on `code.globalstate` at the dispatch (wrapper node around it,
    `with W.apply_directives(code.globalstate)`, or a dominating store to `code.globalstate.directives`) and whether
    that mapping is taken from the emitted node itself (`node.local_scope.directives`, copies of it) - not from the
    emitting scope, the global state or the internal defaults;
  * that every emission method of a CompilerDirectivesMixin class dispatches under
    `self.apply_directives(code.globalstate)` (otherwise no wrapper installs anything).
Premise, measured on the tree: at least one with-block-settable directive is read from `code.globalstate.directives`
at code generation time (instances `genread:<key>`); without such reads the rule has nothing to protect and says so.

Static only: ASTs of the compiler sources; nothing is imported or executed.
"""
import ast

from ..core import Rule, AnalysisError
from ..engine import tables
from ..engine.pyindex import walk_no_nested

EMIT = 'generate_function_definitions'
MODULES = ('Nodes', 'ExprNodes', 'ModuleNode', 'FusedNode', 'UtilNodes', 'MatchCaseNodes', 'Dataclass', 'Symtab',
           'Code', 'Pipeline', 'ParseTreeTransforms', 'Optimize', 'Buffer', 'MemoryView')
MIXIN = 'CompilerDirectivesMixin'
COPYISH = {'dict', 'copy', 'deepcopy', 'copy_inherited_directives'}
SEQ_WRAP = {'list', 'tuple', 'sorted', 'reversed', 'iter', 'enumerate', 'set', 'frozenset'}


# ------------------------------------------------------------------ one function under analysis

class FnCtx:
    def __init__(self, fn, owner_name, mod_short, qual, world):
        self.fn, self.owner_name, self.mod, self.qual, self.world = fn, owner_name, mod_short, qual, world
        self.parent = {}
        for n in ast.walk(fn):
            for c in ast.iter_child_nodes(n):
                self.parent[id(c)] = n
        a = fn.args
        self.params = [x.arg for x in a.posonlyargs + a.args]
        self.selfname = self.params[0] if (owner_name and self.params) else None
        self._bind = None

    # -- bindings of local names (no nested functions)
    def bindings(self, name):
        if self._bind is None:
            b = {}

            def add(t, what):
                if isinstance(t, ast.Name):
                    b.setdefault(t.id, []).append(what)
                elif isinstance(t, (ast.Tuple, ast.List)):
                    for e in t.elts:
                        add(e, ('elt',) + what if what[0] in ('for',) else ('opaque', what))
                elif isinstance(t, ast.Starred):
                    add(t.value, ('opaque', what))
            for n in walk_no_nested(self.fn):
                if isinstance(n, ast.Assign):
                    for t in n.targets:
                        add(t, ('assign', n.value, n))
                elif isinstance(n, ast.AnnAssign) and n.value is not None:
                    add(n.target, ('assign', n.value, n))
                elif isinstance(n, ast.AugAssign):
                    add(n.target, ('opaque', n))
                elif isinstance(n, (ast.For, ast.AsyncFor)):
                    add(n.target, ('for', n.iter, n))
                elif isinstance(n, ast.comprehension):
                    add(n.target, ('for', n.iter, n))
                elif isinstance(n, ast.NamedExpr):
                    add(n.target, ('assign', n.value, n))
                elif isinstance(n, (ast.With, ast.AsyncWith)):
                    for it in n.items:
                        if it.optional_vars is not None:
                            add(it.optional_vars, ('opaque', n))
            self._bind = b
        out = list(self._bind.get(name, []))
        if name in self.params:
            out.append(('param', self.params.index(name)))
        return out


def _txt(n):
    return ' '.join(ast.unparse(n).split())


def _is_name(n, name):
    return isinstance(n, ast.Name) and n.id == name


# ------------------------------------------------------------------ where does a node-valued expression come from

def origin(expr, fc, depth=0, collection=False):
    """-> list of origins: ('self',) | ('own', text) | ('registry', text, var) | ('wrapper', kind, body, dexpr, call)
       | ('param', name, index) | ('unknown', text).  `var` = the local name that holds the drawn node (if any)."""
    w = fc.world
    if depth > 8:
        return [('unknown', _txt(expr))]
    if isinstance(expr, ast.Name):
        if expr.id == fc.selfname:
            return [('self',)]
        out = []
        bs = fc.bindings(expr.id)
        if not bs:
            return [('unknown', _txt(expr))]
        for b in bs:
            if b[0] == 'param':
                out.append(('param', expr.id, b[1]))
            elif b[0] == 'assign':
                out.extend(origin(b[1], fc, depth + 1, collection))
            elif b[0] == 'for':
                for o in origin(b[1], fc, depth + 1, True):
                    out.append(('registry', o[1], expr.id) if o[0] == 'registry' else o)
            elif b[0] == 'elt' and b[1] == 'for':
                it = b[2]
                if isinstance(it, ast.Call) and isinstance(it.func, ast.Name) and it.func.id == 'enumerate' and it.args:
                    for o in origin(it.args[0], fc, depth + 1, True):
                        out.append(('registry', o[1], expr.id) if o[0] == 'registry' else o)
                else:
                    out.append(('unknown', _txt(it)))
            else:
                out.append(('unknown', expr.id))
        return out
    if isinstance(expr, ast.Attribute):
        in_scope_class = fc.owner_name in w['scope_classes']
        if _is_name(expr.value, fc.selfname) and not (in_scope_class and expr.attr in w['registry']):
            return [('own', _txt(expr))]
        if expr.attr in w['registry']:
            # a registry hangs off a scope: env / lenv / self.scope / self.local_scope / node.scope ...
            return [('registry', _txt(expr), None)]
        base = origin(expr.value, fc, depth + 1)
        return [(o if o[0] != 'self' else ('own', _txt(expr))) for o in base]
    if isinstance(expr, ast.Subscript):
        return origin(expr.value, fc, depth + 1, collection)
    if isinstance(expr, ast.Call):
        f = expr.func
        if isinstance(f, ast.Name) and f.id == 'super':
            return [('self',)]
        if isinstance(f, ast.Name) and f.id in SEQ_WRAP and expr.args:
            return origin(expr.args[0], fc, depth + 1, collection)
        cname, meth = None, None
        if isinstance(f, ast.Name):
            cname = f.id
        elif isinstance(f, ast.Attribute):
            if f.attr in ('for_directives', 'for_internal') and isinstance(f.value, (ast.Name, ast.Attribute)):
                cname, meth = (f.value.id if isinstance(f.value, ast.Name) else f.value.attr), f.attr
            else:
                cname = f.attr
        if cname in w['mixin_classes'] or (cname == 'cls' and fc.owner_name in w['mixin_classes']):
            kw = {k.arg: k.value for k in expr.keywords if k.arg}
            if meth is None:
                body = kw.get('body') or kw.get('arg')
                dexpr = kw.get('directives')
                pos = list(expr.args)
                if body is None and len(pos) >= 2:
                    body = pos[1]
                if cname == 'CompilerDirectivesExprNode' and pos:
                    body = body or pos[0]
                    dexpr = dexpr or (pos[1] if len(pos) > 1 else None)
                if body is None or dexpr is None:
                    return [('unknown', _txt(expr))]
                return [('wrapper', 'ctor', body, dexpr, expr)]
            body = expr.args[0] if expr.args else kw.get('body')
            envx = expr.args[1] if len(expr.args) > 1 else kw.get('env')
            if body is None or envx is None:
                return [('unknown', _txt(expr))]
            return [('wrapper', meth, body, envx, expr)]
        return [('unknown', _txt(expr))]
    if isinstance(expr, ast.IfExp):
        return origin(expr.body, fc, depth + 1, collection) + origin(expr.orelse, fc, depth + 1, collection)
    return [('unknown', _txt(expr))]


def node_var(expr, fc, depth=0):
    """The local name a node expression denotes (through plain name-to-name aliases)."""
    if isinstance(expr, ast.Name):
        bs = fc.bindings(expr.id)
        if depth < 6 and len(bs) == 1 and bs[0][0] == 'assign' and isinstance(bs[0][1], ast.Name):
            return node_var(bs[0][1], fc, depth + 1)
        return expr.id
    return None


def mapping_root(expr, fc, depth=0):
    """Root object a directives mapping is taken from: ('name', local) | ('internal',) | ('unknown', text)."""
    if depth > 8:
        return ('unknown', _txt(expr))
    if isinstance(expr, ast.Name):
        bs = fc.bindings(expr.id)
        if len(bs) == 1 and bs[0][0] == 'assign':
            return mapping_root(bs[0][1], fc, depth + 1)
        if len(bs) > 1 and all(b[0] == 'assign' for b in bs):
            roots = {mapping_root(b[1], fc, depth + 1) for b in bs}
            return roots.pop() if len(roots) == 1 else ('unknown', _txt(expr))
        return ('name', expr.id)
    if isinstance(expr, (ast.Attribute, ast.Subscript)):
        return mapping_root(expr.value, fc, depth + 1)
    if isinstance(expr, ast.Call):
        f = expr.func
        fname = f.id if isinstance(f, ast.Name) else (f.attr if isinstance(f, ast.Attribute) else None)
        if fname == 'copy_for_internal':
            return ('internal',)
        if fname in COPYISH and expr.args:
            return mapping_root(expr.args[0], fc, depth + 1)
        if fname == 'copy' and isinstance(f, ast.Attribute) and not expr.args:
            return mapping_root(f.value, fc, depth + 1)
        if fname in ('get_directive_defaults', 'get_conversion_utility_code_directives'):
            return ('internal',)
    if isinstance(expr, ast.IfExp):
        a, b = mapping_root(expr.body, fc, depth + 1), mapping_root(expr.orelse, fc, depth + 1)
        return a if a == b else ('unknown', _txt(expr))
    return ('unknown', _txt(expr))


def _is_globalstate(e):
    return isinstance(e, ast.Attribute) and e.attr == 'globalstate'


def installed(site, fc):
    """Mappings installed on <code>.globalstate at `site` inside fc.fn -> list of roots
    (('self',) for `with self.apply_directives(code.globalstate)` in a mixin class)."""
    out = []
    n = site
    while id(n) in fc.parent:
        p = fc.parent[id(n)]
        if isinstance(p, (ast.With, ast.AsyncWith)) and n in p.body:
            for it in p.items:
                c = it.context_expr
                if (isinstance(c, ast.Call) and isinstance(c.func, ast.Attribute) and c.func.attr == 'apply_directives'
                        and c.args and _is_globalstate(c.args[0])):
                    h = c.func.value
                    if _is_name(h, fc.selfname):
                        out.append(('self',))
                        continue
                    for o in origin(h, fc):
                        if o[0] == 'wrapper':
                            out.append(wrapper_root(o, fc))
                        else:
                            out.append(mapping_root(h, fc))
        # dominating stores `<code>.globalstate.directives = D` earlier in the same block
        for fld in ('body', 'orelse', 'finalbody'):
            blk = getattr(p, fld, None)
            if isinstance(blk, list) and n in blk:
                last = None
                for s in blk[:blk.index(n)]:
                    if isinstance(s, ast.Assign):
                        for t in s.targets:
                            if isinstance(t, ast.Attribute) and t.attr == 'directives' and _is_globalstate(t.value):
                                last = s.value
                if last is not None:
                    out.append(mapping_root(last, fc))
        n = p
    return out


def guarded_same(site, fc, var):
    """True iff `site` lies on a branch whose condition states that the mapping of `var` IS (==) the mapping currently
    installed on <code>.globalstate (then emitting without a wrapper is the same thing)."""
    def is_installed(e):
        return isinstance(e, ast.Attribute) and e.attr == 'directives' and _is_globalstate(e.value)
    n = site
    while id(n) in fc.parent:
        p = fc.parent[id(n)]
        if isinstance(p, ast.If) and isinstance(p.test, ast.Compare) and len(p.test.ops) == 1:
            a, b, op = p.test.left, p.test.comparators[0], p.test.ops[0]
            for x, y in ((a, b), (b, a)):
                y_inst = is_installed(y) or (isinstance(y, ast.Name) and len(fc.bindings(y.id)) == 1 and fc.bindings(y.id)[0][0] == 'assign'
                                             and is_installed(fc.bindings(y.id)[0][1]))
                if y_inst and not is_installed(x) and mapping_root(x, fc) == ('name', var):
                    if (isinstance(op, (ast.Is, ast.Eq)) and n in p.body) or (isinstance(op, (ast.IsNot, ast.NotEq)) and n in p.orelse):
                        return True
        n = p
    return False


def wrapper_root(o, fc):
    kind, dexpr = o[1], o[3]
    if kind == 'for_internal':
        return ('internal',)
    return mapping_root(dexpr, fc)


# ------------------------------------------------------------------ the world: registry names, mixin classes, callers

def build_world(ctx):
    ix = ctx.index
    sym = ix.mod('Symtab')
    registry, scope_classes = set(), set()
    for c in ix._all_classes(sym):
        scope_classes.add(c.name)
        registry |= set(c.self_attrs)
    if 'lambda_defs' not in registry and not any('defs' in a for a in registry):
        # the registry the rule was written for may be renamed; the attribute set must still be a scope vocabulary
        pass
    if len(registry) < 30:
        raise AnalysisError('C41-DEFEMIT: only %d attributes of the Symtab scope classes found' % len(registry))
    nodes = ix.mod('Nodes')
    if MIXIN not in nodes.classes:
        raise AnalysisError('C41-DEFEMIT: Nodes.%s vanished' % MIXIN)
    mixin_classes = {MIXIN}
    for c in ix.all_classes():
        if c.name != MIXIN and ix.is_subclass(c, MIXIN):
            mixin_classes.add(c.name)
    fns, calls, reads = [], {}, []
    for ms in MODULES:
        try:
            m = ix.mod(ms)
        except AnalysisError:
            continue
        for qn, owner, fn in ix.functions_of(m):
            fns.append((m, qn, owner, fn))
            for n in walk_no_nested(fn):
                if isinstance(n, ast.Call):
                    f = n.func
                    nm = f.attr if isinstance(f, ast.Attribute) else (f.id if isinstance(f, ast.Name) else None)
                    if nm is not None:
                        calls.setdefault(nm, []).append((m, qn, owner, fn, n))
                elif (isinstance(n, ast.Subscript) and isinstance(n.slice, ast.Constant) and isinstance(n.slice.value, str)
                        and isinstance(n.value, ast.Attribute) and n.value.attr == 'directives' and _is_globalstate(n.value.value)):
                    reads.append((m, qn, n.slice.value))
    return dict(registry=registry, scope_classes=scope_classes, mixin_classes=mixin_classes, fns=fns, ix=ix, calls=calls, reads=reads, fcs={})


def fnctx(world, m, qn, owner, fn):
    k = id(fn)
    if k not in world['fcs']:
        world['fcs'][k] = FnCtx(fn, owner.name if owner else None, m.short, qn, world)
    return world['fcs'][k]


def callers_of(world, fname):
    """(FnCtx of caller, call, module) for every call `<x>.fname(...)` / `fname(...)` in the analysed modules."""
    return [(fnctx(world, m, qn, owner, fn), n, m) for m, qn, owner, fn, n in world['calls'].get(fname, [])]


def arg_for_param(call, fc_callee, index, pname):
    """Argument expression bound to parameter #index of the callee at `call` (method calls drop self)."""
    for k in call.keywords:
        if k.arg == pname:
            return k.value
    i = index
    f = call.func
    if fc_callee.selfname is not None:
        explicit_self = isinstance(f, ast.Attribute) and isinstance(f.value, ast.Name) and f.value.id[:1].isupper()
        if not explicit_self:
            i -= 1
    if 0 <= i < len(call.args) and not any(isinstance(a, ast.Starred) for a in call.args[:i + 1]):
        return call.args[i]
    return None


# ------------------------------------------------------------------ judging one dispatch site

def self_installing(world):
    """Alternative repair: the function nodes install their own scope's directives on code.globalstate around the
    emission of their body.  True iff EVERY method `generate_function_definitions` of a node class that emits a
    function body (calls `.generate_function_body(...)`: FuncDefNode, GeneratorBodyDefNode, ...) does so at that call."""
    ix = world['ix']
    found = 0
    for m, qn, owner, fn, n in world['calls'].get('generate_function_body', []):
        if owner is None or fn.name != EMIT:
            continue
        fc = fnctx(world, m, qn, owner, fn)
        if not _is_name(getattr(n.func, 'value', None), fc.selfname):
            continue
        # does this site emit user code for some class that runs this method?  (DefNodeWrapper / GeneratorDefNode have
        # a generate_function_body of their own that only emits glue)
        emits_user_code = False
        for c in [owner] + ix.subclasses(owner):
            got = ix.find_method(c, EMIT)
            if not got or got[1] is not fn:
                continue
            body = ix.find_method(c, 'generate_function_body')
            if body and any(isinstance(x, ast.Call) and isinstance(x.func, ast.Attribute) and x.func.attr == 'generate_execution_code'
                            for x in walk_no_nested(body[1])):
                emits_user_code = True
        if not emits_user_code:
            continue
        found += 1
        if not any(rt == ('name', fc.selfname) for rt in installed(n, fc)):
            return False
    return found > 0


def judge(site, recv, fc, r, world, selfinst, seen=None, via=''):
    """Evaluate one dispatch `recv.generate_function_definitions(...)`; report through r.  Returns list of verdict strings."""
    verdicts = []
    rel = world['ix'].mod(fc.mod).rel
    where = '%s.%s' % (fc.mod, fc.qual)
    for o in origin(recv, fc):
        kind = o[0]
        if kind in ('self', 'own'):
            verdicts.append('tree')
        elif kind == 'registry':
            var = o[2] or node_var(recv, fc)
            roots = installed(site, fc)
            ok = any(rt == ('name', var) for rt in roots) or selfinst or guarded_same(site, fc, var)
            verdicts.append('registry-scoped' if ok else 'registry-bare')
            if not ok:
                what = ('under %s' % ', '.join(_root_txt(x) for x in roots)) if roots else 'with no directives installed for it'
                r.violate('%s:%s:bare' % (where, o[1].split('.')[-1]), rel, site.lineno,
                          '%s emits the function nodes collected in %s (lambdas / generator expressions of the whole scope, wherever they were written) %s: '
                          'their C code is generated under code.globalstate.directives of the emitting scope, so a lambda inside `with cython.cdivision(False)` '
                          '(boundscheck, wraparound, ...) is compiled with the directives of the enclosing function / file header%s'
                          % (where, o[1], what, via))
        elif kind == 'wrapper':
            wroot = wrapper_root(o, fc)
            body = o[2]
            bvar = node_var(body, fc)
            if bvar is not None and wroot == ('name', bvar):
                verdicts.append('wrapped-own')      # directives taken from the wrapped node itself
                continue
            for bo in origin(body, fc):
                if bo[0] in ('self', 'own'):
                    verdicts.append('tree-wrapped')
                elif bo[0] == 'registry':
                    if selfinst:
                        verdicts.append('registry-scoped')
                        continue
                    verdicts.append('registry-miswrapped')
                    r.violate('%s:%s:wrapper-mapping' % (where, bo[1].split('.')[-1]), rel, site.lineno,
                              '%s wraps the function nodes collected in %s in a directives node whose mapping comes from %s, not from the wrapped function '
                              '(its local_scope.directives): lambdas / generator expressions inside a `with cython.<directive>(...)` block are generated '
                              'with the wrong directives%s' % (where, bo[1], _root_txt(wroot), via))
                elif bo[0] == 'param':
                    verdicts += follow_param(bo, site, fc, r, world, selfinst, seen, wrapped_root=wroot)
                elif bo[0] == 'wrapper':
                    verdicts.append('tree-wrapped')
                else:
                    raise AnalysisError('C41-DEFEMIT: cannot tell where the body %s of the directives wrapper in %s comes from' % (_txt(body), where))
        elif kind == 'param':
            verdicts += follow_param(o, site, fc, r, world, selfinst, seen)
        else:
            raise AnalysisError('C41-DEFEMIT: cannot tell where the receiver %s of %s in %s comes from' % (_txt(recv), EMIT, where))
    return verdicts


def _root_txt(rt):
    if rt[0] == 'name':
        return "`%s`" % rt[1]
    if rt[0] == 'self':
        return 'the directives node itself'
    if rt[0] == 'internal':
        return 'the internal defaults (copy_for_internal)'
    return rt[1]


def follow_param(o, site, fc, r, world, selfinst, seen, wrapped_root=None):
    """The emitted node is a parameter of a helper: decide at the helper's call sites."""
    pname, pidx = o[1], o[2]
    seen = set(seen or ())
    key = (fc.mod, fc.qual, pname)
    if key in seen or len(seen) > 4:
        raise AnalysisError('C41-DEFEMIT: helper chain too deep at %s.%s' % (fc.mod, fc.qual))
    seen.add(key)
    here = installed(site, fc)
    if wrapped_root is not None:
        here = here + [wrapped_root]
    if any(rt == ('name', pname) for rt in here):
        return ['wrapped-own']
    calls = [(c, call, m) for c, call, m in callers_of(world, fc.fn.name)]
    if not calls:
        raise AnalysisError('C41-DEFEMIT: %s.%s emits its parameter %r but no call site of it was found' % (fc.mod, fc.qual, pname))
    verdicts = []
    for cfc, call, m in calls:
        arg = arg_for_param(call, fc, pidx, pname)
        if arg is None:
            raise AnalysisError('C41-DEFEMIT: cannot bind parameter %r of %s.%s at %s.%s' % (pname, fc.mod, fc.qual, cfc.mod, cfc.qual))
        for ao in origin(arg, cfc):
            if ao[0] in ('self', 'own', 'wrapper'):
                verdicts.append('tree')
                if ao[0] == 'wrapper':
                    # a wrapper handed to the helper: judge it like a direct dispatch
                    verdicts += judge(call, arg, cfc, r, world, selfinst, seen, via=' (through %s.%s)' % (fc.mod, fc.qual))
            elif ao[0] == 'registry':
                var = ao[2] or node_var(arg, cfc)
                outer = installed(call, cfc)
                ok = any(rt == ('name', var) for rt in outer) or selfinst
                verdicts.append('registry-scoped' if ok else 'registry-bare')
                if not ok:
                    roots = outer + here
                    what = ('under %s' % ', '.join(_root_txt(x) for x in roots)) if roots else 'with no directives installed for them'
                    r.violate('%s.%s:%s:bare' % (cfc.mod, cfc.qual, ao[1].split('.')[-1]), m.rel, call.lineno,
                              '%s.%s hands the function nodes collected in %s to %s.%s, which emits them %s: lambdas / generator expressions inside a '
                              '`with cython.<directive>(...)` block are generated with the directives of the emitting scope'
                              % (cfc.mod, cfc.qual, ao[1], fc.mod, fc.qual, what))
            elif ao[0] == 'param':
                verdicts += follow_param(ao, call, cfc, r, world, selfinst, seen)
            else:
                raise AnalysisError('C41-DEFEMIT: cannot tell where %s (argument %r of %s.%s in %s.%s) comes from'
                                    % (_txt(arg), pname, fc.mod, fc.qual, cfc.mod, cfc.qual))
    return verdicts


# ------------------------------------------------------------------ the rule

POSITIVE = '''
class Holder:
    def emit_collected(self, env, code):
        for fn_node in env.lambda_defs:
            fn_node.generate_function_definitions(env, code)
    def emit_wrapped(self, env, code):
        for fn_node in env.lambda_defs:
            CompilerDirectivesNode(fn_node.pos, body=fn_node, directives=fn_node.local_scope.directives).generate_function_definitions(env, code)
    def emit_miswrapped(self, env, code):
        for fn_node in env.lambda_defs:
            CompilerDirectivesNode(fn_node.pos, body=fn_node, directives=env.directives).generate_function_definitions(env, code)
'''


def _positive(world):
    tree = ast.parse(POSITIVE)
    cls = tree.body[0]
    got = {}
    for fn in cls.body:
        probe = Rule('probe', 'probe')
        fc = FnCtx(fn, 'Holder', 'Nodes', 'Holder.' + fn.name, world)
        for n in walk_no_nested(fn):
            if isinstance(n, ast.Call) and isinstance(n.func, ast.Attribute) and n.func.attr == EMIT:
                judge(n, n.func.value, fc, probe, world, False)
        got[fn.name] = len(probe.findings)
    return got == {'emit_collected': 1, 'emit_wrapped': 0, 'emit_miswrapped': 1}, got


def with_settable(ctx):
    tree = ctx.parse('Cython/Compiler/Options.py')
    sc = tables.module_assign(tree, 'directive_scopes')
    dd = tables.module_assign(tree, '_directive_defaults')
    if not isinstance(sc, ast.Dict) or not isinstance(dd, ast.Dict):
        raise AnalysisError('C41-DEFEMIT: Options.directive_scopes / _directive_defaults are not dict displays')
    restricted = {}
    for k, v in zip(sc.keys, sc.values):
        if isinstance(k, ast.Constant):
            val = tables.literal(v)
            restricted[k.value] = (val,) if isinstance(val, str) else tuple(val or ())
    keys = {k.value for k in dd.keys if isinstance(k, ast.Constant)}
    return {k for k in keys if k not in restricted or 'with statement' in restricted[k]}


def rule_DEFEMIT(ctx):
    r = Rule('C41-DEFEMIT', 'every dispatch of the function-definition pass reaches a node by tree position, or - for nodes drawn from a scope registry '
             '(Scope.lambda_defs: lambdas, generator expressions) - under a directives mapping taken from the emitted node itself; directives nodes install '
             'their mapping on code.globalstate around every emission they forward', floor=75)
    world = ctx.memo('dD13.world', lambda: build_world(ctx))
    ok, got = _positive(world)
    r.positive_control(ok, 'bare / mis-wrapped emission of env.lambda_defs is reported, emission wrapped in the node\'s own directives is not (%s)' % got)

    # premise: generation-time reads of with-settable directives from the installed mapping
    settable = with_settable(ctx)
    genreads = {}
    for m, qn, key in world['reads']:
        if m.short in ('Nodes', 'ExprNodes', 'MatchCaseNodes', 'UtilNodes', 'FusedNode', 'Buffer', 'MemoryView') and key in settable:
            genreads.setdefault(key, '%s.%s' % (m.short, qn))
    selfinst = self_installing(world)
    if selfinst:
        r.info('FuncDefNode.generate_function_definitions installs the directives of its own scope around the body emission')

    # part 1: dispatch sites
    n_sites = n_reg = 0
    for m, qn, owner, fn, n in world['calls'].get(EMIT, []):
        if not isinstance(n.func, ast.Attribute):
            continue
        fc = fnctx(world, m, qn, owner, fn)
        recv = n.func.value
        if isinstance(recv, ast.Name) and recv.id[:1].isupper() and n.args and _is_name(n.args[0], fc.selfname):
            v = ['tree']            # Base.generate_function_definitions(self, ...)
        else:
            v = judge(n, recv, fc, r, world, selfinst)
        n_sites += 1
        nontrivial = any(x != 'tree' for x in v)
        n_reg += nontrivial
        r.inst('%s.%s:%s' % (m.short, qn, _txt(recv)), nontrivial=nontrivial,
               sample=('%s.%s: %s -> %s' % (m.short, qn, _txt(recv), '/'.join(sorted(set(v))))) if nontrivial else None)
    if n_reg == 0 and not selfinst:
        # the registry exists (Scope.add_lambda_def) -> somebody must emit it
        sym = world['ix'].mod('Symtab')
        if any(isinstance(n, ast.Attribute) and n.attr == 'lambda_defs' for n in ast.walk(sym.tree)):
            raise AnalysisError('C41-DEFEMIT: Scope.lambda_defs exists but no emission of it was found')

    # part 2: directives nodes install their mapping around every emission they forward
    ix = world['ix']
    n_fw = 0
    for c in ix.all_classes():
        if c.name not in world['mixin_classes'] or c.name == MIXIN:
            continue
        for name, fn in c.methods.items():
            params = [a.arg for a in fn.args.args]
            if 'code' not in params or not (name.startswith('generate_') or name in ('annotate', 'free_temps')):
                continue
            fc = FnCtx(fn, c.name, c.module.short, '%s.%s' % (c.name, name), world)
            for n in walk_no_nested(fn):
                if isinstance(n, ast.Call) and isinstance(n.func, ast.Attribute) and n.func.attr == name:
                    n_fw += 1
                    r.inst('%s.%s:forward' % (c.name, name), sample='%s.%s forwards under %s' % (c.name, name, [_root_txt(x) for x in installed(n, fc)]))
                    if ('self',) not in installed(n, fc):
                        r.violate('%s.%s.%s:not-installed' % (c.module.short, c.name, name), c.module.rel, n.lineno,
                                  '%s.%s forwards to %s without `with self.apply_directives(code.globalstate)`: the directives of the with-block / decorator '
                                  'are not in effect while the C code of the enclosed code is generated (cdivision, boundscheck, wraparound, ... fall back '
                                  'to the enclosing scope)' % (c.name, name, _txt(n.func.value)))
    for k, wh in sorted(genreads.items()):
        r.inst('genread:' + k, sample='code.globalstate.directives[%r] read at generation time (%s)' % (k, wh), nontrivial=False)
    if not genreads:
        # the premise of the obligation is gone: nothing the emission order could get wrong
        r.info('no with-settable directive is read from code.globalstate.directives at generation time: emission order no longer matters for C41 '
               '(%d dispatch findings dropped)' % len(r.findings))
        r.findings = [f for f in r.findings if f.construct.endswith(':not-installed')]
    if n_fw < 3:
        raise AnalysisError('C41-DEFEMIT: only %d forwarding emission methods found in the directives node classes' % n_fw)
    return r
